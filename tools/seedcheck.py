#!/usr/bin/env python3
"""Runs the quick tier of a property's check against a seeded change, in a scratch copy of the
repository (never /repo itself), and records the outcome in seeded/<id>/result.json.

  tools/seedcheck.py <seed-dir-name> [<property id to run> ...]
"""
import json, os, subprocess, sys, time
ROOT="/verif"
PKG = {"C01":"codec vcodec","C07":"codec vcodec","C08":"codec vcodec","C13":"codec vcodec","C14":"codec vcodec",
       "C02":"bus vbus","C03":"bus vbus","C04":"bus vbus","C05":"bus vbus","C09":"bus vbus","C10":"bus vbus","C11":"bus vbus","C12":"bus vbus",
       "C06":"api vapi","C15":"api vapi","C19":"api vapi","C16":"schema vschema","C17":"schema vschema","C18":"schema vschema","C20":"schema vschema"}
def sh(c):
    return subprocess.run(c, shell=True, stdout=subprocess.PIPE, stderr=subprocess.STDOUT, text=True)
def main():
    name=sys.argv[1]
    props=sys.argv[2:] or [name.split('-')[0]]
    sname="seedchk%d"%os.getpid()
    S="/tmp/vs-"+sname
    print(sh(f"{ROOT}/tools/scratch.sh new {sname}").stdout.strip())
    res={}
    try:
        a=sh(f"git -C {S}/repo apply {ROOT}/seeded/{name}/patch.diff")
        if a.returncode!=0:
            print("patch does not apply:",a.stdout); res["apply"]="failed"; return
        for p in props:
            pkg,binname=PKG[p].split()
            t0=time.time()
            r=sh(f"{ROOT}/tools/scratch.sh run {sname} {pkg} {binname} {p} --tier quick --seed 1")
            if p=="C05":
                # second half of the same check (client level, vapi)
                r2=sh(f"{ROOT}/tools/scratch.sh run {sname} api vapi C05 --tier quick --seed 1")
                r.stdout += r2.stdout
                if r2.returncode==1 or r.returncode==0: r.returncode=r2.returncode if r.returncode!=1 else 1
            sigs=[l.split("signature=")[1].strip() for l in r.stdout.splitlines() if l.startswith("violation signature=")]
            caught = r.returncode==1 and "VIOLATION property=" in r.stdout
            res[p]={"caught":caught,"exit":r.returncode,"signatures":sigs[:4],"wall_s":round(time.time()-t0)}
            print(name,p,"CAUGHT" if caught else "missed (exit %d)"%r.returncode, sigs[:3])
            if not caught:
                print("  ", "\n   ".join(r.stdout.splitlines()[-5:]))
            # keep the replay file of the first violation next to the seed
            if caught:
                for l in r.stdout.splitlines():
                    if l.startswith("VIOLATION property="):
                        rp=l.split("replay=")[1].strip()
                        sh(f"cp {rp} {ROOT}/seeded/{name}/replay-{p}.case")
                        break
    finally:
        sh(f"{ROOT}/tools/scratch.sh rm {sname}")
        old={}
        rp=f"{ROOT}/seeded/{name}/result.json"
        if os.path.exists(rp): old=json.load(open(rp))
        old.update(res)
        json.dump(old,open(rp,"w"),indent=1)
main()
