#!/bin/sh
# Takes over an agent's seeded change from its scratch worktree, confirms it there and removes the worktree.
#   tools/process_seed.sh <worktree> <seed-name>
# Confirmation: suite passes with the change; the demonstration fails with it and passes without it.
wt=$1; name=$2
d=/verif/seeded/$name
mkdir -p $d/demo
cp $wt/seed_out/patch.diff $d/patch.diff || exit 2
cp $wt/seed_out/demo/* $d/demo/
cp $wt/seed_out/meta.json $d/meta.agent.json
demo=$(python3 -c "import json;m=json.load(open('$d/meta.agent.json'));print(m['demo']['file'].split('/')[-1])")
dest=$(python3 -c "import json,os;m=json.load(open('$d/meta.agent.json'));print(os.path.dirname(m['demo']['copy_to']))")
cmd=$(python3 -c "import json;m=json.load(open('$d/meta.agent.json'));c=m['demo']['command'];print(c.replace('cargo test ','',1).replace('--offline',''))")
rm -rf $wt/seed_out $wt/SEED_TASK.md
sh /verif/tools/confirm_seed.sh $name $wt $demo $dest $cmd | tee -a /verif/seeded/confirm.log
git -C /repo worktree remove --force $wt; git -C /repo worktree prune
