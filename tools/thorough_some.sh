#!/bin/sh
# Thorough tier of the given checks from private copies of the binaries (for `vp run`):
#   tools/thorough_some.sh <seed> <id>...
# Writes into the directory it is started from (VERIF_ROOT), never into /verif.
seed=$1; shift
export VERIF_ROOT=$(pwd)
export CARGO_NET_OFFLINE=true
cp /verif/known_findings.json . 2>/dev/null
mkdir -p bin && cp /verif/target/verif/vcodec /verif/target/verif/vbus /verif/target/verif/vapi /verif/target/verif/vschema bin/
for id in "$@"; do
  case $id in C01|C07|C08|C13|C14) bins=vcodec;; C05) bins="vapi vbus";; C02|C03|C04|C09|C10|C11|C12) bins=vbus;; C06|C15|C19) bins=vapi;; *) bins=vschema;; esac
  for bin in $bins; do
    out=$(nice -n 10 ./bin/$bin $id --tier thorough --seed $seed 2>&1); rc=$?
    echo "$id $bin seed=$seed rc=$rc $(echo "$out" | grep 'tier=' | head -1)"
    echo "$out" | grep -E "VIOLATION|violation signature|unhealthy|harness:" | head -8
  done
done
