#!/usr/bin/env python3
"""Assembles seeded/<id>/meta.json from the agent's notes (meta.agent.json), my own confirmation
(work/confirm-seeds.log, produced by tools/confirm_seed.sh in a scratch worktree) and the result of
running the checks against the change (seeded/<id>/result.json, produced by tools/seedcheck.py)."""
import json, os, re, sys
root = os.path.dirname(os.path.dirname(os.path.abspath(__file__)))
confirm = {}
for p in ("work/confirm-seeds.log", "seeded/confirm.log"):
    p = os.path.join(root, p)
    if os.path.exists(p):
        for line in open(p):
            m = re.match(r"(C\d\d(?:-\d+)?): (.*)", line.strip())
            if m: confirm[m.group(1)] = m.group(2)
            m = re.match(r"(C\d\d(?:-\d+)?) (rerun .*)", line.strip())
            if m: confirm[m.group(1)] = confirm.get(m.group(1), "") + "; " + m.group(2)
for sid in sorted(os.listdir(os.path.join(root, "seeded"))):
    d = os.path.join(root, "seeded", sid)
    if not os.path.isdir(d) or sid.endswith('-rejected'): continue
    a = json.load(open(os.path.join(d, "meta.agent.json")))
    r = json.load(open(os.path.join(d, "result.json"))) if os.path.exists(os.path.join(d, "result.json")) else {}
    demo = a.get("demo") or {}
    if not demo:
        demos = os.listdir(os.path.join(d, "demo"))
        demo = {"file": "demo/" + demos[0]}
    meta = {
        "property": a["property"],
        "origin": "written by an independent sub-agent that was given only the property text and a scratch git worktree of /repo (nothing from /verif)",
        "change": a["summary"],
        "files": a.get("files"),
        "needs_to_manifest": a["needs"],
        "patch": "patch.diff",
        "demonstration": {"file": "demo/" + os.path.basename(demo.get("file", "")), "copy_to": demo.get("copy_to"), "command": demo.get("command")},
        "confirmed_by_me": {
            "how": "tools/confirm_seed.sh in the scratch worktree /tmp/seed-%s (removed afterwards; second-wave seeds C<nn>-2 used /tmp/seed-C<nn> again, third-wave seeds /tmp/seed3-C<nn>, fourth-wave /tmp/seed4-C<nn>, fifth /tmp/seed5-C<nn>): git apply patch.diff; cargo test --workspace --no-fail-fast --offline; demonstration copied in and run with the change; git apply -R; demonstration run without the change" % sid,
            "result": confirm.get(sid, "not recorded"),
        },
        "checks_run_against_it": {
            "how": "tools/seedcheck.py: scratch copy of /repo with patch.diff applied, ./check <id> --tier quick --seed 1 with VERIF_REPO pointing at the copy",
            "results": r,
        },
        "first_run_before_strengthening": json.load(open(os.path.join(d, "first_run.json"))) if os.path.exists(os.path.join(d, "first_run.json")) else None,
        "caught_by": sorted(k for k, v in r.items() if v.get("caught")),
        "agent_notes": a.get("ran"),
    }
    json.dump(meta, open(os.path.join(d, "meta.json"), "w"), indent=1)
    print(sid, meta["caught_by"], confirm.get(sid, "?")[:60])
