#!/usr/bin/env python3
"""Generates /verif/MANIFEST.json from the table below (single source of truth)."""
import json

ALL = ["C%02d" % i for i in range(1, 21)]

# id -> (engine, category, level text, level note, technique, design_ref)
CLAIMED = {
    "C01": ("codec", "exploration",
            "Generated Value trees (all kinds, boundary integers, NaN payloads, depth chains 1..40, three encodings) judged by an independent reference decoder plus round-trip, trailing/truncated-byte and depth-error oracles on a 1 MiB stack; exploration, no proof.",
            "Trusts harness/codec/src/refcodec.rs as the statement of the wire format (pinned to upstream's golden vectors by the selftest) and proptest's generation/shrinking.",
            "property-based testing: proptest over entropy tapes, reference-decoder differential + round-trip oracle", "5 C01"),
    "C07": ("codec", "exploration",
            "Random, valid (incl. non-canonical, mixed-epoch, invalid UTF-8) and mutated/truncated byte strings, bare and wrapped in vectors/structs/enums; full decode, split-off, len+skip, unknown field/variant capture and kind() compared with the reference decoder in strict and skip mode; panics caught, allocations bounded by a counting allocator.",
            "Trusts refcodec (strict/skip modes) and the allocation bound 64 KiB + 512*len; out-of-bounds reads only visible through the sanitizer fuzz target.",
            "property-based testing + differential oracle against a reference decoder; libFuzzer target value_diff in the thorough tier", "5 C07"),
    "C08": ("codec", "exploration",
            "Messages of all 63 kinds built from generated fields (every enum alternative, id/serial boundaries, generated payloads) and arbitrary/mutated frames; serializer output must be exactly the format's layout as stated by a table-driven reference frame codec, parsing must accept exactly the well-formed frames, fields must agree and re-serialisation must be closed; upstream's 127 golden vectors pin the reference on every run.",
            "Trusts harness/codec/src/refmsg.rs (layout table) as the statement of the frame format, pinned to the golden byte vectors in /repo/core/src/message/*.rs.",
            "property-based testing + differential oracle against a table-driven reference frame codec; round-trip", "5 C08"),
    "C13": ("codec", "exploration",
            "Well-formed values in either/mixed epoch (non-canonical forms, duplicates, invalid UTF-8, depth up to 32 with a new-epoch container at the bottom) and malformed bytes x version pairs in and around 1.14..1.20 x three entry points; output judged by the reference decoder: well-formed, same meaning, no kind >= 43, unchanged/borrowed for same-or-newer epoch, idempotent, entry points agree, never panics.",
            "Trusts refcodec for well-formedness and meaning; expects InvalidVersion for versions outside 1.14..1.20.",
            "property-based testing: metamorphic/differential oracle (reference decode of the converted bytes)", "5 C13"),
    "C14": ("codec", "exploration",
            "Frame sequences (5 B .. 200 KiB) fed to the Packetizer through both input interfaces in generated pieces with draining at generated points; TokioTransport and Buffered over a scripted AsyncRead+AsyncWrite whose every result is generated (short/zero/pending/EOF/error); invariants: frames out = frames in, none early/late, written bytes always a prefix, flush Ok only after everything was written and flushed, EOF and zero-length writes are errors.",
            "Trusts the scripted I/O object to honour the AsyncRead/AsyncWrite contracts; only poll-level schedules of one transport are explored.",
            "property-based testing: model-based (stream prefix invariants) with scripted fault/short-IO injection", "5 C14"),
}

NOT_YET = {}

def main():
    checks = []
    for cid, (engine, cat, text, note, tech, ref) in sorted(CLAIMED.items()):
        checks.append({
            "property_id": cid,
            "quick_cmd": "./check %s --tier quick" % cid,
            "thorough_cmd": "./check %s --tier thorough" % cid,
            "evidence_file": "/verif/evidence/%s.json" % cid,
            "replay_cmd_template": "./check %s --replay {path}" % cid,
            "engine": engine,
            "level_claimed": {"category": cat, "text": text, "design_ref": "DESIGN.md section " + ref},
            "level_note": note,
            "technique": tech,
        })
    na = []
    for cid in ALL:
        if cid not in CLAIMED:
            na.append({"property_id": cid, "reason": NOT_YET.get(cid, "check not built yet in this round (planned, see DESIGN.md section 10); not claimed until it runs and stays silent on the unchanged tree")})
    m = {
        "version": 1,
        "setup_cmd": "./check setup",
        "hooks": {
            "guard": "cargo feature `verif-hooks` of aldrin-broker (off by default)",
            "enable": "the harness crates depend on aldrin-broker with features = [\"statistics\", \"verif-hooks\"]",
            "baseline_off_cmd": "cd /repo && cargo test --workspace --no-fail-fast --offline",
            "source_commits": [],
            "add_only": True,
        },
        "engines": [
            {"name": "codec", "path": "harness/codec", "serves_properties": ["C01", "C07", "C08", "C13", "C14"], "kind_free_text": "proptest-driven tape generators + independent reference codec (refcodec) + differential/round-trip oracles; worker subprocesses with crash attribution"},
        ],
        "checks": checks,
        "not_applicable": na,
        "notes": "All checks: exit 0 = held on everything explored, 1 = VIOLATION line, 2 = infrastructure trouble/inconclusive. Known findings: /verif/known_findings.json.",
    }
    json.dump(m, open("/verif/MANIFEST.json", "w"), indent=1)
    print("wrote MANIFEST.json with", len(checks), "checks")

main()
