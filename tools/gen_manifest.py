#!/usr/bin/env python3
"""Generates /verif/MANIFEST.json from the table below (single source of truth)."""
import json

ALL = ["C%02d" % i for i in range(1, 21)]

# id -> (engine, category, level text, level note, technique, design_ref)
CLAIMED = {
    "C01": ("codec", "exploration",
            "Generated Value trees (all kinds, boundary integers, NaN payloads, depth chains 1..40, three encodings) judged by an independent reference decoder plus round-trip, trailing/truncated-byte and depth-error oracles on a 1 MiB stack; exploration, no proof.",
            "Trusts harness/codec/src/refcodec.rs as the statement of the wire format (pinned to upstream's golden vectors by the selftest) and proptest's generation/shrinking.",
            "property-based testing: proptest over entropy tapes, reference-decoder differential + round-trip oracle", "5 C01"),
    "C07": ("codec", "exploration",
            "Random, valid (incl. non-canonical, mixed-epoch, invalid UTF-8) and mutated/truncated byte strings, bare and wrapped in vectors/structs/enums; full decode, split-off, len+skip, unknown field/variant capture and kind() compared with the reference decoder in strict and skip mode; panics caught, allocations bounded by a counting allocator.",
            "Trusts refcodec (strict/skip modes) and the allocation bound 64 KiB + 512*len; out-of-bounds reads only visible through the sanitizer fuzz target.",
            "property-based testing + differential oracle against a reference decoder; libFuzzer target value_diff in the thorough tier", "5 C07"),
    "C08": ("codec", "exploration",
            "Messages of all 63 kinds built from generated fields (every enum alternative, id/serial boundaries, generated payloads) and arbitrary/mutated frames; serializer output must be exactly the format's layout as stated by a table-driven reference frame codec, parsing must accept exactly the well-formed frames, fields must agree and re-serialisation must be closed; upstream's 127 golden vectors pin the reference on every run.",
            "Trusts harness/codec/src/refmsg.rs (layout table) as the statement of the frame format, pinned to the golden byte vectors in /repo/core/src/message/*.rs.",
            "property-based testing + differential oracle against a table-driven reference frame codec; round-trip", "5 C08"),
    "C13": ("codec", "exploration",
            "Well-formed values in either/mixed epoch (non-canonical forms, duplicates, invalid UTF-8, depth up to 32 with a new-epoch container at the bottom) and malformed bytes x version pairs in and around 1.14..1.20 x three entry points; output judged by the reference decoder: well-formed, same meaning, no kind >= 43, unchanged/borrowed for same-or-newer epoch, idempotent, entry points agree, never panics.",
            "Trusts refcodec for well-formedness and meaning; expects InvalidVersion for versions outside 1.14..1.20.",
            "property-based testing: metamorphic/differential oracle (reference decode of the converted bytes)", "5 C13"),
    "C14": ("codec", "exploration",
            "Frame sequences (5 B .. 200 KiB) fed to the Packetizer through both input interfaces in generated pieces with draining at generated points; TokioTransport and Buffered over a scripted AsyncRead+AsyncWrite whose every result is generated (short/zero/pending/EOF/error); invariants: frames out = frames in, none early/late, written bytes always a prefix, flush Ok only after everything was written and flushed, EOF and zero-length writes are errors.",
            "Trusts the scripted I/O object to honour the AsyncRead/AsyncWrite contracts; only poll-level schedules of one transport are explored.",
            "property-based testing: model-based (stream prefix invariants) with scripted fault/short-IO injection", "5 C14"),
    "C02": ("bus", "exploration",
            "Generated call/reply/abort/destroy/disconnect histories by raw protocol peers of versions 1.14..1.20 run lock-step against the real broker (on a deterministic single-threaded simulator that owns the schedule and the broker's hash orders/cookies) and a reference model; after every step each connection must have received exactly the model's messages: exactly one correctly routed reply per call, none for non-owner/duplicate/post-abort replies; a callee-side serial whose call ended by service destruction (a late reply may still come) must not be handed to a new call of that connection.",
            "Trusts harness/bus/src/model.rs as the statement of the protocol; lock-step (one message in flight per step); broker-chosen serials are read from the observed forwards.",
            "model-based property testing: generated histories, lock-step comparison with a reference model", "5 C02"),
    "C03": ("bus", "exploration",
            "Generated registry histories over a 3x3 UUID pool (collisions, re-creation, foreign access, cascades, disconnects) lock-step against the reference model, plus a bus enumeration by an observer connection after every step that must list exactly the model's live objects and services.",
            "Trusts the reference model; cookies are read from observed replies and checked for freshness; lock-step.",
            "model-based property testing with per-step observer enumeration", "5 C03"),
    "C04": ("bus", "exploration",
            "Generated subscription/emit/destroy/disconnect histories lock-step against the reference model: fan-out set per emit, owner notifications exactly at 0<->1 transitions (also by disconnect), one ServiceDestroyed per subscribed connection.",
            "Trusts the reference model; ServiceDestroyed for all-events-only subscribers is left open; lock-step.",
            "model-based property testing", "5 C04"),
    "C05": ("bus", "exploration",
            "Generated channel histories (all capacities incl. 0, low-water neighbourhood, u32::MAX) lock-step against a credit model: exactly-once in-order forwarding within the grant, announcements bounded by the grant, end state machine, single notification of the peer, overflow closes only the receiver, no credit deadlock at quiescence. Client level (second half of the same check, binary vapi): channel-heavy programs of real clients using the low-level Sender/Receiver under generated schedules, transports and capacities; the k-th item returned by next_item must be the k-th item accepted by start_send_item, and no producer/consumer/claim/close may be pending at quiescence.",
            "Announcement amounts are the broker's policy (only bounded); lock-step.",
            "model-based property testing with credit invariants (raw peers vs. reference model) + stateful property testing of real Sender/Receiver programs under generated schedules with an in-order exactly-once oracle", "5 C05"),
    "C09": ("bus", "exploration",
            "Generated mixed histories in which a connection is ended at a generated step in five ways (Shutdown message, transport closed, shutdown_connection, run-future dropped, run-future dropped with a request still queued in the broker) plus a systematic enumeration of the fault step 0..24 x ways; after every step statistics gauges == model counts == verif-hooks snapshot sizes with no cross-reference inconsistency; at the end either everything is released and shutdown_idle completes, or shutdown() delivers one Shutdown per live connection and completes.",
            "Needs the read-only verif-hooks snapshot; the moment the broker notices a dropped task is read from the snapshot; a queued request of a dropped connection may or may not be processed.",
            "model-based property testing with fault injection at generated and enumerated points; invariant over snapshot + gauges", "5 C09"),
    "C10": ("bus", "exploration",
            "Generated bus-listener histories (six filter shapes, add/remove/clear, three scopes, several listeners per connection, entity churn) lock-step against a model that uses only the plain predicate 'matches any filter': tagged current events + marker last, new events once per connection.",
            "Trusts the reference model's predicate; lock-step.",
            "model-based property testing", "5 C10"),
    "C11": ("bus", "exploration",
            "Generated abuse histories: abusers send any of the 63 message kinds with live/stale/never-issued ids and well-formed or garbage payloads while probes hold state; no panic, quiescence, and all connections other than the sender must see exactly what the model says for one of {handled, ignored, sender closed}; probes are served at the end. A dedicated class re-finds the recorded known finding (ill-formed payload from a 1.20 peer closes a pre-1.20 receiver).",
            "The sender's own fate is not judged; main class keeps garbage payloads of 1.20 senders away from pre-1.20 receivers (known finding).",
            "model-based property testing / protocol fuzzing with a tolerant three-outcome oracle", "5 C11"),
    "C12": ("bus", "exploration",
            "Completely enumerated handshake matrix (legacy/new x majors x minors x user data x accept/reject) and gating matrix (negotiated version x gated kinds), plus generated cross-version traffic (calls in both forms, replies, aborts, events, items) with payloads in the sender's epoch: receiver gets the form its version understands, payload meaning preserved, no 1.20 encodings below 1.20.",
            "Version table restated from the changelog; ClientBuilder side covered by the client-level checks.",
            "exhaustive enumeration of small configuration matrices + property-based traffic generation", "5 C12"),
    "C06": ("api", "exploration",
            "Randomly composed multi-client programs over the public client API (objects, services, calls, events, channels, bus listeners, discoverers, proxies/replies/ends dropped at generated points; ~60 operations) run by real aldrin::Clients against a real Broker on the deterministic simulator under generated schedules and transport FIFO sizes 1..16 and unbounded, protocol versions 1.14..1.20; oracle: no task panics, no client/connection run future ends with an unexpected-message or transport error, every awaited request-class operation has completed at quiescence and stream-class waits whose peer has provably acted have completed, call replies carry the value computed for that very call, and after all clients shut down an idle-shutdown broker stops; a busy-loop detector turns a future that never yields into a verdict.",
            "Quiescence of the simulator stands for 'the peer has acted'; stream-class waits are only judged in three situations where the harness knows the peer's action happened; wall-clock time is never a signal.",
            "property-based testing: generated API programs x generated schedules on a deterministic executor, quiescence/liveness and consistency oracles", "5 C06"),
    "C15": ("api", "fault_enumeration",
            "Thirteen multi-operation client scenarios x {transport error, EOF, error leaving the connection half-open} injected at EVERY transport operation index k (exhaustive sweep, 3 schedules each), the same faults and the clean causes at generated points of GENERATED multi-client programs, plus generated combinations with the four clean termination causes (shutdown request, last handle dropped, broker shutdown, connection shut down) and randomised schedules; oracle: run() returns (Ok for clean causes, the transport error otherwise), every operation pending at the stop or started afterwards on every kind of handle resolves with a shutdown error / end-of-stream at quiescence, the broker-side connection ends and the broker releases the connection's state.",
            "Reads 'observes the connection as closed' as: Connection::run ends Ok for the client-side clean causes; the set of probe operations after the stop is a fixed list per handle kind; a half-open fault models a transport that (as the AsyncTransport contract allows) is unusable after its first error.",
            "property-based testing with exhaustive fault-point sweep (fault injection at every transport operation) and generated schedules", "5 C15"),
    "C19": ("api", "exploration",
            "Generated histories of object/service creation, destruction and same-UUID re-creation interleaved with discoverer start/restart (all four entry kinds, partial service sets, current-only and continuous), lifetimes, find_object/wait_for_object and event consumption under generated schedules; at quiescence each discoverer's view and emitted created/destroyed sequence are compared with a model of the bus state, lifetimes must have ended iff their scope ended, found/waited objects must have existed during the wait.",
            "The bus state is taken from the harness's own record of acknowledged create/destroy operations; convergence is judged only at simulator quiescence after all notifications were consumed.",
            "model-based property testing: generated histories x schedules, convergence oracle at quiescence", "5 C19"),
    "C16": ("schema", "exploration",
            "Batches of 16 generated schema groups (grammar-directed: all built-in types, nested generics, arrays, optional/required fields, fallbacks, newtypes, inline types, imports, raw identifiers; each with a newer version) plus the repository's own codegen test schemas are run through Parser + Generator::rust, compiled ONCE per batch into a scratch crate against the current tree (class compile: one verdict per module) and served by an oracle process; generated values built from the schema AST by a restated wire contract (either container encoding, unknown fields/variants, shuffled order) must decode and re-encode to the same meaning, systematic non-conforming mutations (required field dropped, wrong kind, unknown variant without fallback, array length +-1) must be rejected, and values of the newer schema must survive a pass through the older type with fallback.",
            "Trusts harness/schema/src/contract.rs (cross-checked against codegen/src/rust/test.rs and run on upstream's test schemas in every batch) and refcodec for meaning; array lengths <= 8; five identifiers rustc cannot write raw are excluded and counted; one rustc version.",
            "property-based testing over generated schemas and values: compile-and-run differential against a restated wire contract; metamorphic old/new schema pairs", "5 C16"),
    "C20": ("schema", "exploration",
            "(graph, in-process) generated layout graphs incl. recursion and mutual recursion built with the public IR builders: neutral edits (docs, declaration order, reference visiting order, hash seeds) keep every id, a single semantic edit changes exactly the ids of the edited type and its transitive referrers, every Introspection record round-trips with resolvable references. (typeid, compiled; batch shared with C16) ids reported by generated code (derive macro, service! macro) equal ids computed from an IR hand-built from the schema model; permuted-declaration and doc-edited variants give identical ids; one variant per semantic edit class changes the edited type's id, its referrers' ids (also two hops away) and no unrelated id.",
            "The IR builders are taken as the statement of the wire-relevant description; renames of functions/events are applied to items without inline types.",
            "property-based testing: metamorphic relations (neutral vs semantic edits) over generated layouts, differential generated-code vs hand-built IR", "5 C20"),
    "C17": ("schema", "exploration",
            "Token soups, statement soups, token/character/line mutations of all 83 repository schemas (incl. a systematic operator x file class), generated valid schemas with markdown-adversarial docs, and multi-schema parses with partial import sets; under catch_unwind: parse, render every diagnostic under several renderer settings, format when permitted, a second complete run must give the same diagnostics (sorted multiset), code generation with all option combinations when there are no errors, and a sampled check that the aldrin-gen CLI (built from the current tree) refuses schemas with errors. Thorough tier: plus the coverage-guided libFuzzer target schema_total over raw source text (corpus: the repository's schemas, token dictionary).",
            "Each case runs under a generated HashMap seed (getrandom shim), so hash-order dependent diagnostics are explored and replay exactly; diagnostics are compared as sorted multisets of rendered strings.",
            "property-based testing / grammar-based fuzzing with totality + repeatability oracle; coverage-guided fuzzing (libFuzzer) in the thorough tier", "5 C17"),
    "C18": ("schema", "exploration",
            "Grammar-directed generator of syntactically valid schemas with arbitrary layout (white space incl. exotic/CRLF, blank lines, comments, docs and attributes wherever the grammar permits, compact vs multi-line bodies, duplicate/unsorted imports, injected semantic errors) plus all repository schemas: format(src) parses without syntax error to the same span-free AST projection (definition order, names, ids, types, attributes, comments, docs; imports as a sorted set), reports the same diagnostics positions aside, and format(format(src)) == format(src) byte for byte. Thorough tier: plus the coverage-guided libFuzzer target format_text with the same oracle over raw source text.",
            "The layout printer is derived rule by rule from grammar.pest; a generated source the parser rejects is counted as a generator defect (0 observed), never reported.",
            "property-based testing: grammar-directed generation, metamorphic (format) + idempotence oracle; coverage-guided fuzzing (libFuzzer) in the thorough tier", "5 C18"),
}

NOT_YET = {}

def main():
    checks = []
    for cid, (engine, cat, text, note, tech, ref) in sorted(CLAIMED.items()):
        checks.append({
            "property_id": cid,
            "quick_cmd": "./check %s --tier quick" % cid,
            "thorough_cmd": "./check %s --tier thorough" % cid,
            "evidence_file": "/verif/evidence/%s.json" % cid,
            "replay_cmd_template": "./check %s --replay {path}" % cid,
            "engine": engine,
            "level_claimed": {"category": cat, "text": text, "design_ref": "DESIGN.md section " + ref},
            "level_note": note,
            "technique": tech,
        })
    na = []
    for cid in ALL:
        if cid not in CLAIMED:
            na.append({"property_id": cid, "reason": NOT_YET.get(cid, "check not built yet in this round (planned, see DESIGN.md section 10); not claimed until it runs and stays silent on the unchanged tree")})
    m = {
        "version": 1,
        "setup_cmd": "./check setup",
        "hooks": {
            "guard": "cargo feature `verif-hooks` of aldrin-broker (off by default)",
            "enable": "the harness crates depend on aldrin-broker with features = [\"statistics\", \"verif-hooks\"]",
            "baseline_off_cmd": "cd /repo && cargo test --workspace --no-fail-fast --offline",
            "source_commits": ["7a880ef", "1917976"],
            "add_only": True,
        },
        "engines": [
            {"name": "codec", "path": "harness/codec", "serves_properties": ["C01", "C07", "C08", "C13", "C14"], "kind_free_text": "proptest-driven tape generators + independent reference codec (refcodec) + differential/round-trip oracles; worker subprocesses with crash attribution"},
            {"name": "schema", "path": "harness/schema", "serves_properties": ["C16", "C17", "C18", "C20"], "kind_free_text": "tape-driven schema model + layout printer (grammar-directed), parser/formatter/renderer/codegen front end under catch_unwind with deterministic hash seeds; gencrate: compile-and-run pipeline for generated Rust with an oracle server process; intro: in-process introspection graphs"},
            {"name": "api", "path": "harness/api", "serves_properties": ["C05", "C06", "C15", "C19"], "kind_free_text": "apiprog: tape-decoded programs over the public aldrin client API, interpreted by real clients and a real broker on simbus with scripted/faulty transports; quiescence oracles"},
            {"name": "bus", "path": "harness/bus", "serves_properties": ["C02", "C03", "C04", "C05", "C09", "C10", "C11", "C12"], "kind_free_text": "simbus (deterministic single-threaded executor + getrandom shim) running the real broker with raw protocol peers, lock-step against busmodel (reference model of the protocol)"},
        ],
        "checks": checks,
        "not_applicable": na,
        "notes": "All checks: exit 0 = held on everything explored, 1 = VIOLATION line, 2 = infrastructure trouble/inconclusive. Known findings: /verif/known_findings.json.",
    }
    json.dump(m, open("/verif/MANIFEST.json", "w"), indent=1)
    print("wrote MANIFEST.json with", len(checks), "checks")

main()
