#!/bin/sh
# Silence sweep: every claimed check, quick tier, seeds $1..$2, from fresh processes.
# Writes into the directory it is started from (VERIF_ROOT), never into /verif.
from=${1:-1}; to=${2:-10}; tier=${3:-quick}
export VERIF_ROOT=$(pwd)
export CARGO_NET_OFFLINE=true
ids=$(python3 -c "import json;print(' '.join(c['property_id'] for c in json.load(open('MANIFEST.json'))['checks']))")
( cd /verif/harness && cargo build --offline --profile verif -p codec -p bus -p schema -p api >/dev/null 2>&1 )
# private copies of the binaries: later rebuilds in /verif must not change what this sweep runs
mkdir -p bin && cp /verif/target/verif/vcodec /verif/target/verif/vbus bin/ 2>/dev/null
cp /verif/target/verif/vapi /verif/target/verif/vschema bin/ 2>/dev/null
for id in $ids; do
  case $id in C01|C07|C08|C13|C14) bin=vcodec;; C02|C03|C04|C05|C09|C10|C11|C12) bin=vbus;; C06|C15|C19) bin=vapi;; *) bin=vschema;; esac
  for s in $(seq $from $to); do
    out=$(./bin/$bin $id --tier $tier --seed $s 2>&1); rc=$?
    out=$(echo "$out" | grep -v "^proptest: Aborting")
    line=$(echo "$out" | grep "tier=" | head -1)
    echo "$id seed=$s rc=$rc $line"
    echo "$out" | grep -E "VIOLATION|violation|unhealthy|harness:" | head -5
  done
done
