#!/usr/bin/env python3
"""Sensitivity runs: apply one hand-written mutant at a time to a scratch copy of /repo, run the
quick check of the property it should break, record whether it was caught.

  tools/sens.py [--only C07,C08] [--name substr] [--keep]

Mutants live in tools/mutants.json: list of
  {"property": "C01", "name": "...", "file": "core/src/...", "old": "...", "new": "...", "count": 1}
Results are appended to SENSITIVITY.md-ready lines on stdout and to work/sens-results.jsonl.
"""
import json, os, subprocess, sys, time

ROOT = "/verif"
PKG = {
    "C01": ("codec", "vcodec"), "C07": ("codec", "vcodec"), "C08": ("codec", "vcodec"),
    "C13": ("codec", "vcodec"), "C14": ("codec", "vcodec"),
    "C02": ("bus", "vbus"), "C03": ("bus", "vbus"), "C04": ("bus", "vbus"), "C05": ("bus", "vbus"),
    "C09": ("bus", "vbus"), "C10": ("bus", "vbus"), "C11": ("bus", "vbus"), "C12": ("bus", "vbus"),
    "C06": ("api", "vapi"), "C15": ("api", "vapi"), "C19": ("api", "vapi"),
    "C16": ("schema", "vschema"), "C17": ("schema", "vschema"), "C18": ("schema", "vschema"), "C20": ("schema", "vschema"),
}

def sh(cmd, **kw):
    return subprocess.run(cmd, shell=True, stdout=subprocess.PIPE, stderr=subprocess.STDOUT, text=True, **kw)

def main():
    only = None
    name = None
    keep = False
    args = sys.argv[1:]
    while args:
        a = args.pop(0)
        if a == "--only":
            only = set(args.pop(0).split(","))
        elif a == "--name":
            name = args.pop(0)
        elif a == "--keep":
            keep = True
    mutants = json.load(open(f"{ROOT}/tools/mutants.json"))
    if only:
        mutants = [m for m in mutants if m["property"] in only]
    if name:
        mutants = [m for m in mutants if name in m["name"]]
    if not mutants:
        print("no mutants selected")
        return
    sname = "sens%d" % os.getpid()
    S = f"/tmp/vs-{sname}"
    print(sh(f"{ROOT}/tools/scratch.sh new {sname}").stdout.strip())
    results = []
    try:
        for m in mutants:
            path = f"{S}/repo/{m['file']}"
            src = open(path).read()
            cnt = src.count(m["old"])
            if cnt < 1:
                print(f"!! {m['property']} {m['name']}: pattern not found in {m['file']}")
                results.append({**m, "result": "pattern-not-found"})
                continue
            new_src = src.replace(m["old"], m["new"], m.get("count", 1))
            open(path, "w").write(new_src)
            pkg, binname = PKG[m["property"]]
            t0 = time.time()
            r = sh(f"{ROOT}/tools/scratch.sh run {sname} {pkg} {binname} {m['property']} --tier quick --seed {m.get('seed', 1)}")
            dt = time.time() - t0
            out = r.stdout
            sigs = [l.split("signature=")[1].strip() for l in out.splitlines() if l.startswith("violation signature=")]
            caught = r.returncode == 1 and "VIOLATION property=" in out
            status = "caught" if caught else ("exit%d" % r.returncode)
            if "error" in out and "could not compile" in out:
                status = "does-not-compile"
            print(f"{m['property']} | {m['name']} | {status} | {'; '.join(sigs[:3])} | {dt:.0f}s")
            if not caught:
                print("   last output:", "\n   ".join(out.splitlines()[-6:]))
            results.append({"property": m["property"], "name": m["name"], "file": m["file"], "result": status, "signatures": sigs[:5], "wall_s": round(dt)})
            open(path, "w").write(src)
            sh(f"rm -rf {S}/out/replays {S}/out/work")
    finally:
        if not keep:
            sh(f"{ROOT}/tools/scratch.sh rm {sname}")
    os.makedirs(f"{ROOT}/work", exist_ok=True)
    with open(f"{ROOT}/work/sens-results.jsonl", "a") as f:
        for r in results:
            f.write(json.dumps(r) + "\n")

main()
