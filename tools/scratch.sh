#!/bin/sh
# Creates a scratch copy of /repo and of the harness for sensitivity experiments, so that
# mutants never touch /repo itself:
#   tools/scratch.sh new <name>          -> /tmp/vs-<name>/{repo,harness,out}
#   tools/scratch.sh run <name> <pkg> <bin> <args...>   build pkg against the scratch repo and run
#   tools/scratch.sh rm <name>
set -eu
cmd=$1; name=$2; shift 2
S=/tmp/vs-$name
case "$cmd" in
  new)
    rm -rf "$S"; mkdir -p "$S/out"
    git -C /repo worktree add --detach "$S/repo" HEAD >/dev/null 2>&1 || { mkdir -p "$S/repo"; (cd /repo && git archive HEAD) | tar -x -C "$S/repo"; }
    # uncommitted state of /repo is not copied on purpose
    mkdir -p "$S/harness"
    (cd /verif/harness && tar -c --exclude=fuzz/target --exclude=fuzz/corpus --exclude=fuzz/artifacts .) | tar -x -C "$S/harness"
    find "$S/harness" -name Cargo.toml -o -name config.toml | xargs sed -i "s#/repo/#$S/repo/#g; s#/verif/target#$S/target#g"
    cp /verif/known_findings.json "$S/out/" 2>/dev/null || true
    echo "$S"
    ;;
  sync)
    # refresh harness sources from /verif/harness (keeps the scratch repo as is)
    (cd /verif/harness && tar -c --exclude=fuzz/target --exclude=fuzz/corpus --exclude=fuzz/artifacts .) | tar -x -C "$S/harness"
    find "$S/harness" -name Cargo.toml -o -name config.toml | xargs sed -i "s#/repo/#$S/repo/#g; s#/verif/target#$S/target#g"
    ;;
  run)
    pkg=$1; bin=$2; shift 2
    (cd "$S/harness" && CARGO_NET_OFFLINE=true cargo build --offline --profile verif -p "$pkg" 2>&1 | tail -n 15 | grep -E "^(error|warning: unused)|Finished" || true)
    VERIF_ROOT="$S/out" VERIF_REPO="$S/repo" "$S/target/verif/$bin" "$@"
    ;;
  rm)
    git -C /repo worktree remove --force "$S/repo" >/dev/null 2>&1 || true
    rm -rf "$S"
    git -C /repo worktree prune
    ;;
esac
