#!/bin/sh
# Confirms a seeded change in its scratch worktree: full suite passes with the change, the
# demonstration fails with it and passes without it. Usage:
#   tools/confirm_seed.sh <id> <worktree> <demo-file> <dest-dir-in-tree> <cargo test args...>
id=$1; wt=$2; demo=$3; dest=$4; shift 4
cd "$wt" || exit 2
git checkout -q -- . 2>/dev/null
git apply /verif/seeded/$id/patch.diff || { echo "$id: patch does not apply"; exit 2; }
suite=$(cargo test --workspace --no-fail-fast --offline 2>&1 | grep -E "^test result" | awk '{p+=$4; f+=$6} END {print p" passed, "f" failed"}')
mkdir -p "$dest"; cp /verif/seeded/$id/demo/$demo "$dest/"
cargo test --offline "$@" >/tmp/confirm-$id-with.log 2>&1; with=$?
git apply -R /verif/seeded/$id/patch.diff
cargo test --offline "$@" >/tmp/confirm-$id-without.log 2>&1; without=$?
rm -f "$dest/$demo"; rmdir "$dest" 2>/dev/null
git apply /verif/seeded/$id/patch.diff
echo "$id: suite with change: $suite; demo with change exit=$with; demo without change exit=$without"
