import json,sys
props={json.loads(l)['id']:l.strip() for l in open('/verif/properties.jsonl')}
earlier={
"C01":["dynamic Value::Struct serializer omits fields whose value is None","map serializers fail fast when the map itself sits at depth 32"],
"C02":["reply forwarded when the caller still tracks the serial instead of consulting the aborted flag","queue of synthesized InvalidService replies keyed by caller serial"],
"C03":["object registered before the fallible reply, recorded for the owner after it","subscribe_event fast path answers Ok before the service lookup"],
"C04":["disconnect leaves an emptied subscriber set in the service's event map","subscribed_conn_ids() chains per-event sets without de-duplication"],
"C05":["overflow check hoisted above the ownership check in add_capacity","SendItemError::ReceiverClosed handled like exhausted capacity"],
"C06":["broker-side connection stops reading from the client while a flush to it is pending","broker's SerialMap restarts numbering when empty"],
"C07":["Deserializer::len() starts its skip walker one level too deep","deserialize_string allocates the claimed length before checking the remaining input"],
"C08":["value-length 0 no longer rejected in value-carrying frames","message-side varint decoder clamps to the bytes remaining"],
"C09":["IntrospectionEntry::remove_conn returns early for connections that never registered the type","num_connections decremented before the 'connection still known' guard"],
"C10":["per-connection de-duplication set updated before the filter/scope check in emit_bus_event","refused StartBusListener (already started) overwrites the active scope"],
"C11":["Channel::check_close treats a Closed end like an Unclaimed one","overflow check before the ownership check in add_capacity"],
"C12":["down-converter counts every 1.20 container level twice","1.16 gate for AbortFunctionCall moved to the message handler; disconnect path no longer checks it"],
"C13":["single-segment fast path in convert_bytes2_to_bytes1","convert_vec2_to_vec1 patches a one-byte length in place whenever the count fits u8"],
"C14":["Buffered::send_poll_flush returns Ready when its own queue is empty without flushing the inner transport","next_message fast path for frames >=64 KiB forgets to reset the cached length"],
"C15":["Connection::client_error no longer clears flush_transport","drain_transport split into two phases; a broker Shutdown received during the first is forgotten"],
"C16":["unknown field whose value is None is skipped instead of kept by a fallback struct"],
"C17":["LinkResolver::resolve uses an expect-ing lookup instead of the fallible one","span of an invalid escape code computed as two bytes"],
"C18":["inline struct/enum bodies collapse to {} when they hold only a fallback","fn_def prints ok only when it has a comment"],
"C19":["AnyObject::service_destroyed returns before removing the per-service record when the object is incomplete","specific-object entries no longer check the object UUID of service events"],
"C20":["referenced types de-duplicated by lexical id instead of by layout (rejected: only shows on graphs with two different descriptions under one schema+type name, which upstream refuses)"],
}
T=open('/verif/tools/seed_prompt_template.txt').read()
pid=sys.argv[1]; wt=sys.argv[2]
e="\n".join("  - "+x for x in earlier[pid])
print(T.replace("{PROP}",props[pid]).replace("{WT}",wt).replace("{PID}",pid).replace("{EARLIER}",e))
