import json,sys
props={json.loads(l)['id']:l.strip() for l in open('/verif/properties.jsonl')}
earlier={
"C01":["serialize_unit_enum fast path loses the payload's depth increment (unit enum on level 32)","dynamic Value::Struct serializer omits fields whose value is None","map serializers fail fast when the map itself sits at depth 32"],
"C02":["abort_call returns early (before marking the call aborted) when the callee is older than 1.16","reply forwarded when the caller still tracks the serial instead of consulting the aborted flag","queue of synthesized InvalidService replies keyed by caller serial"],
"C03":["remove_* helpers converted to Option/? so that a self-subscribed owner's disconnect aborts the service cascade","object registered before the fallible reply, recorded for the owner after it","subscribe_event fast path answers Ok before the service lookup"],
"C04":["subscribe_event fast path treats an all-events subscription as 'already subscribed' and does not record the per-event subscription","disconnect leaves an emptied subscriber set in the service's event map","subscribed_conn_ids() chains per-event sets without de-duplication"],
"C05":["low-water replenishment in Channel::send_item over-announces capacity to the sender by one","overflow check hoisted above the ownership check in add_capacity","SendItemError::ReceiverClosed handled like exhausted capacity"],
"C06":["client unregisters a pending channel end on ChannelEndClaimed when the application has dropped it, while its own CloseChannelEnd is in flight","broker-side connection stops reading from the client while a flush to it is pending","broker's SerialMap restarts numbering when empty"],
"C07":["bulk skip for fixed-size-key Set1 multiplies count and key size in u32","Deserializer::len() starts its skip walker one level too deep","deserialize_string allocates the claimed length before checking the remaining input"],
"C08":["hand-rolled varint encoder in the message serializer with a wrong 3/4-byte threshold","value-length 0 no longer rejected in value-carrying frames","message-side varint decoder clamps to the bytes remaining"],
"C09":["claim_channel_end records the end for the connection only after the fallible reply","IntrospectionEntry::remove_conn returns early for connections that never registered the type","num_connections decremented before the 'connection still known' guard"],
"C10":["cached bus-listener flag replaced by a counter that add_filter and remove_filter classify differently","per-connection de-duplication set updated before the filter/scope check in emit_bus_event","refused StartBusListener (already started) overwrites the active scope"],
"C11":["callee serial registered with the service before the duplicate-caller-serial check, error path does not undo it","Channel::check_close treats a Closed end like an Unclaimed one","overflow check before the ownership check in add_capacity"],
"C12":["single-segment fast path in convert_bytes2_to_bytes1 consumes the next segment header","down-converter counts every 1.20 container level twice","1.16 gate for AbortFunctionCall moved to the message handler; disconnect path no longer checks it"],
"C13":["converter's depth check hoisted out of element loops rejects empty containers at depth 32","single-segment fast path in convert_bytes2_to_bytes1","convert_vec2_to_vec1 patches a one-byte length in place whenever the count fits u8"],
"C14":["TokioTransport::send_poll_ready own write loop without the Ok(0) => WriteZero arm","Buffered::send_poll_flush returns Ready when its own queue is empty without flushing the inner transport","next_message fast path for frames >=64 KiB forgets to reset the cached length"],
"C15":["Promise::poll_aborted treats a cancelled abort channel as pending, so aborted() hangs when the client stops","Connection::client_error no longer clears flush_transport","drain_transport split into two phases; a broker Shutdown received during the first is forgotten"],
"C16":["newtype_properties resolves every hop of a newtype chain in the schema being generated instead of the hop's own schema","unknown field whose value is None is skipped instead of kept by a fallback struct"],
"C17":["value_inner strips a leading tab like a space while span_inner does not (span shifted on tab-led doc lines)","LinkResolver::resolve uses an expect-ing lookup instead of the fallible one","span of an invalid escape code computed as two bytes"],
"C18":["formatter collects imports into a BTreeMap by name, dropping duplicate import statements","inline struct/enum bodies collapse to {} when they hold only a fallback","fn_def prints ok only when it has a comment"],
"C19":["Discoverer::stop no longer clears the queue of already produced events across a restart","AnyObject::service_destroyed returns before removing the per-service record when the object is incomplete","specific-object entries no longer check the object UUID of service events"],
"C20":["IntrospectionIr::from_dyn computes the reference table in one memoizing walk and gives some references on foreign cycles the root's reference set","referenced types de-duplicated by lexical id instead of by layout (rejected: only shows on graphs with two different descriptions under one schema+type name, which upstream refuses)"],
}
T=open('/verif/tools/seed_prompt_template.txt').read()
pid=sys.argv[1]; wt=sys.argv[2]
e="\n".join("  - "+x for x in earlier[pid])
print(T.replace("{PROP}",props[pid]).replace("{WT}",wt).replace("{PID}",pid).replace("{EARLIER}",e))
