#!/usr/bin/env python3
"""Coverage-guided part of the thorough tier: builds one cargo-fuzz target (libFuzzer + ASan,
debug assertions on), runs a fixed number of executions from a fresh corpus directory seeded with
tapes that the generators produce, and turns a crash into a replay file that is re-checked through
the in-process replay path before it is reported.

  tools/fuzz_tier.py <Cxx> <seed>      exit 0 / 1 (VIOLATION printed) / 2 (inconclusive)
"""
import json, os, re, shutil, subprocess, sys, hashlib

ROOT = os.environ.get("VERIF_ROOT", "/verif")
FUZZ = "/verif/harness/fuzz"
TARGETS = {
    # id: (target, class, runs, max_len, binary)
    "C07": ("value_diff", "bytes", 2_000_000, 256, "vcodec"),
    "C13": ("convert_diff", "malformed", 400_000, 400, "vcodec"),
    "C08": ("message_diff", "bytes-raw", 2_000_000, 300, "vcodec"),
    "C14": ("packetizer_chunks", "packetizer", 300_000, 500, "vcodec"),
    "C11": ("broker_abuse", "abuse", 200_000, 1400, "vbus"),
    # text targets: the input is schema source text, the corpus the repository's own schema files
    "C17": ("schema_total", "text", 150_000, 6000, "vschema"),
    "C18": ("format_text", "text", 150_000, 6000, "vschema"),
}
TEXT_TARGETS = {"C17", "C18"}
SCHEMA_DICT = ["import ", "struct ", "enum ", "service ", "const ", "newtype ", "fn ", "event ", "required ", "uuid = ", "version = ", "args = ", "ok = ", "err = ", "@", "//", "///", "//!", "#[rust(", "impl_copy", "option<", "vec<", "map<", "set<", "result<", "box<", "sender<", "receiver<", "-> ", "[u8; 4]", "= ;", "{}", "{\n}", "fallback", "::", "lifetime", "object_id", "service_id", "bytes", "value", "unit", "string", "\r\n", "\t", "[`", "`]", "](", "\"\\x41\"", "\u00e4", "\u200b"]

def dict_escape(w):
    out = ""
    for b in w.encode("utf-8"):
        if 32 <= b < 127 and b not in (34, 92):
            out += chr(b)
        else:
            out += "\\x%02x" % b
    return out

def main():
    cid, seed = sys.argv[1], int(sys.argv[2])
    if cid not in TARGETS:
        return 0
    target, cls, runs, max_len, binary = TARGETS[cid]
    runs = int(os.environ.get("VERIF_FUZZ_RUNS", runs))
    env = dict(os.environ, CARGO_NET_OFFLINE="true")
    b = subprocess.run(["cargo", "+nightly", "fuzz", "build", target], cwd=FUZZ, env=env, stdout=subprocess.PIPE, stderr=subprocess.STDOUT, text=True)
    if b.returncode != 0:
        print("harness: fuzz build failed:\n" + b.stdout[-2000:], file=sys.stderr)
        return 2
    exe = "/verif/target/x86_64-unknown-linux-gnu/release/" + target
    work = f"{ROOT}/work/fuzz/{target}-{seed}"
    shutil.rmtree(work, ignore_errors=True)
    os.makedirs(work + "/corpus")
    os.makedirs(work + "/artifacts")
    # seed corpus: a few deterministic tapes
    import random
    rng = random.Random(seed)
    extra_args = []
    if cid in TEXT_TARGETS:
        repo = os.environ.get("VERIF_REPO", "/repo")
        n = 0
        for d, _, files in os.walk(repo):
            if "/target" in d or "/.git" in d:
                continue
            for f in sorted(files):
                if f.endswith(".aldrin"):
                    data = open(os.path.join(d, f), "rb").read()
                    if len(data) <= max_len:
                        open(f"{work}/corpus/repo{n}", "wb").write(data)
                        n += 1
        with open(f"{work}/dict", "w") as f:
            for i, w in enumerate(SCHEMA_DICT):
                f.write('kw%d="%s"\n' % (i, dict_escape(w)))
        extra_args = [f"-dict={work}/dict", "-only_ascii=0"]
    else:
        for i in range(64):
            n = rng.choice([0, 1, 4, 16, 64, max_len // 2])
            open(f"{work}/corpus/seed{i}", "wb").write(bytes(rng.randrange(256) for _ in range(n)))
    jobs = int(os.environ.get("VERIF_FUZZ_JOBS", "8"))
    per = max(1, runs // jobs)
    # the run count is the budget; the time cap only keeps an overloaded machine from spending hours
    # (a capped campaign explored less, which the evidence shows; it is never a verdict)
    cap = int(os.environ.get("VERIF_FUZZ_MAX_S", "1500"))
    cmd = [exe, f"-runs={per}", f"-max_total_time={cap}", f"-seed={seed}", f"-max_len={max_len}", "-len_control=0", f"-artifact_prefix={work}/artifacts/", f"-jobs={jobs}", f"-workers={jobs}"] + extra_args + [work + "/corpus"]
    r = subprocess.run(cmd, cwd=work, env=dict(env, VERIF_ROOT=ROOT), stdout=subprocess.PIPE, stderr=subprocess.STDOUT, text=True)
    out = ""
    for i in range(jobs):
        try:
            out += open(f"{work}/fuzz-{i}.log").read()
        except Exception:
            pass
    cov = re.findall(r"cov: (\d+)", out)
    done = [int(x) for x in re.findall(r"Done (\d+) runs", out)]
    stats = {"target": target, "class": cls, "runs_requested": runs, "last_exec_counter": sum(done), "cov": int(cov[-1]) if cov else 0, "exit": r.returncode}
    evp = f"{ROOT}/evidence/{cid}.json"
    try:
        ev = json.load(open(evp))
        ev["coverage"]["fuzz"] = stats
        json.dump(ev, open(evp, "w"), indent=2)
    except Exception:
        pass
    arts = sorted(os.listdir(work + "/artifacts"))
    crashes = [a for a in arts if a.startswith("crash-") or a.startswith("oom-") or a.startswith("timeout-")]
    if not crashes:
        print(f"{cid} fuzz target={target} runs~{stats['last_exec_counter']} cov={stats['cov']} no crash")
        return 0
    for a in crashes:
        data = open(f"{work}/artifacts/{a}", "rb").read()
        os.makedirs(f"{ROOT}/replays/{cid}", exist_ok=True)
        name = hashlib.sha1(data).hexdigest()[:16]
        path = f"{ROOT}/replays/{cid}/fuzz-{name}.case"
        with open(path, "w") as f:
            f.write(f"# property={cid} class={cls}\n# found by libFuzzer target {target} ({a})\nproperty={cid}\nclass={cls}\ntape={data.hex()}\n")
        rp = subprocess.run([f"/verif/target/verif/{binary}", cid, "--replay", path], env=dict(env, VERIF_ROOT=ROOT), stdout=subprocess.PIPE, stderr=subprocess.STDOUT, text=True)
        if rp.returncode == 1:
            sig = [l for l in rp.stdout.splitlines() if l.startswith("FAIL signature=")]
            print("violation " + (sig[0] if sig else "") + f" (libFuzzer {target})")
            print(f"VIOLATION property={cid} replay={path}")
            return 1
        if a.startswith("oom-") or a.startswith("timeout-"):
            print(f"harness: libFuzzer reported {a}; replay does not fail: inconclusive", file=sys.stderr)
            return 2
        print(f"harness: crash {a} does not reproduce through the replay path (exit {rp.returncode}); inconclusive\n{rp.stdout[-600:]}", file=sys.stderr)
        return 2
    return 0

sys.exit(main())
