#![no_main]
use libfuzzer_sys::fuzz_target;
mod common;

fuzz_target!(|data: &[u8]| {
    common::run(&codec::c14::DEF, "packetizer", data);
});
