#![no_main]
use libfuzzer_sys::fuzz_target;
mod common;

// C18: the fuzzer's bytes are the source text of the schema to format (class "text")
fuzz_target!(|data: &[u8]| {
    common::run(&schema::c18::DEF, "text", data);
});
