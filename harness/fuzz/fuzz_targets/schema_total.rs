#![no_main]
use libfuzzer_sys::fuzz_target;
mod common;

// C17: the fuzzer's bytes are the source text of the main schema (class "text")
fuzz_target!(|data: &[u8]| {
    common::run(&schema::c17::DEF, "text", data);
});
