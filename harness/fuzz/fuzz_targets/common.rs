// Shared by all targets: run one check case on the fuzzer's bytes (the entropy tape) and abort
// on a failure that is not a listed known finding. The semantic oracle lives in the check.
use std::sync::OnceLock;

static KNOWN: OnceLock<Vec<vcommon::KnownFinding>> = OnceLock::new();

pub fn run(def: &'static vcommon::CheckDef, class: &str, data: &[u8]) {
    let known = KNOWN.get_or_init(|| {
        vcommon::install_panic_hook();
        vcommon::load_known_findings()
    });
    match (def.case)(class, data, false) {
        vcommon::Outcome::Pass(_) => {}
        vcommon::Outcome::Fail(f) => {
            let is_known = known.iter().any(|k| {
                k.property == def.id
                    && k.status == "open"
                    && (k.signature == f.signature
                        || k.signature.strip_suffix('*').map(|p| f.signature.starts_with(p)).unwrap_or(false))
            });
            if !is_known {
                eprintln!("FUZZ-VIOLATION property={} class={} signature={}\n{}", def.id, class, f.signature, f.detail);
                std::process::abort();
            }
        }
    }
}
