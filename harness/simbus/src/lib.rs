//! Deterministic single-threaded simulator for broker, connections and clients.
//!
//! The harness owns the scheduler: every future (broker run loop, one task per connection, client
//! run loops, application tasks) is a task with a wake flag; one step = choose one ready task
//! according to the case's schedule and poll it once inside catch_unwind. There are no timers and
//! no threads, so "no task is ready" is exact: whatever is still pending can never complete
//! without new external input.

pub mod peer;

use std::cell::RefCell;
use std::future::Future;
use std::pin::Pin;
use std::rc::Rc;
use std::sync::atomic::{AtomicBool, Ordering};
use std::sync::Arc;
use std::task::{Context, Poll, Wake, Waker};
use vcommon::{catch, Panicked, SplitMix};

pub type TaskId = usize;

struct Flag(AtomicBool);

impl Wake for Flag {
    fn wake(self: Arc<Self>) {
        self.0.store(true, Ordering::SeqCst);
    }

    fn wake_by_ref(self: &Arc<Self>) {
        self.0.store(true, Ordering::SeqCst);
    }
}

struct Task {
    name: String,
    fut: Option<Pin<Box<dyn Future<Output = ()>>>>,
    flag: Arc<Flag>,
    polls: u64,
}

#[derive(Clone, Copy, Debug, PartialEq, Eq)]
pub enum Policy {
    Random,
    RoundRobin,
    Starve,
    LowestFirst,
    HighestFirst,
}

impl Policy {
    pub fn from_u8(b: u8) -> Self {
        match b % 8 {
            0 | 1 | 2 => Policy::Random,
            3 => Policy::RoundRobin,
            4 | 5 => Policy::Starve,
            6 => Policy::LowestFirst,
            _ => Policy::HighestFirst,
        }
    }
}

#[derive(Debug, Clone)]
pub struct RunResult {
    pub steps: u64,
    /// true if the step bound was hit while tasks were still ready (livelock suspicion)
    pub exhausted: bool,
}

pub struct Sim {
    tasks: Vec<Task>,
    rng: SplitMix,
    policy: Policy,
    last: usize,
    victim: usize,
    victim_left: u32,
    pub total_steps: u64,
    panics: Vec<(String, Panicked)>,
}

impl Sim {
    pub fn new(schedule_seed: u64, policy: Policy) -> Self {
        Sim {
            tasks: vec![],
            rng: SplitMix(schedule_seed),
            policy,
            last: 0,
            victim: 0,
            victim_left: 0,
            total_steps: 0,
            panics: vec![],
        }
    }

    pub fn spawn(&mut self, name: &str, fut: impl Future<Output = ()> + 'static) -> TaskId {
        self.tasks.push(Task {
            name: name.to_string(),
            fut: Some(Box::pin(fut)),
            flag: Arc::new(Flag(AtomicBool::new(true))),
            polls: 0,
        });
        self.tasks.len() - 1
    }

    /// Spawns a task whose output is stored in the returned slot.
    pub fn spawn_out<T: 'static>(
        &mut self,
        name: &str,
        fut: impl Future<Output = T> + 'static,
    ) -> (TaskId, Rc<RefCell<Option<T>>>) {
        let slot = Rc::new(RefCell::new(None));
        let s2 = slot.clone();
        let id = self.spawn(name, async move {
            let v = fut.await;
            *s2.borrow_mut() = Some(v);
        });
        (id, slot)
    }

    pub fn is_done(&self, id: TaskId) -> bool {
        self.tasks[id].fut.is_none()
    }

    pub fn name(&self, id: TaskId) -> &str {
        &self.tasks[id].name
    }

    pub fn polls(&self, id: TaskId) -> u64 {
        self.tasks[id].polls
    }

    /// Drops the task's future without polling it again.
    pub fn kill(&mut self, id: TaskId) {
        self.tasks[id].fut = None;
    }

    /// Marks a task as ready (as if its waker had been called).
    pub fn wake(&mut self, id: TaskId) {
        self.tasks[id].flag.0.store(true, Ordering::SeqCst);
    }

    pub fn pending(&self) -> Vec<(TaskId, String)> {
        self.tasks
            .iter()
            .enumerate()
            .filter(|(_, t)| t.fut.is_some())
            .map(|(i, t)| (i, t.name.clone()))
            .collect()
    }

    pub fn panics(&self) -> &[(String, Panicked)] {
        &self.panics
    }

    pub fn take_panics(&mut self) -> Vec<(String, Panicked)> {
        std::mem::take(&mut self.panics)
    }

    fn ready(&self) -> Vec<TaskId> {
        self.tasks
            .iter()
            .enumerate()
            .filter(|(_, t)| t.fut.is_some() && t.flag.0.load(Ordering::SeqCst))
            .map(|(i, _)| i)
            .collect()
    }

    fn choose(&mut self, ready: &[TaskId]) -> TaskId {
        match self.policy {
            Policy::Random => ready[self.rng.below(ready.len())],
            Policy::RoundRobin => {
                let next = ready.iter().copied().find(|i| *i > self.last).unwrap_or(ready[0]);
                next
            }
            Policy::LowestFirst => ready[0],
            Policy::HighestFirst => *ready.last().unwrap(),
            Policy::Starve => {
                if self.victim_left == 0 {
                    self.victim = self.rng.below(self.tasks.len().max(1));
                    self.victim_left = 5 + self.rng.below(60) as u32;
                }
                self.victim_left -= 1;
                let others: Vec<TaskId> = ready.iter().copied().filter(|i| *i != self.victim).collect();
                if others.is_empty() {
                    ready[0]
                } else {
                    others[self.rng.below(others.len())]
                }
            }
        }
    }

    /// Polls one specific task once (if it exists and is not finished).
    pub fn poll_task(&mut self, id: TaskId) {
        let Some(mut fut) = self.tasks[id].fut.take() else {
            return;
        };
        self.tasks[id].flag.0.store(false, Ordering::SeqCst);
        self.tasks[id].polls += 1;
        self.total_steps += 1;
        let waker = Waker::from(self.tasks[id].flag.clone());
        let mut cx = Context::from_waker(&waker);
        match catch(|| fut.as_mut().poll(&mut cx)) {
            Ok(Poll::Ready(())) => {}
            Ok(Poll::Pending) => self.tasks[id].fut = Some(fut),
            Err(p) => {
                let name = self.tasks[id].name.clone();
                self.panics.push((name, p));
                // the future is poisoned: leak it rather than drop (dropping may panic again)
                std::mem::forget(fut);
            }
        }
        self.last = id;
    }

    /// Runs until no task is ready or the step bound is hit.
    pub fn run(&mut self, max_steps: u64) -> RunResult {
        let mut steps = 0;
        loop {
            let ready = self.ready();
            if ready.is_empty() {
                return RunResult { steps, exhausted: false };
            }
            if steps >= max_steps {
                return RunResult { steps, exhausted: true };
            }
            let id = self.choose(&ready);
            self.poll_task(id);
            steps += 1;
        }
    }

    /// Runs at most `n` steps (for stopping in the middle of processing).
    pub fn run_steps(&mut self, n: u64) -> RunResult {
        self.run(n)
    }
}
