//! Harness-side raw protocol endpoints and broker wiring.

use crate::{Sim, TaskId};
use aldrin_broker::{Broker, BrokerHandle, ConnectionHandle};
use aldrin_core::channel::{self, Unbounded};
use aldrin_core::message::{Connect, Connect2, ConnectData, Message};
use aldrin_core::transport::AsyncTransport;
use aldrin_core::SerializedValue;
use std::cell::RefCell;
use std::pin::Pin;
use std::rc::Rc;
use std::task::{Context, Poll, Waker};

/// A protocol endpoint that speaks `Message` directly over the repository's own in-memory
/// transport and records everything it receives, in order.
pub struct RawPeer {
    t: Option<Unbounded>,
    pub disconnected: bool,
}

impl RawPeer {
    pub fn new(t: Unbounded) -> Self {
        RawPeer { t: Some(t), disconnected: false }
    }

    /// Sends one message; false if the other side is gone.
    pub fn send(&mut self, m: Message) -> bool {
        match self.t.as_mut() {
            Some(t) => Pin::new(t).send_start(m).is_ok(),
            None => false,
        }
    }

    /// Everything that has arrived since the last call.
    pub fn drain(&mut self) -> Vec<Message> {
        let mut out = vec![];
        let Some(t) = self.t.as_mut() else {
            return out;
        };
        let waker = Waker::noop();
        let mut cx = Context::from_waker(waker);
        loop {
            match Pin::new(&mut *t).receive_poll(&mut cx) {
                Poll::Ready(Ok(m)) => out.push(m),
                Poll::Ready(Err(_)) => {
                    self.disconnected = true;
                    break;
                }
                Poll::Pending => break,
            }
        }
        out
    }

    /// Drops the transport end (the connection sees a transport error / EOF).
    pub fn hang_up(&mut self) {
        self.t = None;
    }

    pub fn has_transport(&self) -> bool {
        self.t.is_some()
    }
}

#[derive(Clone, Copy, Debug, PartialEq, Eq)]
pub enum ConnectAs {
    /// legacy `Connect { version: minor }`
    Legacy(u32),
    /// `Connect2 { major, minor }`
    New(u32, u32),
}

pub struct RawConn {
    pub peer: RawPeer,
    pub task: TaskId,
    /// Set once the broker accepted the connection.
    pub handle: Rc<RefCell<Option<ConnectionHandle>>>,
    /// Result of the accept + run task: Ok(()) / Err(text).
    pub result: Rc<RefCell<Option<Result<(), String>>>>,
}

pub struct Bus {
    pub sim: Sim,
    pub handle: BrokerHandle,
    pub broker_task: TaskId,
    pub broker_done: Rc<RefCell<Option<()>>>,
}

impl Bus {
    pub fn new(mut sim: Sim) -> Self {
        let broker = Broker::new();
        let handle = broker.handle().clone();
        let (broker_task, broker_done) = sim.spawn_out("broker", broker.run());
        Bus { sim, handle, broker_task, broker_done }
    }

    /// Creates a transport pair and the broker-side accept+run task. The caller sends the
    /// handshake message through the returned peer.
    pub fn open(&mut self, name: &str) -> RawConn {
        let (a, b) = channel::unbounded();
        let mut h = self.handle.clone();
        let handle_slot: Rc<RefCell<Option<ConnectionHandle>>> = Rc::new(RefCell::new(None));
        let hs = handle_slot.clone();
        let (task, result) = self.sim.spawn_out(name, async move {
            match h.connect(b).await {
                Ok(conn) => {
                    *hs.borrow_mut() = Some(conn.handle().clone());
                    conn.run().await.map_err(|e| format!("{:?}", e))
                }
                Err(e) => Err(format!("accept: {:?}", e)),
            }
        });
        RawConn { peer: RawPeer::new(a), task, handle: handle_slot, result }
    }

    /// Opens a connection and performs the handshake with the given version, without user data.
    pub fn connect(&mut self, name: &str, v: ConnectAs, max_steps: u64) -> RawConn {
        let mut c = self.open(name);
        c.peer.send(handshake(v, None));
        self.sim.run(max_steps);
        c
    }
}

pub fn handshake(v: ConnectAs, user: Option<SerializedValue>) -> Message {
    match v {
        ConnectAs::Legacy(minor) => Message::Connect(Connect {
            version: minor,
            value: user.unwrap_or_else(|| SerializedValue::serialize(()).unwrap()),
        }),
        ConnectAs::New(major, minor) => {
            let mut data = ConnectData::new();
            data.user = user;
            Message::Connect2(Connect2 {
                major_version: major,
                minor_version: minor,
                value: SerializedValue::serialize(data).unwrap(),
            })
        }
    }
}
