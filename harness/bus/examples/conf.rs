//! Scratch driver: replays the upstream conformance scenarios and prints per-scenario results.
//! `conf [name-substring] [-v] [--all-versions]`
use bus::conformance as cf;
use vcommon::Outcome;

fn main() {
    vcommon::install_panic_hook();
    let args: Vec<String> = std::env::args().skip(1).collect();
    let verbose = args.iter().any(|a| a == "-v");
    let all_versions = args.iter().any(|a| a == "--all-versions");
    let reverse = args.iter().any(|a| a == "--reverse");
    let sweep = args.iter().any(|a| a == "--sweep");
    let filter: Option<&String> = args.iter().find(|a| !a.starts_with('-'));
    let list = cf::scenarios();
    let (mut pass, mut unsup, mut fail) = (0, 0, 0);
    let versions: Vec<aldrin_core::ProtocolVersion> = if all_versions {
        (14..=20).map(|m| aldrin_core::ProtocolVersion::new(1, m)).collect()
    } else {
        vec![aldrin_core::ProtocolVersion::V1_20]
    };
    for (i, (name, _)) in list.iter().enumerate() {
        if let Some(f) = filter {
            if !name.contains(f.as_str()) {
                continue;
            }
        }
        for v in &versions {
            if let Some(need) = cf::required_version(i) {
                if *v < need {
                    continue;
                }
            }
            let mut variants = vec![cf::Variant { version: *v, reverse_final: reverse, ..cf::Variant::default() }];
            if sweep {
                for (k, policy) in [simbus::Policy::Random, simbus::Policy::RoundRobin, simbus::Policy::Starve, simbus::Policy::LowestFirst, simbus::Policy::HighestFirst].into_iter().enumerate() {
                    for rf in [false, true] {
                        variants.push(cf::Variant { version: *v, reverse_final: rf, sched_seed: 7 + k as u64, policy });
                    }
                }
            }
            for variant in variants {
            let r = cf::run_scenario_variant(i, variant);
            let tag = format!("{:50} @{} {:?}/{}{}", name, v, variant.policy, variant.sched_seed, if variant.reverse_final { " rev" } else { "" });
            match (&r.outcome, &r.unsupported) {
                (Outcome::Pass(_), None) => {
                    pass += 1;
                    println!("PASS  {} ({} expectations, {} history lines)", tag, r.matched, r.history.len());
                }
                (Outcome::Pass(_), Some(why)) => {
                    unsup += 1;
                    println!("UNSUP {} {}", tag, why);
                }
                (Outcome::Fail(f), _) => {
                    fail += 1;
                    println!("FAIL  {} {}\n{}", tag, f.signature, f.detail);
                }
            }
            if verbose {
                println!("{}", cf::render_scenario(i));
                for h in &r.history {
                    println!("    {}", h);
                }
            }
            }
        }
    }
    if args.iter().any(|a| a == "--summary") {
        let (full, total, unsupported) = cf::supported_summary();
        println!("supported_summary: {} of {} fully replayed; unsupported: {:?}", full, total, unsupported);
        println!("run_scenario(0): {:?}", cf::run_scenario(0));
        print!("{}", cf::render_scenario(0));
    }
    println!("fully replayed {} / unsupported {} / failing {} (of {} scenarios)", pass, unsup, fail, list.len());
}
