//! Lock-step engine: real broker on the simulator + reference model, compared after every step.

use crate::model::{Effects, Exp, Model, ObsView, Observed, C};
use crate::refcodec::{self, Mode};
use aldrin_core::message::*;
use aldrin_core::SerializedValue;
use simbus::peer::{handshake, Bus, ConnectAs, RawConn};
use simbus::{Policy, Sim};
use std::collections::BTreeMap;
use vcommon::{hex, Outcome};

pub const STEP_BOUND: u64 = 50_000;

pub struct World {
    pub bus: Bus,
    pub conns: Vec<RawConn>,
    pub model: Model,
    /// per connection: everything received so far, in order
    pub log: Vec<Vec<Message>>,
    pub steps: u64,
    pub notes: Vec<&'static str>,
    pub history: Vec<String>,
    /// connections whose broker-side task was dropped; the broker has not noticed yet
    pub zombies: std::collections::BTreeSet<C>,
    /// a connection whose own fate (what it receives, whether it is closed) is not judged in
    /// the current comparison (C11: the abuser may be answered, ignored or closed)
    pub lenient: Option<C>,
    /// check that payloads delivered to pre-1.20 connections contain no 1.20 encodings (only
    /// sound when every sender's payloads respect its own version)
    pub check_payload_epoch: bool,
}

/// Failure of a lock-step comparison.
pub struct Fail {
    pub signature: String,
    pub detail: String,
}

impl Fail {
    pub fn new(sig: impl Into<String>, detail: impl Into<String>) -> Self {
        Fail { signature: sig.into(), detail: detail.into() }
    }

    pub fn outcome(self, history: &[String]) -> Outcome {
        let mut d = self.detail;
        d.push_str("\nhistory:\n");
        let from = history.len().saturating_sub(40);
        for h in &history[from..] {
            d.push_str("  ");
            d.push_str(h);
            d.push('\n');
        }
        Outcome::fail(self.signature, d)
    }
}

/// Message with its payload replaced by the payload's meaning, for comparisons that must not
/// depend on the container epoch the receiver's version asks for.
pub fn norm(m: &Message) -> Vec<u8> {
    let mut m2 = m.clone();
    let mut sem = String::new();
    if let Some(v) = m.value() {
        let bytes: &[u8] = v;
        sem = match refcodec::decode_all(bytes, Mode::Skip) {
            Ok(d) => format!("{:?}", refcodec::sem(&d.tree)),
            Err(_) => format!("raw:{}", hex(bytes)),
        };
    }
    if let Some(v) = m2.value_mut() {
        *v = SerializedValue::serialize(()).unwrap();
    }
    let mut out = m2.serialize_message().map(|b| b.to_vec()).unwrap_or_default();
    out.extend_from_slice(sem.as_bytes());
    out
}

/// Meaning of a payload (epoch-independent), for matching forwards to requests.
pub fn payload_key(v: &SerializedValue) -> String {
    let bytes: &[u8] = v;
    match refcodec::decode_all(bytes, Mode::Skip) {
        Ok(d) => format!("{:?}", refcodec::sem(&d.tree)),
        Err(_) => format!("raw:{}", hex(bytes)),
    }
}

pub fn short(m: &Message) -> String {
    let s = format!("{:?}", m);
    if s.len() > 260 {
        let mut cut = 260;
        while !s.is_char_boundary(cut) {
            cut -= 1;
        }
        format!("{}...", &s[..cut])
    } else {
        s
    }
}

impl World {
    pub fn new(schedule_seed: u64, policy: Policy) -> Self {
        World {
            bus: Bus::new(Sim::new(schedule_seed, policy)),
            conns: vec![],
            model: Model::new(),
            log: vec![],
            steps: 0,
            notes: vec![],
            history: vec![],
            zombies: Default::default(),
            lenient: None,
            check_payload_epoch: true,
        }
    }

    pub fn run(&mut self) -> Result<(), Fail> {
        let r = self.bus.sim.run(STEP_BOUND);
        self.steps += r.steps;
        if r.exhausted {
            return Err(Fail::new("livelock:step-bound", format!("the simulator did not reach quiescence within {} steps", STEP_BOUND)));
        }
        if let Some((task, p)) = self.bus.sim.panics().first() {
            return Err(Fail::new(
                format!("panic:{}:{}", task_kind(task), p.location()),
                format!("task {} panicked: {}", task, p.0),
            ));
        }
        Ok(())
    }

    pub fn drain_all(&mut self) -> Observed {
        let mut obs = Observed::new();
        for (i, c) in self.conns.iter_mut().enumerate() {
            let msgs = c.peer.drain();
            if !msgs.is_empty() {
                self.log[i].extend(msgs.iter().cloned());
                obs.insert(i, msgs);
            }
        }
        obs
    }

    /// Connects a new raw peer with a version the broker accepts.
    pub fn connect(&mut self, minor: u32, legacy: bool) -> Result<C, Fail> {
        let idx = self.conns.len();
        let v = if legacy { ConnectAs::Legacy(minor) } else { ConnectAs::New(1, minor) };
        let mut conn = self.bus.open(&format!("conn{}", idx));
        conn.peer.send(handshake(v, None));
        self.conns.push(conn);
        self.log.push(vec![]);
        self.run()?;
        let replies = self.conns[idx].peer.drain();
        let negotiated = minor.min(20);
        let ok = match replies.as_slice() {
            [Message::ConnectReply(ConnectReply::Ok(_))] => legacy,
            [Message::ConnectReply2(ConnectReply2 { result: ConnectResult::Ok(m), .. })] => !legacy && *m == negotiated,
            _ => false,
        };
        if !ok {
            return Err(Fail::new("connect:handshake", format!("handshake with 1.{} (legacy={}) answered {:?}", minor, legacy, replies)));
        }
        self.model.add_conn(idx, negotiated);
        self.history.push(format!("c{} connects as 1.{}{}", idx, minor, if legacy { " (legacy)" } else { "" }));
        Ok(idx)
    }

    /// Sends one message from connection `c`, runs to quiescence and compares with the model.
    pub fn inject(&mut self, c: C, msg: Message) -> Result<(), Fail> {
        self.history.push(format!("c{} -> {}", c, short(&msg)));
        let sent = self.conns[c].peer.send(msg.clone());
        if !sent && self.model.conns.get(&c).map(|x| x.alive).unwrap_or(false) {
            return Err(Fail::new("harness:send-to-live-conn-failed", "transport of a connection the model believes alive is closed"));
        }
        self.run()?;
        let obs = self.drain_all();
        let eff = self.model.step(c, &msg, &ObsView::new(&obs));
        self.compare(eff, obs)
    }

    /// Ends connection `c` by dropping the peer's transport end (transport error / EOF).
    pub fn hang_up(&mut self, c: C) -> Result<(), Fail> {
        self.history.push(format!("c{} hangs up", c));
        self.conns[c].peer.hang_up();
        self.run()?;
        let obs = self.drain_all();
        let mut eff = Effects::default();
        self.model.conn_gone(&mut eff, c);
        self.compare(eff, obs)
    }

    /// Concurrent mode: all elements of the batch are handed to the transports before the
    /// simulator runs, so the order in which the broker dequeues messages of different
    /// connections is up to the schedule. The observed outputs must be explained by SOME
    /// interleaving that respects each connection's own order (linearisation search).
    pub fn inject_batch(&mut self, batch: Vec<(C, Option<Message>)>) -> Result<(), Fail> {
        let desc: Vec<String> = batch.iter().map(|(c, m)| match m {
            Some(m) => format!("c{} -> {}", c, short(m)),
            None => format!("c{} hangs up", c),
        }).collect();
        self.history.push(format!("concurrently {{ {} }}", desc.join(" || ")));
        for (c, m) in &batch {
            match m {
                Some(m) => {
                    self.conns[*c].peer.send(m.clone());
                }
                None => self.conns[*c].peer.hang_up(),
            }
        }
        self.run()?;
        let obs = self.drain_all();
        // candidate orders: all permutations that keep per-connection order
        let n = batch.len();
        let mut orders: Vec<Vec<usize>> = vec![];
        fn rec(n: usize, batch: &[(C, Option<Message>)], used: &mut Vec<bool>, cur: &mut Vec<usize>, out: &mut Vec<Vec<usize>>) {
            if cur.len() == n {
                out.push(cur.clone());
                return;
            }
            for i in 0..n {
                if used[i] {
                    continue;
                }
                // an earlier element of the same connection must already be placed
                if (0..i).any(|j| !used[j] && batch[j].0 == batch[i].0) {
                    continue;
                }
                used[i] = true;
                cur.push(i);
                rec(n, batch, used, cur, out);
                cur.pop();
                used[i] = false;
            }
        }
        rec(n, &batch, &mut vec![false; n], &mut vec![], &mut orders);
        // nothing can be observed on a connection that hangs up within the batch
        // (the same holds for one that announces its shutdown: its connection stops forwarding)
        let hung: Vec<C> = batch.iter().filter(|(_, m)| matches!(m, None | Some(Message::Shutdown(_)))).map(|(c, _)| *c).collect();
        for c in &hung {
            self.model.unobservable.insert(*c);
        }
        let saved_model = self.model.clone();
        let saved_notes = self.notes.len();
        let mut first_err: Option<Fail> = None;
        let mut all_errs: Vec<String> = vec![];
        for order in &orders {
            let view = ObsView::new(&obs);
            let mut total = Effects::default();
            for i in order {
                let (c, m) = &batch[*i];
                let eff = match m {
                    Some(m) => self.model.step(*c, m, &view),
                    None => {
                        let mut e = Effects::default();
                        self.model.conn_gone(&mut e, *c);
                        e
                    }
                };
                for (k, v) in eff.out {
                    total.out.entry(k).or_default().extend(v);
                }
                total.closed.extend(eff.closed);
                total.shutdown.extend(eff.shutdown);
                total.notes.extend(eff.notes);
                total.problems.extend(eff.problems);
            }
            // messages expected for a connection that is gone by the end of the batch may or may
            // not have been delivered before it went away
            for (c, mc) in &self.model.conns {
                if !mc.alive {
                    if let Some(v) = total.out.get_mut(c) {
                        for e in v.iter_mut() {
                            if let Exp::Must(m) = e {
                                *e = Exp::May(m.clone());
                            }
                        }
                    }
                }
            }
            match self.compare(total, obs.clone()) {
                Ok(()) => {
                    if order.iter().enumerate().any(|(k, i)| k != *i) {
                        self.notes.push("batch:reordered-linearisation");
                    }
                    self.notes.push("batch:linearised");
                    for c in &hung {
                        self.model.unobservable.remove(c);
                    }
                    return Ok(());
                }
                Err(f) => {
                    self.model = saved_model.clone();
                    self.notes.truncate(saved_notes);
                    if all_errs.len() < 8 {
                        all_errs.push(format!("order {:?}: {}: {}", order, f.signature, f.detail.lines().next().unwrap_or("")));
                    }
                    if first_err.is_none() {
                        first_err = Some(f);
                    }
                }
            }
        }
        let f = first_err.unwrap_or_else(|| Fail::new("harness:empty-batch", "no candidate order"));
        Err(Fail::new(
            format!("no-linearisation:{}", f.signature),
            format!("no interleaving of the {} concurrently queued requests (respecting each connection's order, {} candidates) explains what the connections received; for the submission order: {}\ncandidates:\n{}", n, orders.len(), f.detail, all_errs.join("\n")),
        ))
    }

    pub fn compare(&mut self, mut eff: Effects, obs: Observed) -> Result<(), Fail> {
        // consequences whose broker-chosen parts are read from the output (idempotent)
        self.model.resolve_requeries(&mut eff, &ObsView::new(&obs));
        self.notes.extend(eff.notes.iter().copied());
        if let Some(p) = eff.problems.first() {
            return Err(Fail::new("model:expectation", format!("{}\nobserved: {}", p, render_obs(&obs))));
        }
        let mut expected: BTreeMap<C, Vec<Exp>> = eff.out.clone();
        for z in &self.zombies {
            // nothing can be observed on a connection whose task is gone
            expected.remove(z);
        }
        for c in &eff.shutdown {
            expected.entry(*c).or_default().push(Exp::Must(Message::Shutdown(Shutdown)));
        }
        let mut all: Vec<C> = expected.keys().copied().collect();
        for c in obs.keys() {
            if !all.contains(c) {
                all.push(*c);
            }
        }
        for c in all {
            let empty = vec![];
            let got = obs.get(&c).unwrap_or(&empty);
            // what a connection is sent must fit its negotiated version
            if let Some(mc) = self.model.conns.get(&c) {
                for m in got {
                    if let Some(why) = newer_than(m, mc.minor, self.check_payload_epoch) {
                        return Err(Fail::new(
                            format!("version:newer-message:{}", kind_name(m)),
                            format!("connection c{} negotiated 1.{} but was sent {} ({})", c, mc.minor, short(m), why),
                        ));
                    }
                }
            }
            if self.lenient == Some(c) {
                continue;
            }
            let exp = expected.get(&c).cloned().unwrap_or_default();
            let mut used = vec![false; got.len()];
            let got_norm: Vec<Vec<u8>> = got.iter().map(norm).collect();
            // required messages
            for e in &exp {
                if let Exp::Must(m) = e {
                    let n = norm(m);
                    match (0..got.len()).find(|i| !used[*i] && got_norm[*i] == n) {
                        Some(i) => used[i] = true,
                        None => {
                            return Err(Fail::new(
                                format!("missing:{}", kind_name(m)),
                                format!("connection c{} must receive {} but got {}", c, short(m), render_list(got)),
                            ))
                        }
                    }
                }
            }
            // flexible ones
            for e in &exp {
                match e {
                    Exp::Must(_) => {}
                    Exp::May(m) => {
                        let n = norm(m);
                        if let Some(i) = (0..got.len()).find(|i| !used[*i] && got_norm[*i] == n) {
                            used[i] = true;
                        }
                    }
                    Exp::Either(a, b) => {
                        let (na, nb) = (norm(a), norm(b));
                        match (0..got.len()).find(|i| !used[*i] && (got_norm[*i] == na || got_norm[*i] == nb)) {
                            Some(i) => used[i] = true,
                            None => {
                                return Err(Fail::new(
                                    format!("missing:{}", kind_name(a)),
                                    format!("connection c{} must receive {} or {} but got {}", c, short(a), short(b), render_list(got)),
                                ))
                            }
                        }
                    }
                    Exp::Announce { .. } | Exp::Requery(_) => {}
                }
            }
            // announcements of new credit to a sender: any positive amounts whose sum stays within
            // the largest unannounced grant the model saw for that channel in this step
            let mut bounds: BTreeMap<uuid::Uuid, u64> = BTreeMap::new();
            for e in &exp {
                if let Exp::Announce { cookie, max } = e {
                    let b = bounds.entry(*cookie).or_insert(0);
                    *b = (*b).max(*max);
                }
            }
            for (cookie, max) in bounds {
                let mut sum = 0u64;
                for i in 0..got.len() {
                    if used[i] {
                        continue;
                    }
                    if let Message::AddChannelCapacity(a) = &got[i] {
                        if a.cookie.0 == cookie {
                            used[i] = true;
                            sum += a.capacity as u64;
                            if a.capacity == 0 {
                                return Err(Fail::new("channel:announced-zero", format!("sender c{} was announced 0 more items on {}", c, cookie)));
                            }
                        }
                    }
                }
                if sum > max {
                    return Err(Fail::new(
                        "channel:announced-exceeds-granted",
                        format!("sender c{} was announced {} more items on {} but the receiver's unannounced grant is {}", c, sum, cookie, max),
                    ));
                }
                if let Some(ch) = self.model.chans.get_mut(&cookie) {
                    ch.announced += sum as i64;
                }
            }
            if let Some(i) = (0..got.len()).find(|i| !used[*i]) {
                return Err(Fail::new(
                    format!("unexpected:{}", kind_name(&got[i])),
                    format!("connection c{} received {} which nothing in the protocol state calls for; all it got in this step: {}", c, short(&got[i]), render_list(got)),
                ));
            }
            // ordering facts that hold inside one step
            self.check_order(c, got)?;
        }
        // connection liveness as seen by the peers
        for (i, conn) in self.conns.iter().enumerate() {
            let must_be_closed = !self.model.conns.get(&i).map(|x| x.alive).unwrap_or(false);
            if conn.peer.has_transport() && !self.zombies.contains(&i) && self.lenient != Some(i) {
                if must_be_closed && !conn.peer.disconnected {
                    return Err(Fail::new("conn:not-closed", format!("connection c{} must have been closed by the broker but its transport is still open", i)));
                }
                if !must_be_closed && conn.peer.disconnected {
                    return Err(Fail::new("conn:closed-unexpectedly", format!("connection c{} was closed although it did nothing that allows that; task result {:?}", i, conn.result.borrow())));
                }
            }
        }
        Ok(())
    }

    fn check_order(&self, c: C, got: &[Message]) -> Result<(), Fail> {
        // the end-of-current marker comes after every event tagged with that listener
        for (i, m) in got.iter().enumerate() {
            if let Message::BusListenerCurrentFinished(f) = m {
                let markers = got.iter().filter(|x| matches!(x, Message::BusListenerCurrentFinished(g) if g.cookie == f.cookie)).count();
                if markers == 1 && got[i + 1..].iter().any(|x| matches!(x, Message::EmitBusEvent(e) if e.cookie == Some(f.cookie))) {
                    return Err(Fail::new("listener:marker-before-events", format!("c{}: end-of-current marker precedes a tagged event: {}", c, render_list(got))));
                }
            }
            // a service's destruction is reported inside its object's lifetime
            if let Message::EmitBusEvent(EmitBusEvent { cookie: None, event: aldrin_core::BusEvent::ObjectDestroyed(o) }) = m {
                if got[i + 1..].iter().any(|x| matches!(x, Message::EmitBusEvent(EmitBusEvent { cookie: None, event: aldrin_core::BusEvent::ServiceDestroyed(s) }) if s.object_id == *o)) {
                    return Err(Fail::new("listener:service-after-object", format!("c{}: a service's destruction is reported after its object's: {}", c, render_list(got))));
                }
            }
        }
        Ok(())
    }
}

/// Why a message must not be sent to a connection of version 1.`minor`, if so. Restated from the
/// protocol changelog: abort 1.16; introspection, CreateService2, QueryServiceInfo 1.17;
/// service / all-events subscription 1.18; CallFunction2 1.19; epoch-2 value encodings 1.20.
pub fn newer_than(m: &Message, minor: u32, payload: bool) -> Option<String> {
    let need = match m {
        Message::AbortFunctionCall(_) => 16,
        Message::RegisterIntrospection(_) | Message::QueryIntrospection(_) | Message::QueryIntrospectionReply(_) | Message::CreateService2(_) | Message::QueryServiceInfo(_) | Message::QueryServiceInfoReply(_) => 17,
        Message::SubscribeService(_) | Message::SubscribeServiceReply(_) | Message::UnsubscribeService(_) | Message::SubscribeAllEvents(_) | Message::SubscribeAllEventsReply(_) | Message::UnsubscribeAllEvents(_) | Message::UnsubscribeAllEventsReply(_) => 18,
        Message::CallFunction2(_) => 19,
        _ => 0,
    };
    if minor < need {
        return Some(format!("message kind introduced in 1.{}", need));
    }
    if minor < 20 && payload {
        if let Some(v) = m.value() {
            let bytes: &[u8] = v;
            if let Ok(d) = refcodec::decode_all(bytes, Mode::Skip) {
                if refcodec::has_v2(&d.tree) {
                    return Some("payload contains a container encoding introduced in 1.20".into());
                }
            }
        }
    }
    None
}

pub fn task_kind(name: &str) -> &'static str {
    if name == "broker" {
        "broker"
    } else if name.starts_with("conn") {
        "connection"
    } else if name.starts_with("client") {
        "client"
    } else {
        "task"
    }
}

pub fn kind_name(m: &Message) -> String {
    format!("{:?}", m.kind())
}

pub fn render_list(l: &[Message]) -> String {
    if l.is_empty() {
        return "nothing".into();
    }
    let v: Vec<String> = l.iter().map(short).collect();
    format!("[{}]", v.join(", "))
}

pub fn render_obs(o: &Observed) -> String {
    let mut s = String::new();
    for (c, l) in o {
        s.push_str(&format!("c{}: {}; ", c, render_list(l)));
    }
    s
}
