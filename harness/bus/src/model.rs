//! Reference model of the broker's protocol semantics ("busmodel").
//!
//! A plain, slow state machine over BTreeMaps: connections with negotiated versions, objects,
//! services with per-event / all-event / service subscriber sets, pending calls, channels with
//! the per-end state machine and the two credit counters, bus listeners as (owner, filter set,
//! scope). For one input (a message on one connection, or the end of a connection) it returns,
//! per connection, the multiset of messages the broker must emit, and the set of connections the
//! broker must close. Broker-chosen ids (cookies, callee-side serials) are taken from the observed
//! output of the same step and checked for freshness, so expectations are fully concrete.
//!
//! Where neither the property text nor the protocol fixes a behaviour the model leaves it open
//! (`Expect::optional`, `Expect::either`).

use aldrin_core::message::*;
use aldrin_core::{
    BusEvent, BusListenerCookie, BusListenerFilter, BusListenerScope, ChannelCookie, ChannelEnd,
    ChannelEndWithCapacity, ObjectCookie, ObjectId, ObjectUuid, SerializedValue, ServiceCookie,
    ServiceId, ServiceInfo, ServiceUuid,
};
use std::collections::{BTreeMap, BTreeSet};
use uuid::Uuid;

pub type C = usize;

#[derive(Clone, Debug)]
pub struct MConn {
    pub minor: u32,
    pub alive: bool,
}

#[derive(Clone, Debug)]
pub struct MSvc {
    pub cookie: Uuid,
    pub version: u32,
    pub type_id: Option<Uuid>,
    pub subscribe_all: Option<bool>,
    pub ev_subs: BTreeMap<u32, BTreeSet<C>>,
    pub all_subs: BTreeSet<C>,
    pub svc_subs: BTreeSet<C>,
}

#[derive(Clone, Debug)]
pub struct MObj {
    pub cookie: Uuid,
    pub owner: C,
    pub services: BTreeMap<Uuid, MSvc>,
}

#[derive(Clone, Debug)]
pub struct MCall {
    pub caller: C,
    pub caller_serial: u32,
    pub callee: C,
    pub callee_serial: u32,
    pub svc_cookie: Uuid,
    pub aborted: bool,
    /// caller still waits for its reply
    pub caller_waiting: bool,
}

#[derive(Clone, Copy, Debug, PartialEq, Eq)]
pub enum End {
    Unclaimed,
    Claimed(C),
    Closed,
}

#[derive(Clone, Debug)]
pub struct MChan {
    pub sender: End,
    pub receiver: End,
    /// credit granted by the receiver and not yet used by forwarded items
    pub granted: u64,
    /// credit announced to the sender and not yet used (may be negative inside a concurrent
    /// batch, where announcements are only booked at the end)
    pub announced: i64,
    pub items_forwarded: u64,
}

#[derive(Clone, Debug)]
pub struct MListener {
    pub owner: C,
    pub filters: BTreeSet<BusListenerFilter>,
    pub scope: Option<BusListenerScope>,
}

#[derive(Clone, Debug, Default)]
pub struct MIntro {
    pub providers: BTreeSet<C>,
    pub cached: Option<SerializedValue>,
    /// provider currently asked by the broker, with the broker-chosen serial
    pub queried: Option<(C, u32)>,
    /// clients waiting for the answer
    pub pending: Vec<(C, u32)>,
}

#[derive(Clone, Debug, Default)]
pub struct Model {
    pub conns: BTreeMap<C, MConn>,
    /// object uuid -> object
    pub objs: BTreeMap<Uuid, MObj>,
    pub calls: Vec<MCall>,
    pub chans: BTreeMap<Uuid, MChan>,
    pub listeners: BTreeMap<Uuid, MListener>,
    /// every broker-chosen cookie ever seen in this case (freshness)
    pub seen_cookies: BTreeSet<Uuid>,
    /// cookies of services that existed and are gone (generators aim stale requests at them)
    pub dead_svcs: Vec<Uuid>,
    /// callee-side serials of calls that ended WITHOUT the callee's reply (their service was
    /// destroyed under them): the callee may still send a late reply carrying such a serial, which
    /// must never be delivered - so the broker cannot hand the serial to a new call of that callee
    pub tainted_callee_serials: BTreeSet<(C, u32)>,
    /// connections on which nothing can be observed (their broker-side task was dropped)
    pub unobservable: BTreeSet<C>,
    /// introspection database: type id -> entry
    pub intros: BTreeMap<Uuid, MIntro>,
}

/// One expected message with flexibility markers.
#[derive(Clone, Debug)]
pub enum Exp {
    /// exactly this message (payload compared by meaning)
    Must(Message),
    /// allowed but not required (behaviour left open by the property)
    May(Message),
    /// exactly one of the two (the property does not rank the two answers)
    Either(Message, Message),
    /// internal marker: the broker must ask another provider for this type id
    Requery(Uuid),
    /// AddChannelCapacity to the sender with any positive amount up to `max` (announcement
    /// policy is the broker's; only the bound is stated)
    Announce { cookie: Uuid, max: u64 },
}

#[derive(Clone, Debug, Default)]
pub struct Effects {
    pub out: BTreeMap<C, Vec<Exp>>,
    /// connections the broker must close without a Shutdown message
    pub closed: BTreeSet<C>,
    /// connections that get a Shutdown message and are then closed
    pub shutdown: BTreeSet<C>,
    /// human-readable notes for class labels
    pub notes: Vec<&'static str>,
    /// a model-side problem (freshness etc.) that is a violation in itself
    pub problems: Vec<String>,
}

impl Effects {
    fn must(&mut self, c: C, m: impl Into<Message>) {
        self.out.entry(c).or_default().push(Exp::Must(m.into()));
    }

    fn may(&mut self, c: C, m: impl Into<Message>) {
        self.out.entry(c).or_default().push(Exp::May(m.into()));
    }

    fn note(&mut self, n: &'static str) {
        self.notes.push(n);
    }
}

/// What the real broker emitted in this step (per connection, in order); used to pick up
/// broker-chosen ids.
pub type Observed = BTreeMap<C, Vec<Message>>;

/// View of the observed output in which every message can be used at most once to supply a
/// broker-chosen id (several requests of one batch may carry the same serial).
pub struct ObsView<'a> {
    pub obs: &'a Observed,
    used: std::cell::RefCell<BTreeSet<(C, usize)>>,
}

impl<'a> ObsView<'a> {
    pub fn new(obs: &'a Observed) -> Self {
        ObsView { obs, used: Default::default() }
    }

    /// First not yet used message on connection `c` for which `f` yields a value.
    pub fn take<T>(&self, c: C, mut f: impl FnMut(&Message) -> Option<T>) -> Option<T> {
        let list = self.obs.get(&c)?;
        for (i, m) in list.iter().enumerate() {
            if self.used.borrow().contains(&(c, i)) {
                continue;
            }
            if let Some(v) = f(m) {
                self.used.borrow_mut().insert((c, i));
                return Some(v);
            }
        }
        None
    }

    pub fn any(&self, c: C, mut f: impl FnMut(&Message) -> bool) -> bool {
        self.obs.get(&c).map(|l| l.iter().any(|m| f(m))).unwrap_or(false)
    }
}

fn oid(uuid: Uuid, cookie: Uuid) -> ObjectId {
    ObjectId::new(ObjectUuid(uuid), ObjectCookie(cookie))
}

fn sid(ou: Uuid, oc: Uuid, su: Uuid, sc: Uuid) -> ServiceId {
    ServiceId::new(oid(ou, oc), ServiceUuid(su), ServiceCookie(sc))
}

pub fn filter_matches(f: &BusListenerFilter, ev: &BusEvent) -> bool {
    // restated from the property: object filters match objects (any / by uuid), service
    // filters match services (any / by object uuid / by service uuid / both)
    match (f, ev) {
        (BusListenerFilter::Object(None), BusEvent::ObjectCreated(_) | BusEvent::ObjectDestroyed(_)) => true,
        (BusListenerFilter::Object(Some(u)), BusEvent::ObjectCreated(o) | BusEvent::ObjectDestroyed(o)) => o.uuid == *u,
        (BusListenerFilter::Service(sf), BusEvent::ServiceCreated(s) | BusEvent::ServiceDestroyed(s)) => {
            sf.object.map(|o| o == s.object_id.uuid).unwrap_or(true) && sf.service.map(|x| x == s.uuid).unwrap_or(true)
        }
        _ => false,
    }
}

impl Model {
    pub fn new() -> Self {
        Self::default()
    }

    pub fn add_conn(&mut self, c: C, minor: u32) {
        self.conns.insert(c, MConn { minor, alive: true });
    }

    fn alive(&self, c: C) -> bool {
        self.conns.get(&c).map(|x| x.alive).unwrap_or(false)
    }

    fn minor(&self, c: C) -> u32 {
        self.conns.get(&c).map(|x| x.minor).unwrap_or(0)
    }

    pub fn find_obj_by_cookie(&self, cookie: Uuid) -> Option<Uuid> {
        self.objs.iter().find(|(_, o)| o.cookie == cookie).map(|(u, _)| *u)
    }

    pub fn find_svc(&self, cookie: Uuid) -> Option<(Uuid, Uuid)> {
        for (ou, o) in &self.objs {
            for (su, s) in &o.services {
                if s.cookie == cookie {
                    return Some((*ou, *su));
                }
            }
        }
        None
    }

    fn svc(&self, cookie: Uuid) -> Option<(&MObj, &MSvc, Uuid, Uuid)> {
        let (ou, su) = self.find_svc(cookie)?;
        let o = self.objs.get(&ou)?;
        Some((o, o.services.get(&su)?, ou, su))
    }

    fn svc_mut(&mut self, cookie: Uuid) -> Option<&mut MSvc> {
        let (ou, su) = self.find_svc(cookie)?;
        self.objs.get_mut(&ou)?.services.get_mut(&su)
    }

    fn fresh(&mut self, eff: &mut Effects, cookie: Uuid, what: &str) {
        if !self.seen_cookies.insert(cookie) {
            eff.problems.push(format!("{} {} was used before in this history", what, cookie));
        }
    }

    // -----------------------------------------------------------------------------------------
    // bus events

    fn emit_bus_event(&self, eff: &mut Effects, ev: BusEvent) {
        // once per connection (not per listener) that has a started listener including new
        // events with a matching filter
        let mut conns = BTreeSet::new();
        for l in self.listeners.values() {
            if !self.alive(l.owner) {
                continue;
            }
            let includes_new = matches!(l.scope, Some(BusListenerScope::New) | Some(BusListenerScope::All));
            if includes_new && l.filters.iter().any(|f| filter_matches(f, &ev)) {
                conns.insert(l.owner);
            }
        }
        for c in conns {
            eff.must(c, EmitBusEvent { cookie: None, event: ev });
        }
    }

    // -----------------------------------------------------------------------------------------
    // destruction cascades

    fn destroy_service(&mut self, eff: &mut Effects, ou: Uuid, su: Uuid) {
        let Some(obj) = self.objs.get_mut(&ou) else { return };
        let oc = obj.cookie;
        let Some(svc) = obj.services.remove(&su) else { return };
        self.dead_svcs.push(svc.cookie);
        // pending calls to it are answered with invalid-service (unless aborted)
        let mut keep = vec![];
        for call in std::mem::take(&mut self.calls) {
            if call.svc_cookie == svc.cookie {
                self.tainted_callee_serials.insert((call.callee, call.callee_serial));
                if !call.aborted && call.caller_waiting && self.alive(call.caller) {
                    eff.must(call.caller, CallFunctionReply { serial: call.caller_serial, result: CallFunctionResult::InvalidService });
                }
            } else {
                keep.push(call);
            }
        }
        self.calls = keep;
        // subscribers are told once
        let mut told = BTreeSet::new();
        for subs in svc.ev_subs.values() {
            told.extend(subs.iter().copied());
        }
        told.extend(svc.svc_subs.iter().copied());
        for c in &told {
            if self.alive(*c) {
                eff.must(*c, ServiceDestroyed { service_cookie: ServiceCookie(svc.cookie) });
            }
        }
        // connections subscribed only to all events: neither demanded nor forbidden
        for c in &svc.all_subs {
            if !told.contains(c) && self.alive(*c) {
                eff.may(*c, ServiceDestroyed { service_cookie: ServiceCookie(svc.cookie) });
            }
        }
        self.emit_bus_event(eff, BusEvent::ServiceDestroyed(sid(ou, oc, su, svc.cookie)));
    }

    fn destroy_object(&mut self, eff: &mut Effects, ou: Uuid) {
        let Some(obj) = self.objs.get(&ou) else { return };
        let sus: Vec<Uuid> = obj.services.keys().copied().collect();
        let oc = obj.cookie;
        for su in sus {
            self.destroy_service(eff, ou, su);
            eff.note("cascade:service-with-object");
        }
        self.objs.remove(&ou);
        self.emit_bus_event(eff, BusEvent::ObjectDestroyed(oid(ou, oc)));
    }

    fn owner_of_svc(&self, cookie: Uuid) -> Option<C> {
        self.svc(cookie).map(|(o, _, _, _)| o.owner)
    }

    fn remove_event_sub(&mut self, eff: &mut Effects, c: C, cookie: Uuid, event: u32, notify_even_if_owner_dead: bool) {
        let Some(owner) = self.owner_of_svc(cookie) else { return };
        let Some(svc) = self.svc_mut(cookie) else { return };
        let mut transition = false;
        if let Some(set) = svc.ev_subs.get_mut(&event) {
            if set.remove(&c) && set.is_empty() {
                svc.ev_subs.remove(&event);
                transition = true;
            }
        }
        if transition && (self.alive(owner) || notify_even_if_owner_dead) && self.alive(owner) {
            eff.must(owner, UnsubscribeEvent { service_cookie: ServiceCookie(cookie), event });
            eff.note("transition:1->0");
        }
    }

    fn remove_all_sub(&mut self, eff: &mut Effects, c: C, cookie: Uuid) {
        let Some(owner) = self.owner_of_svc(cookie) else { return };
        let Some(svc) = self.svc_mut(cookie) else { return };
        let had = svc.all_subs.remove(&c);
        let transition = had && svc.all_subs.is_empty();
        if transition && self.alive(owner) {
            eff.must(owner, UnsubscribeAllEvents { serial: None, service_cookie: ServiceCookie(cookie) });
            eff.note("transition:all:1->0");
        }
    }

    fn close_end(&mut self, eff: &mut Effects, cookie: Uuid, end: ChannelEnd) {
        let Some(ch) = self.chans.get_mut(&cookie) else { return };
        let other = match end {
            ChannelEnd::Sender => {
                ch.sender = End::Closed;
                ch.receiver
            }
            ChannelEnd::Receiver => {
                ch.receiver = End::Closed;
                ch.sender
            }
        };
        match other {
            End::Claimed(o) if self.alive(o) => {
                eff.must(o, ChannelEndClosed { cookie: ChannelCookie(cookie), end });
            }
            _ => {
                self.chans.remove(&cookie);
            }
        }
    }

    /// Everything that follows from connection `c` going away.
    pub fn conn_gone(&mut self, eff: &mut Effects, c: C) {
        let Some(conn) = self.conns.get_mut(&c) else { return };
        if !conn.alive {
            return;
        }
        conn.alive = false;
        // listeners
        self.listeners.retain(|_, l| l.owner != c);
        // objects it owned
        let owned: Vec<Uuid> = self.objs.iter().filter(|(_, o)| o.owner == c).map(|(u, _)| *u).collect();
        for ou in owned {
            self.destroy_object(eff, ou);
            eff.note("cascade:owner-disconnect");
        }
        // its subscriptions on other services
        let mut ev: Vec<(Uuid, u32)> = vec![];
        let mut all: Vec<Uuid> = vec![];
        for o in self.objs.values_mut() {
            for s in o.services.values_mut() {
                for (e, set) in &s.ev_subs {
                    if set.contains(&c) {
                        ev.push((s.cookie, *e));
                    }
                }
                if s.all_subs.contains(&c) {
                    all.push(s.cookie);
                }
                s.svc_subs.remove(&c);
            }
        }
        for (cookie, e) in ev {
            self.remove_event_sub(eff, c, cookie, e, false);
            eff.note("unsubscribe-by-disconnect");
        }
        for cookie in all {
            self.remove_all_sub(eff, c, cookie);
            eff.note("unsubscribe-by-disconnect");
        }
        // channel ends
        let cookies: Vec<Uuid> = self.chans.keys().copied().collect();
        for cookie in cookies {
            let Some(ch) = self.chans.get(&cookie) else { continue };
            let (s, r) = (ch.sender, ch.receiver);
            if s == End::Claimed(c) {
                self.close_end(eff, cookie, ChannelEnd::Sender);
                eff.note("channel-end-closed-by-disconnect");
            }
            if self.chans.contains_key(&cookie) && r == End::Claimed(c) {
                self.close_end(eff, cookie, ChannelEnd::Receiver);
                eff.note("channel-end-closed-by-disconnect");
            }
        }
        // calls it made are aborted at the callee
        for i in 0..self.calls.len() {
            if self.calls[i].caller == c && !self.calls[i].aborted {
                self.calls[i].aborted = true;
                self.calls[i].caller_waiting = false;
                let callee = self.calls[i].callee;
                if self.alive(callee) && self.minor(callee) >= 16 {
                    eff.must(callee, AbortFunctionCall { serial: self.calls[i].callee_serial });
                } else if self.alive(callee) {
                    eff.note("version:abort-withheld-from-old-callee:disconnect");
                }
                eff.note("abort-by-caller-disconnect");
            } else if self.calls[i].caller == c {
                self.calls[i].caller_waiting = false;
            }
        }
        // calls it was serving disappeared together with its services (handled above)
        self.calls.retain(|call| call.callee != c);
        // introspection: its registrations and its pending queries go away; if it was being asked
        // the broker asks another provider or gives up
        let types: Vec<Uuid> = self.intros.keys().copied().collect();
        for t in types {
            // a provider is being asked, or is about to be asked within this very step (marker not
            // yet resolved: e.g. the provider that was asked went away and the next one the broker
            // turns to is a connection whose task is dead)
            let requery_outstanding = eff.out.get(&usize::MAX).is_some_and(|v| v.iter().any(|e| matches!(e, Exp::Requery(x) if *x == t)));
            let e = self.intros.get_mut(&t).unwrap();
            let was_queried = e.queried.is_some() || requery_outstanding;
            if e.queried.map(|q| q.0) == Some(c) {
                e.queried = None;
            }
            e.pending.retain(|p| p.0 != c);
            let was_provider = e.providers.remove(&c);
            if was_provider && e.providers.is_empty() {
                let e = self.intros.remove(&t).unwrap();
                if was_queried && e.queried.is_none() {
                    for (pc, ps) in e.pending {
                        if self.alive(pc) {
                            eff.must(pc, QueryIntrospectionReply { serial: ps, result: QueryIntrospectionResult::Unavailable });
                        }
                    }
                }
                eff.note("introspection:last-provider-gone");
            } else if was_queried && e.queried.is_none() && !requery_outstanding {
                eff.out.entry(usize::MAX).or_default().push(Exp::Requery(t));
                eff.note("introspection:requery-after-disconnect");
            }
        }
    }

    /// Resolves `Requery` markers: the broker asks one of the remaining providers with a new
    /// serial; which one and which serial is read from the observed output.
    pub fn resolve_requeries(&mut self, eff: &mut Effects, obs: &ObsView) {
        let Some(list) = eff.out.remove(&usize::MAX) else { return };
        for e in list {
            let Exp::Requery(t) = e else { continue };
            let Some(entry) = self.intros.get(&t) else { continue };
            let providers: Vec<C> = entry.providers.iter().copied().collect();
            let mut found = None;
            for p in &providers {
                if let Some(s) = obs.take(*p, |m| match m {
                    Message::QueryIntrospection(q) if q.type_id.0 == t => Some(q.serial),
                    _ => None,
                }) {
                    found = Some((*p, s));
                    break;
                }
            }
            // a provider whose connection cannot be observed may have been chosen
            if found.is_none() {
                if let Some(p) = providers.iter().find(|p| self.unobservable.contains(p)) {
                    found = Some((*p, u32::MAX));
                }
            }
            match found {
                Some((p, s)) => {
                    self.intros.get_mut(&t).unwrap().queried = Some((p, s));
                    eff.must(p, QueryIntrospection { serial: s, type_id: aldrin_core::TypeId(t) });
                }
                None => eff.problems.push(format!("introspection of {}: expected the broker to ask one of the providers {:?}", t, providers)),
            }
        }
    }

    fn violation(&mut self, eff: &mut Effects, c: C) {
        eff.closed.insert(c);
        self.conn_gone(eff, c);
    }

    // -----------------------------------------------------------------------------------------
    // the step function

    /// Applies one message sent by connection `c`.
    pub fn step(&mut self, c: C, msg: &Message, obs: &ObsView) -> Effects {
        let mut eff = Effects::default();
        if !self.alive(c) {
            return eff;
        }
        let v = self.minor(c);
        match msg {
            Message::Shutdown(_) => {
                eff.shutdown.insert(c);
                self.conn_gone(&mut eff, c);
            }

            Message::CreateObject(req) => {
                if self.objs.contains_key(&req.uuid.0) {
                    eff.must(c, CreateObjectReply { serial: req.serial, result: CreateObjectResult::DuplicateObject });
                    eff.note("create-object:duplicate");
                } else {
                    // pick up the cookie the broker chose
                    let cookie = obs.take(c, |m| match m {
                        Message::CreateObjectReply(CreateObjectReply { serial, result: CreateObjectResult::Ok(k) }) if *serial == req.serial => Some(k.0),
                        _ => None,
                    });
                    match cookie {
                        Some(k) => {
                            self.fresh(&mut eff, k, "object cookie");
                            if self.objs.values().any(|o| o.owner == c && false) {}
                            eff.must(c, CreateObjectReply { serial: req.serial, result: CreateObjectResult::Ok(ObjectCookie(k)) });
                            if self.seen_object_uuids_contains(req.uuid.0) {
                                eff.note("create-object:re-creation");
                            }
                            self.objs.insert(req.uuid.0, MObj { cookie: k, owner: c, services: BTreeMap::new() });
                            self.emit_bus_event(&mut eff, BusEvent::ObjectCreated(oid(req.uuid.0, k)));
                        }
                        None => {
                            eff.problems.push(format!("create-object {} serial {}: expected an ok reply with a new cookie", req.uuid.0, req.serial));
                        }
                    }
                }
            }

            Message::DestroyObject(req) => match self.find_obj_by_cookie(req.cookie.0) {
                None => {
                    eff.must(c, DestroyObjectReply { serial: req.serial, result: DestroyObjectResult::InvalidObject });
                    eff.note("destroy-object:invalid");
                }
                Some(ou) => {
                    if self.objs[&ou].owner != c {
                        eff.must(c, DestroyObjectReply { serial: req.serial, result: DestroyObjectResult::ForeignObject });
                        eff.note("foreign-access");
                    } else {
                        eff.must(c, DestroyObjectReply { serial: req.serial, result: DestroyObjectResult::Ok });
                        self.destroy_object(&mut eff, ou);
                    }
                }
            },

            Message::CreateService(req) => {
                self.create_service(&mut eff, c, obs, req.serial, req.object_cookie.0, req.uuid.0, ServiceInfo::new(req.version));
            }

            Message::CreateService2(req) => {
                if v < 17 {
                    self.violation(&mut eff, c);
                    eff.note("gated:create-service2");
                } else {
                    // the reply kinds that do not need the info come first
                    let pre = self.create_service_precheck(c, req.object_cookie.0, req.uuid.0);
                    match pre {
                        Some(result) => {
                            eff.must(c, CreateServiceReply { serial: req.serial, result });
                        }
                        None => match req.value.deserialize::<ServiceInfo>() {
                            Ok(mut info) => {
                                if v < 18 {
                                    info = info.set_subscribe_all(false);
                                }
                                self.create_service(&mut eff, c, obs, req.serial, req.object_cookie.0, req.uuid.0, info);
                            }
                            Err(_) => {
                                self.violation(&mut eff, c);
                                eff.note("create-service2:bad-info");
                            }
                        },
                    }
                }
            }

            Message::DestroyService(req) => match self.find_svc(req.cookie.0) {
                None => {
                    eff.must(c, DestroyServiceReply { serial: req.serial, result: DestroyServiceResult::InvalidService });
                }
                Some((ou, su)) => {
                    if self.objs[&ou].owner != c {
                        eff.must(c, DestroyServiceReply { serial: req.serial, result: DestroyServiceResult::ForeignObject });
                        eff.note("foreign-access");
                    } else {
                        eff.must(c, DestroyServiceReply { serial: req.serial, result: DestroyServiceResult::Ok });
                        self.destroy_service(&mut eff, ou, su);
                    }
                }
            },

            Message::CallFunction(req) => {
                self.call(&mut eff, c, obs, req.serial, req.service_cookie.0, req.function, None, &req.value);
            }

            Message::CallFunction2(req) => {
                if v < 19 {
                    self.violation(&mut eff, c);
                    eff.note("gated:call-function2");
                } else {
                    self.call(&mut eff, c, obs, req.serial, req.service_cookie.0, req.function, req.version, &req.value);
                }
            }

            Message::CallFunctionReply(req) => {
                let idx = self.calls.iter().position(|k| k.callee_serial == req.serial);
                match idx {
                    None => eff.note("reply:unknown-serial"),
                    Some(i) => {
                        // only the owner of the called service may answer
                        let owner = self.owner_of_svc(self.calls[i].svc_cookie);
                        if owner != Some(c) {
                            eff.note("reply:non-owner");
                        } else {
                            let call = self.calls.remove(i);
                            if call.aborted {
                                eff.note("reply:after-abort");
                            } else if self.alive(call.caller) && call.caller_waiting {
                                eff.must(call.caller, CallFunctionReply { serial: call.caller_serial, result: req.result.clone() });
                                eff.note("reply:delivered");
                            }
                        }
                    }
                }
            }

            Message::AbortFunctionCall(req) => {
                if v < 16 {
                    self.violation(&mut eff, c);
                    eff.note("gated:abort");
                } else if let Some(i) = self.calls.iter().position(|k| k.caller == c && k.caller_serial == req.serial && k.caller_waiting) {
                    if !self.calls[i].aborted {
                        self.calls[i].aborted = true;
                        self.calls[i].caller_waiting = false;
                        let callee = self.calls[i].callee;
                        if self.alive(callee) && self.minor(callee) >= 16 {
                            eff.must(callee, AbortFunctionCall { serial: self.calls[i].callee_serial });
                        } else if self.alive(callee) {
                            eff.note("version:abort-withheld-from-old-callee:request");
                        }
                        eff.must(c, CallFunctionReply { serial: req.serial, result: CallFunctionResult::Aborted });
                        eff.note("abort:by-caller");
                    }
                } else {
                    eff.note("abort:unknown-serial");
                }
            }

            Message::SubscribeEvent(req) => match req.serial {
                None => {
                    self.violation(&mut eff, c);
                }
                Some(serial) => match self.svc(req.service_cookie.0) {
                    None => {
                        eff.must(c, SubscribeEventReply { serial, result: SubscribeEventResult::InvalidService });
                    }
                    Some((o, _, _, _)) => {
                        let owner = o.owner;
                        eff.must(c, SubscribeEventReply { serial, result: SubscribeEventResult::Ok });
                        let svc = self.svc_mut(req.service_cookie.0).unwrap();
                        let was_empty = svc.ev_subs.get(&req.event).map(|s| s.is_empty()).unwrap_or(true);
                        svc.ev_subs.entry(req.event).or_default().insert(c);
                        if was_empty {
                            if self.alive(owner) {
                                eff.must(owner, SubscribeEvent { serial: None, service_cookie: req.service_cookie, event: req.event });
                            }
                            eff.note("transition:0->1");
                        } else {
                            eff.note("subscribe:overlap");
                        }
                    }
                },
            },

            Message::UnsubscribeEvent(req) => {
                self.remove_event_sub(&mut eff, c, req.service_cookie.0, req.event, false);
            }

            Message::EmitEvent(req) => match self.svc(req.service_cookie.0) {
                Some((o, s, _, _)) if o.owner == c => {
                    let mut targets = BTreeSet::new();
                    if let Some(set) = s.ev_subs.get(&req.event) {
                        targets.extend(set.iter().copied());
                    }
                    targets.extend(s.all_subs.iter().copied());
                    for t in targets {
                        if self.alive(t) {
                            eff.must(t, req.clone());
                            eff.note("event:delivered");
                        }
                    }
                }
                Some(_) => eff.note("event:non-owner"),
                None => eff.note("event:unknown-service"),
            },

            Message::QueryServiceVersion(req) => {
                let result = match self.svc(req.cookie.0) {
                    Some((_, s, _, _)) => QueryServiceVersionResult::Ok(s.version),
                    None => QueryServiceVersionResult::InvalidService,
                };
                eff.must(c, QueryServiceVersionReply { serial: req.serial, result });
            }

            Message::QueryServiceInfo(req) => {
                if v < 17 {
                    self.violation(&mut eff, c);
                    eff.note("gated:query-service-info");
                } else {
                    let result = match self.svc(req.cookie.0) {
                        Some((_, s, _, _)) => {
                            let mut info = ServiceInfo::new(s.version);
                            if let Some(t) = s.type_id {
                                info = info.set_type_id(aldrin_core::TypeId(t));
                            }
                            if let Some(b) = s.subscribe_all {
                                info = info.set_subscribe_all(b);
                            }
                            QueryServiceInfoResult::Ok(SerializedValue::serialize(info).unwrap())
                        }
                        None => QueryServiceInfoResult::InvalidService,
                    };
                    eff.must(c, QueryServiceInfoReply { serial: req.serial, result });
                }
            }

            Message::SubscribeService(req) => {
                if v < 18 {
                    self.violation(&mut eff, c);
                    eff.note("gated:subscribe-service");
                } else if let Some(s) = self.svc_mut(req.service_cookie.0) {
                    s.svc_subs.insert(c);
                    eff.must(c, SubscribeServiceReply { serial: req.serial, result: SubscribeServiceResult::Ok });
                } else {
                    eff.must(c, SubscribeServiceReply { serial: req.serial, result: SubscribeServiceResult::InvalidService });
                }
            }

            Message::UnsubscribeService(req) => {
                if v < 18 {
                    self.violation(&mut eff, c);
                } else if let Some(s) = self.svc_mut(req.service_cookie.0) {
                    s.svc_subs.remove(&c);
                }
            }

            Message::SubscribeAllEvents(req) => {
                if v < 18 {
                    self.violation(&mut eff, c);
                    eff.note("gated:subscribe-all");
                } else {
                    match req.serial {
                        None => self.violation(&mut eff, c),
                        Some(serial) => match self.svc(req.service_cookie.0) {
                            None => eff.must(c, SubscribeAllEventsReply { serial, result: SubscribeAllEventsResult::InvalidService }),
                            Some((o, s, _, _)) => {
                                let owner = o.owner;
                                if s.subscribe_all != Some(true) || self.minor(owner) < 18 {
                                    eff.must(c, SubscribeAllEventsReply { serial, result: SubscribeAllEventsResult::NotSupported });
                                    eff.note("subscribe-all:not-supported");
                                } else {
                                    eff.must(c, SubscribeAllEventsReply { serial, result: SubscribeAllEventsResult::Ok });
                                    let svc = self.svc_mut(req.service_cookie.0).unwrap();
                                    let was_empty = svc.all_subs.is_empty();
                                    svc.all_subs.insert(c);
                                    if was_empty {
                                        if self.alive(owner) {
                                            eff.must(owner, SubscribeAllEvents { serial: None, service_cookie: req.service_cookie });
                                        }
                                        eff.note("transition:all:0->1");
                                    }
                                }
                            }
                        },
                    }
                }
            }

            Message::UnsubscribeAllEvents(req) => {
                if v < 18 {
                    self.violation(&mut eff, c);
                } else {
                    match self.svc(req.service_cookie.0) {
                        None => {
                            if let Some(serial) = req.serial {
                                eff.must(c, UnsubscribeAllEventsReply { serial, result: UnsubscribeAllEventsResult::InvalidService });
                            }
                        }
                        Some((o, _, _, _)) => {
                            let owner = o.owner;
                            if self.minor(owner) < 18 {
                                if let Some(serial) = req.serial {
                                    eff.must(c, UnsubscribeAllEventsReply { serial, result: UnsubscribeAllEventsResult::NotSupported });
                                }
                            } else {
                                if let Some(serial) = req.serial {
                                    eff.must(c, UnsubscribeAllEventsReply { serial, result: UnsubscribeAllEventsResult::Ok });
                                }
                                self.remove_all_sub(&mut eff, c, req.service_cookie.0);
                            }
                        }
                    }
                }
            }

            Message::CreateChannel(req) => {
                let cookie = obs.take(c, |m| match m {
                    Message::CreateChannelReply(r) if r.serial == req.serial => Some(r.cookie.0),
                    _ => None,
                });
                match cookie {
                    Some(k) => {
                        self.fresh(&mut eff, k, "channel cookie");
                        eff.must(c, CreateChannelReply { serial: req.serial, cookie: ChannelCookie(k) });
                        let ch = match req.end {
                            ChannelEndWithCapacity::Sender => MChan { sender: End::Claimed(c), receiver: End::Unclaimed, granted: 0, announced: 0, items_forwarded: 0 },
                            ChannelEndWithCapacity::Receiver(cap) => MChan { sender: End::Unclaimed, receiver: End::Claimed(c), granted: cap as u64, announced: 0, items_forwarded: 0 },
                        };
                        self.chans.insert(k, ch);
                    }
                    None => eff.problems.push(format!("create-channel serial {}: expected a reply with a new cookie", req.serial)),
                }
            }

            Message::CloseChannelEnd(req) => match self.chans.get(&req.cookie.0) {
                None => eff.must(c, CloseChannelEndReply { serial: req.serial, result: CloseChannelEndResult::InvalidChannel }),
                Some(ch) => {
                    let st = match req.end {
                        ChannelEnd::Sender => ch.sender,
                        ChannelEnd::Receiver => ch.receiver,
                    };
                    match st {
                        End::Closed => eff.must(c, CloseChannelEndReply { serial: req.serial, result: CloseChannelEndResult::InvalidChannel }),
                        End::Claimed(o) if o != c => {
                            eff.must(c, CloseChannelEndReply { serial: req.serial, result: CloseChannelEndResult::ForeignChannel });
                            eff.note("foreign-access");
                        }
                        _ => {
                            eff.must(c, CloseChannelEndReply { serial: req.serial, result: CloseChannelEndResult::Ok });
                            self.close_end(&mut eff, req.cookie.0, req.end);
                            eff.note("channel:end-closed");
                        }
                    }
                }
            },

            Message::ClaimChannelEnd(req) => match self.chans.get_mut(&req.cookie.0) {
                None => eff.must(c, ClaimChannelEndReply { serial: req.serial, result: ClaimChannelEndResult::InvalidChannel }),
                Some(ch) => {
                    let (st, other) = match req.end {
                        ChannelEndWithCapacity::Sender => (ch.sender, ch.receiver),
                        ChannelEndWithCapacity::Receiver(_) => (ch.receiver, ch.sender),
                    };
                    match st {
                        End::Claimed(_) => {
                            eff.must(c, ClaimChannelEndReply { serial: req.serial, result: ClaimChannelEndResult::AlreadyClaimed });
                            eff.note("claim:already-claimed");
                        }
                        End::Closed => eff.must(c, ClaimChannelEndReply { serial: req.serial, result: ClaimChannelEndResult::InvalidChannel }),
                        End::Unclaimed => {
                            let End::Claimed(o) = other else {
                                eff.problems.push("model: unclaimed end with unclaimed/closed peer".into());
                                return eff;
                            };
                            match req.end {
                                ChannelEndWithCapacity::Sender => {
                                    ch.sender = End::Claimed(c);
                                    ch.announced = ch.granted as i64;
                                    let cap = ch.granted as u32;
                                    eff.must(c, ClaimChannelEndReply { serial: req.serial, result: ClaimChannelEndResult::SenderClaimed(cap) });
                                }
                                ChannelEndWithCapacity::Receiver(cap) => {
                                    ch.receiver = End::Claimed(c);
                                    ch.granted = cap as u64;
                                    ch.announced = cap as i64;
                                    eff.must(c, ClaimChannelEndReply { serial: req.serial, result: ClaimChannelEndResult::ReceiverClaimed });
                                }
                            }
                            if self.alive(o) {
                                eff.must(o, ChannelEndClaimed { cookie: req.cookie, end: req.end });
                            }
                            eff.note("claim:ok");
                        }
                    }
                }
            },

            Message::SendItem(req) => {
                let k = req.cookie.0;
                if let Some(ch) = self.chans.get_mut(&k) {
                    if ch.sender == End::Claimed(c) {
                        match ch.receiver {
                            End::Unclaimed => {
                                // the channel is not established: the sender loses it and learns
                                // that the receiving end is gone
                                self.chans.remove(&k);
                                eff.must(c, ChannelEndClosed { cookie: req.cookie, end: ChannelEnd::Receiver });
                                eff.note("send:receiver-unclaimed");
                            }
                            End::Closed => eff.note("send:receiver-closed"),
                            End::Claimed(r) => {
                                // The broker announces new credit as soon as the sender runs low, so
                                // (checked separately as "no credit deadlock") the sender is out of
                                // announced credit exactly when the receiver's grant is used up.
                                if ch.granted == 0 {
                                    // exceeded what was announced: only the sender's end is lost
                                    self.close_end(&mut eff, k, ChannelEnd::Sender);
                                    eff.note("send:exceeds-capacity");
                                } else {
                                    ch.announced -= 1;
                                    ch.granted -= 1;
                                    ch.items_forwarded += 1;
                                    let room = (ch.granted as i64 - ch.announced).max(0) as u64;
                                    if self.alive(r) {
                                        eff.must(r, ItemReceived { cookie: req.cookie, value: req.value.clone() });
                                    }
                                    if room > 0 {
                                        eff.out.entry(c).or_default().push(Exp::Announce { cookie: k, max: room });
                                    }
                                    eff.note("send:forwarded");
                                }
                            }
                        }
                    } else {
                        eff.note("send:not-the-sender");
                    }
                } else {
                    eff.note("send:unknown-channel");
                }
            }

            Message::AddChannelCapacity(req) => {
                let k = req.cookie.0;
                if req.capacity > 0 {
                    if let Some(ch) = self.chans.get_mut(&k) {
                        if ch.receiver == End::Claimed(c) {
                            if ch.granted + req.capacity as u64 > u32::MAX as u64 {
                                self.close_end(&mut eff, k, ChannelEnd::Receiver);
                                eff.note("capacity:overflow");
                            } else {
                                ch.granted += req.capacity as u64;
                                if let End::Claimed(s) = ch.sender {
                                    let room = (ch.granted as i64 - ch.announced).max(0) as u64;
                                    if room > 0 && self.alive(s) {
                                        eff.out.entry(s).or_default().push(Exp::Announce { cookie: k, max: room });
                                    }
                                }
                                eff.note("capacity:added");
                            }
                        }
                    }
                }
            }

            Message::Sync(req) => eff.must(c, SyncReply { serial: req.serial }),

            Message::CreateBusListener(req) => {
                let cookie = obs.take(c, |m| match m {
                    Message::CreateBusListenerReply(r) if r.serial == req.serial => Some(r.cookie.0),
                    _ => None,
                });
                match cookie {
                    Some(k) => {
                        self.fresh(&mut eff, k, "bus listener cookie");
                        eff.must(c, CreateBusListenerReply { serial: req.serial, cookie: BusListenerCookie(k) });
                        self.listeners.insert(k, MListener { owner: c, filters: BTreeSet::new(), scope: None });
                    }
                    None => eff.problems.push(format!("create-bus-listener serial {}: expected a reply with a new cookie", req.serial)),
                }
            }

            Message::DestroyBusListener(req) => {
                let ok = self.listeners.get(&req.cookie.0).map(|l| l.owner == c).unwrap_or(false);
                if ok {
                    self.listeners.remove(&req.cookie.0);
                    eff.must(c, DestroyBusListenerReply { serial: req.serial, result: DestroyBusListenerResult::Ok });
                } else {
                    eff.must(c, DestroyBusListenerReply { serial: req.serial, result: DestroyBusListenerResult::InvalidBusListener });
                }
            }

            Message::AddBusListenerFilter(req) => {
                if let Some(l) = self.listeners.get_mut(&req.cookie.0) {
                    if l.owner == c {
                        l.filters.insert(req.filter);
                    }
                }
            }

            Message::RemoveBusListenerFilter(req) => {
                if let Some(l) = self.listeners.get_mut(&req.cookie.0) {
                    if l.owner == c && l.filters.remove(&req.filter) {
                        eff.note("filter:removed");
                    }
                }
            }

            Message::ClearBusListenerFilters(req) => {
                if let Some(l) = self.listeners.get_mut(&req.cookie.0) {
                    if l.owner == c {
                        l.filters.clear();
                        eff.note("filter:cleared");
                    }
                }
            }

            Message::StartBusListener(req) => {
                let ok = self.listeners.get(&req.cookie.0).map(|l| l.owner == c).unwrap_or(false);
                if !ok {
                    eff.must(c, StartBusListenerReply { serial: req.serial, result: StartBusListenerResult::InvalidBusListener });
                } else if self.listeners[&req.cookie.0].scope.is_some() {
                    eff.must(c, StartBusListenerReply { serial: req.serial, result: StartBusListenerResult::AlreadyStarted });
                    eff.note("listener:already-started");
                } else {
                    self.listeners.get_mut(&req.cookie.0).unwrap().scope = Some(req.scope);
                    eff.must(c, StartBusListenerReply { serial: req.serial, result: StartBusListenerResult::Ok });
                    if req.scope != BusListenerScope::New {
                        let l = self.listeners[&req.cookie.0].clone();
                        let mut n = 0;
                        for (ou, o) in &self.objs {
                            let ev = BusEvent::ObjectCreated(oid(*ou, o.cookie));
                            if l.filters.iter().any(|f| filter_matches(f, &ev)) {
                                eff.must(c, EmitBusEvent { cookie: Some(req.cookie), event: ev });
                                n += 1;
                            }
                            for (su, s) in &o.services {
                                let ev = BusEvent::ServiceCreated(sid(*ou, o.cookie, *su, s.cookie));
                                if l.filters.iter().any(|f| filter_matches(f, &ev)) {
                                    eff.must(c, EmitBusEvent { cookie: Some(req.cookie), event: ev });
                                    n += 1;
                                }
                            }
                        }
                        eff.must(c, BusListenerCurrentFinished { cookie: req.cookie });
                        eff.note("listener:start-current");
                        if n >= 2 {
                            eff.note("listener:start-current>=2");
                        }
                    }
                }
            }

            Message::StopBusListener(req) => {
                let ok = self.listeners.get(&req.cookie.0).map(|l| l.owner == c).unwrap_or(false);
                if !ok {
                    eff.must(c, StopBusListenerReply { serial: req.serial, result: StopBusListenerResult::InvalidBusListener });
                } else if self.listeners.get_mut(&req.cookie.0).unwrap().scope.take().is_some() {
                    eff.must(c, StopBusListenerReply { serial: req.serial, result: StopBusListenerResult::Ok });
                } else {
                    eff.must(c, StopBusListenerReply { serial: req.serial, result: StopBusListenerResult::NotStarted });
                }
            }

            Message::RegisterIntrospection(req) => {
                if v < 17 {
                    self.violation(&mut eff, c);
                    eff.note("gated:register-introspection");
                } else {
                    match req.value.deserialize::<std::collections::HashSet<aldrin_core::TypeId>>() {
                        Ok(ids) => {
                            for t in ids {
                                self.intros.entry(t.0).or_default().providers.insert(c);
                            }
                            eff.note("introspection:registered");
                        }
                        Err(_) => {
                            self.violation(&mut eff, c);
                            eff.note("introspection:bad-registration");
                        }
                    }
                }
            }

            Message::QueryIntrospection(req) => {
                if v < 17 {
                    self.violation(&mut eff, c);
                    eff.note("gated:query-introspection");
                } else {
                    let t = req.type_id.0;
                    match self.intros.get_mut(&t) {
                        None => eff.must(c, QueryIntrospectionReply { serial: req.serial, result: QueryIntrospectionResult::Unavailable }),
                        Some(e) => {
                            if let Some(v) = &e.cached {
                                eff.must(c, QueryIntrospectionReply { serial: req.serial, result: QueryIntrospectionResult::Ok(v.clone()) });
                                eff.note("introspection:cached");
                            } else {
                                e.pending.push((c, req.serial));
                                if e.queried.is_none() {
                                    eff.out.entry(usize::MAX).or_default().push(Exp::Requery(t));
                                }
                                eff.note("introspection:pending");
                            }
                        }
                    }
                }
            }

            Message::QueryIntrospectionReply(req) => {
                if v < 17 {
                    self.violation(&mut eff, c);
                } else {
                    // the serial must be one the broker is waiting for, and from the asked provider
                    let t = self.intros.iter().find(|(_, e)| e.queried.map(|q| q.1) == Some(req.serial)).map(|(t, _)| *t);
                    match t {
                        None => {
                            self.violation(&mut eff, c);
                            eff.note("introspection:reply-unknown-serial");
                        }
                        Some(t) => {
                            let e = self.intros.get_mut(&t).unwrap();
                            if e.queried.map(|q| q.0) != Some(c) {
                                self.violation(&mut eff, c);
                                eff.note("introspection:reply-from-other");
                            } else {
                                e.queried = None;
                                match &req.result {
                                    QueryIntrospectionResult::Ok(val) => {
                                        e.cached = Some(val.clone());
                                        let pending = std::mem::take(&mut e.pending);
                                        for (pc, ps) in pending {
                                            if self.alive(pc) {
                                                eff.must(pc, QueryIntrospectionReply { serial: ps, result: QueryIntrospectionResult::Ok(val.clone()) });
                                            }
                                        }
                                        eff.note("introspection:answered");
                                    }
                                    QueryIntrospectionResult::Unavailable => {
                                        e.providers.remove(&c);
                                        // Queries that the answering provider itself has pending for
                                        // this type are dropped by the broker without an answer. No
                                        // listed property covers this corner (a connection asking for
                                        // a type it registered and then declaring it unavailable), so
                                        // the model follows the broker and leaves the answer open.
                                        let own: Vec<(C, u32)> = e.pending.iter().copied().filter(|p| p.0 == c).collect();
                                        e.pending.retain(|p| p.0 != c);
                                        for (_, ps) in own {
                                            eff.may(c, QueryIntrospectionReply { serial: ps, result: QueryIntrospectionResult::Unavailable });
                                            eff.note("introspection:own-pending-dropped");
                                        }
                                        if e.providers.is_empty() {
                                            let e = self.intros.remove(&t).unwrap();
                                            for (pc, ps) in e.pending {
                                                if self.alive(pc) {
                                                    eff.must(pc, QueryIntrospectionReply { serial: ps, result: QueryIntrospectionResult::Unavailable });
                                                }
                                            }
                                            eff.note("introspection:unavailable");
                                        } else {
                                            eff.out.entry(usize::MAX).or_default().push(Exp::Requery(t));
                                            eff.note("introspection:ask-next-provider");
                                        }
                                    }
                                }
                            }
                        }
                    }
                }
            }

            // everything else is a message a client must not send
            _ => {
                self.violation(&mut eff, c);
                eff.note("wrong-direction");
            }
        }
        self.resolve_requeries(&mut eff, obs);
        eff
    }

    fn seen_object_uuids_contains(&self, _u: Uuid) -> bool {
        false
    }

    fn create_service_precheck(&self, c: C, object_cookie: Uuid, su: Uuid) -> Option<CreateServiceResult> {
        match self.find_obj_by_cookie(object_cookie) {
            None => Some(CreateServiceResult::InvalidObject),
            Some(ou) => {
                let o = &self.objs[&ou];
                if o.services.contains_key(&su) {
                    Some(CreateServiceResult::DuplicateService)
                } else if o.owner != c {
                    Some(CreateServiceResult::ForeignObject)
                } else {
                    None
                }
            }
        }
    }

    fn create_service(&mut self, eff: &mut Effects, c: C, obs: &ObsView, serial: u32, object_cookie: Uuid, su: Uuid, info: ServiceInfo) {
        if let Some(result) = self.create_service_precheck(c, object_cookie, su) {
            // duplicate *and* foreign: the property does not rank the two answers
            let both = matches!(result, CreateServiceResult::DuplicateService)
                && self.find_obj_by_cookie(object_cookie).map(|ou| self.objs[&ou].owner != c).unwrap_or(false);
            if both {
                eff.out.entry(c).or_default().push(Exp::Either(
                    CreateServiceReply { serial, result: CreateServiceResult::DuplicateService }.into(),
                    CreateServiceReply { serial, result: CreateServiceResult::ForeignObject }.into(),
                ));
                eff.note("foreign-access");
                return;
            }
            if matches!(result, CreateServiceResult::ForeignObject) {
                eff.note("foreign-access");
            }
            eff.must(c, CreateServiceReply { serial, result });
            return;
        }
        let cookie = obs.take(c, |m| match m {
            Message::CreateServiceReply(CreateServiceReply { serial: s, result: CreateServiceResult::Ok(k) }) if *s == serial => Some(k.0),
            _ => None,
        });
        let Some(k) = cookie else {
            eff.problems.push(format!("create-service serial {}: expected an ok reply with a new cookie", serial));
            return;
        };
        self.fresh(eff, k, "service cookie");
        eff.must(c, CreateServiceReply { serial, result: CreateServiceResult::Ok(ServiceCookie(k)) });
        let ou = self.find_obj_by_cookie(object_cookie).unwrap();
        let oc = self.objs[&ou].cookie;
        self.objs.get_mut(&ou).unwrap().services.insert(
            su,
            MSvc {
                cookie: k,
                version: info.version(),
                type_id: info.type_id().map(|t| t.0),
                subscribe_all: info.subscribe_all(),
                ev_subs: BTreeMap::new(),
                all_subs: BTreeSet::new(),
                svc_subs: BTreeSet::new(),
            },
        );
        self.emit_bus_event(eff, BusEvent::ServiceCreated(sid(ou, oc, su, k)));
    }

    #[allow(clippy::too_many_arguments)]
    fn call(&mut self, eff: &mut Effects, c: C, obs: &ObsView, serial: u32, svc_cookie: Uuid, function: u32, version: Option<u32>, value: &SerializedValue) {
        let Some((o, _, _, _)) = self.svc(svc_cookie) else {
            eff.must(c, CallFunctionReply { serial, result: CallFunctionResult::InvalidService });
            eff.note("call:invalid-service");
            return;
        };
        let callee = o.owner;
        if self.calls.iter().any(|k| k.caller == c && k.caller_serial == serial && k.caller_waiting) {
            // serial reuse while the first call is pending
            self.violation(eff, c);
            eff.note("call:serial-reuse-while-pending");
            return;
        }
        // the callee-side serial is the broker's choice: take it from the observed forward
        let used: BTreeSet<u32> = self.calls.iter().map(|k| k.callee_serial).collect();
        let callee_v = self.minor(callee);
        let want_value = crate::engine::payload_key(value);
        let found = obs.take(callee, |m| match m {
            Message::CallFunction(f) if callee_v < 19 && f.service_cookie.0 == svc_cookie && f.function == function && !used.contains(&f.serial) && crate::engine::payload_key(&f.value) == want_value => Some(f.serial),
            Message::CallFunction2(f) if callee_v >= 19 && f.service_cookie.0 == svc_cookie && f.function == function && f.version == version && !used.contains(&f.serial) && crate::engine::payload_key(&f.value) == want_value => Some(f.serial),
            _ => None,
        });
        let found = match found {
            Some(cs) => Some(cs),
            // the forward cannot be seen on a connection whose task is gone: any unused serial
            None if self.unobservable.contains(&callee) => (0..=u32::MAX).find(|s| !used.contains(s)),
            None => None,
        };
        let Some(cs) = found else {
            eff.problems.push(format!(
                "call serial {} to service {}: expected the call to be forwarded to its owner as {} with a callee-side serial not in use",
                serial,
                svc_cookie,
                if callee_v >= 19 { "CallFunction2" } else { "CallFunction" }
            ));
            return;
        };
        if self.tainted_callee_serials.contains(&(callee, cs)) && !self.unobservable.contains(&callee) {
            eff.problems.push(format!(
                "call serial {} to service {} was forwarded with callee-side serial {}, which an earlier call to the same connection carried that ended without the callee's reply (its service was destroyed): a late reply to that call would now be delivered to this caller",
                serial, svc_cookie, cs
            ));
            eff.note("call:tainted-callee-serial-reused");
        }
        if callee_v >= 19 {
            eff.must(callee, CallFunction2 { serial: cs, service_cookie: ServiceCookie(svc_cookie), function, version, value: value.clone() });
        } else {
            if self.minor(c) >= 19 {
                eff.note("version:call-to-pre-1.19-callee");
            }
            eff.must(callee, CallFunction { serial: cs, service_cookie: ServiceCookie(svc_cookie), function, value: value.clone() });
        }
        if self.calls.len() >= 1 {
            eff.note("call:with-others-pending");
        }
        self.calls.push(MCall { caller: c, caller_serial: serial, callee, callee_serial: cs, svc_cookie, aborted: false, caller_waiting: true });
        eff.note("call:forwarded");
    }

    /// Counts for the statistics gauges.
    pub fn num_introspections(&self) -> usize {
        self.intros.len()
    }

    pub fn gauges(&self) -> (usize, usize, usize, usize, usize) {
        let conns = self.conns.values().filter(|c| c.alive).count();
        let objs = self.objs.len();
        let svcs = self.objs.values().map(|o| o.services.len()).sum();
        (conns, objs, svcs, self.chans.len(), self.listeners.len())
    }
}
