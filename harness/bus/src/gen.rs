//! Tape-driven generation of protocol histories over deliberately tiny id pools.

use crate::engine::World;
use crate::model::{End, C};
use crate::refcodec::encode;
use crate::vgen::{EpochPolicy, Gen, GenCfg};
use aldrin_core::message::*;
use aldrin_core::{
    BusListenerCookie, BusListenerFilter, BusListenerScope, ChannelCookie, ChannelEnd,
    ChannelEndWithCapacity, ObjectCookie, ObjectUuid, SerializedValue, ServiceCookie, ServiceInfo,
    ServiceUuid, TypeId,
};
use bytes::BytesMut;
use uuid::Uuid;
use vcommon::Tape;

#[derive(Clone, Copy, Debug, PartialEq, Eq, PartialOrd, Ord)]
pub enum Op {
    CreateObject,
    DestroyObject,
    CreateService,
    CreateService2,
    DestroyService,
    Call,
    Reply,
    Abort,
    SubEvent,
    UnsubEvent,
    SubAll,
    UnsubAll,
    SubSvc,
    UnsubSvc,
    Emit,
    QueryVersion,
    QueryInfo,
    CreateChannel,
    ClaimEnd,
    CloseEnd,
    SendItem,
    AddCapacity,
    Sync,
    CreateListener,
    DestroyListener,
    AddFilter,
    RemoveFilter,
    ClearFilters,
    StartListener,
    StopListener,
    HangUp,
    ShutdownMsg,
    Connect,
    Introspection,
}

pub enum Action {
    Inject(C, Message),
    HangUp(C),
    Connect(u32, bool),
}

pub const OBJ_POOL: [u128; 3] = [0xA0, 0xA1, 0xA2];
pub const SVC_POOL: [u128; 3] = [0xB0, 0xB1, 0xB2];
pub const EVENTS: [u32; 3] = [0, 1, 7];
pub const SERIALS: [u32; 7] = [0, 1, 2, 3, 4, 255, u32::MAX];
pub const CAPS: [u32; 9] = [0, 1, 3, 4, 5, 6, 16, u32::MAX - 1, u32::MAX];

pub fn sv_from_bytes(b: &[u8]) -> SerializedValue {
    let total = 4 + 1 + 4 + b.len() + 16;
    let mut f = Vec::with_capacity(total);
    f.extend_from_slice(&(total as u32).to_le_bytes());
    f.push(27);
    f.extend_from_slice(&(b.len() as u32).to_le_bytes());
    f.extend_from_slice(b);
    f.extend_from_slice(&[0u8; 16]);
    SendItem::deserialize_message(BytesMut::from(&f[..])).expect("frame").value
}

/// A small well-formed payload in the container epoch the sender's version implies.
pub fn payload(t: &mut Tape, sender_minor: u32) -> SerializedValue {
    let policy = if sender_minor >= 20 {
        if t.bool() {
            EpochPolicy::V2
        } else {
            EpochPolicy::Mixed
        }
    } else {
        EpochPolicy::V1
    };
    let mut cfg = GenCfg::canonical(policy);
    cfg.big = false;
    cfg.max_nodes = 12;
    // mostly shallow; sometimes a chain of many nesting steps (conversion between epochs has its
    // own depth accounting)
    let tree = if t.chance(20) {
        let d = t.range(8, 32) as u32;
        cfg.max_depth = 32;
        Gen::new(t, cfg).depth_chain(d)
    } else {
        let dl = t.range(1, 4) as u32;
        Gen::new(t, cfg).value(dl)
    };
    sv_from_bytes(&encode(&tree))
}

fn pick_conn(t: &mut Tape, w: &World) -> Option<C> {
    let alive: Vec<C> = w.model.conns.iter().filter(|(_, c)| c.alive).map(|(i, _)| *i).collect();
    if alive.is_empty() {
        return None;
    }
    Some(*t.pick(&alive))
}

/// Picks from the live set mostly, sometimes from cookies that were issued and are dead by now
/// (or belong to another kind of entity), sometimes a never-issued one.
fn pick_cookie(t: &mut Tape, w: &World, live: &[Uuid]) -> Uuid {
    match t.weighted(&[if live.is_empty() { 0 } else { 80 }, 12, 8]) {
        0 => *t.pick(live),
        1 => {
            let all: Vec<Uuid> = w.model.seen_cookies.iter().copied().collect();
            if all.is_empty() {
                Uuid::from_u128(0xDEAD)
            } else {
                *t.pick(&all)
            }
        }
        _ => Uuid::from_u128(0xDEAD_0000 + t.u8() as u128),
    }
}

/// A service cookie: mostly a live one, otherwise one of a service that is gone, any cookie seen in
/// this case, or one that was never issued.
fn pick_svc_cookie(t: &mut Tape, w: &World) -> Uuid {
    let live = live_svcs(w);
    let dead = &w.model.dead_svcs;
    match t.weighted(&[if live.is_empty() { 0 } else { 72 }, if dead.is_empty() { 0 } else { 14 }, 7, 7]) {
        0 => *t.pick(&live),
        1 => *t.pick(dead),
        2 => {
            let all: Vec<Uuid> = w.model.seen_cookies.iter().copied().collect();
            if all.is_empty() {
                Uuid::from_u128(0xDEAD)
            } else {
                *t.pick(&all)
            }
        }
        _ => Uuid::from_u128(0xDEAD_0000 + t.u8() as u128),
    }
}

fn live_objs(w: &World) -> Vec<Uuid> {
    w.model.objs.values().map(|o| o.cookie).collect()
}

fn live_svcs(w: &World) -> Vec<Uuid> {
    w.model.objs.values().flat_map(|o| o.services.values().map(|s| s.cookie)).collect()
}

fn own_first(t: &mut Tape, mine: Vec<Uuid>, all: Vec<Uuid>) -> Vec<Uuid> {
    // three quarters of the time restrict to the connection's own entities (if any)
    if !mine.is_empty() && t.weighted(&[3, 1]) == 0 {
        mine
    } else {
        all
    }
}

pub fn filter(t: &mut Tape) -> BusListenerFilter {
    let o = ObjectUuid(Uuid::from_u128(*t.pick(&OBJ_POOL)));
    let s = ServiceUuid(Uuid::from_u128(*t.pick(&SVC_POOL)));
    match t.below(6) {
        0 => BusListenerFilter::any_object(),
        1 => BusListenerFilter::object(o),
        2 => BusListenerFilter::any_object_any_service(),
        3 => BusListenerFilter::specific_object_any_service(o),
        4 => BusListenerFilter::any_object_specific_service(s),
        _ => BusListenerFilter::specific_object_and_service(o, s),
    }
}

/// Builds the next action of a history. `weights` selects the operation mix.
pub fn next_action(t: &mut Tape, w: &World, weights: &[(Op, u32)]) -> Option<Action> {
    let ws: Vec<u32> = weights.iter().map(|x| x.1).collect();
    let op = weights[t.weighted(&ws)].0;
    if op == Op::Connect {
        let minor = *t.pick(&[14u32, 15, 16, 17, 18, 19, 20, 20, 20, 21]);
        let legacy = minor == 14 && t.bool();
        return Some(Action::Connect(minor, legacy));
    }
    let c = pick_conn(t, w)?;
    let v = w.model.conns[&c].minor;
    let serial = *t.pick(&SERIALS);
    let msg: Message = match op {
        Op::Connect => unreachable!(),
        Op::HangUp => return Some(Action::HangUp(c)),
        Op::ShutdownMsg => Message::Shutdown(Shutdown),
        Op::Sync => Message::Sync(Sync { serial }),
        Op::CreateObject => Message::CreateObject(CreateObject { serial, uuid: ObjectUuid(Uuid::from_u128(*t.pick(&OBJ_POOL))) }),
        Op::DestroyObject => {
            let mine: Vec<Uuid> = w.model.objs.values().filter(|o| o.owner == c).map(|o| o.cookie).collect();
            let live = own_first(t, mine, live_objs(w));
            Message::DestroyObject(DestroyObject { serial, cookie: ObjectCookie(pick_cookie(t, w, &live)) })
        }
        Op::CreateService | Op::CreateService2 => {
            let mine: Vec<Uuid> = w.model.objs.values().filter(|o| o.owner == c).map(|o| o.cookie).collect();
            let live = own_first(t, mine, live_objs(w));
            let object_cookie = ObjectCookie(pick_cookie(t, w, &live));
            let uuid = ServiceUuid(Uuid::from_u128(*t.pick(&SVC_POOL)));
            let version = t.below(4) as u32;
            if op == Op::CreateService2 {
                let mut info = ServiceInfo::new(version);
                if t.bool() {
                    info = info.set_subscribe_all(t.weighted(&[1, 3]) == 1);
                }
                if t.chance(60) {
                    info = info.set_type_id(TypeId(Uuid::from_u128(0x7171)));
                }
                let value = if t.chance(10) { payload(t, v) } else { SerializedValue::serialize(info).unwrap() };
                Message::CreateService2(CreateService2 { serial, object_cookie, uuid, value })
            } else {
                Message::CreateService(CreateService { serial, object_cookie, uuid, version })
            }
        }
        Op::DestroyService => {
            let mine: Vec<Uuid> = w.model.objs.values().filter(|o| o.owner == c).flat_map(|o| o.services.values().map(|s| s.cookie)).collect();
            let live = own_first(t, mine, live_svcs(w));
            Message::DestroyService(DestroyService { serial, cookie: ServiceCookie(pick_cookie(t, w, &live)) })
        }
        Op::Call => {
            let service_cookie = ServiceCookie(pick_svc_cookie(t, w));
            let function = t.below(2) as u32;
            let value = payload(t, v);
            if t.bool() {
                Message::CallFunction2(CallFunction2 { serial, service_cookie, function, version: if t.bool() { Some(t.below(3) as u32) } else { None }, value })
            } else {
                Message::CallFunction(CallFunction { serial, service_cookie, function, value })
            }
        }
        Op::Reply => {
            // mostly the owner answers a pending call
            let pend: Vec<(u32, C)> = w.model.calls.iter().map(|k| (k.callee_serial, k.callee)).collect();
            let (s, from) = if !pend.is_empty() && t.chance(230) {
                let (s, owner) = *t.pick(&pend);
                (s, if t.chance(215) { owner } else { c })
            } else {
                (*t.pick(&SERIALS), c)
            };
            if !w.model.conns.get(&from).map(|x| x.alive).unwrap_or(false) {
                return None;
            }
            let fv = w.model.conns[&from].minor;
            let result = match t.below(6) {
                0 | 1 => CallFunctionResult::Ok(payload(t, fv)),
                2 => CallFunctionResult::Err(payload(t, fv)),
                3 => CallFunctionResult::Aborted,
                4 => CallFunctionResult::InvalidFunction,
                _ => CallFunctionResult::InvalidArgs,
            };
            return Some(Action::Inject(from, Message::CallFunctionReply(CallFunctionReply { serial: s, result })));
        }
        Op::Abort => {
            let mine: Vec<u32> = w.model.calls.iter().filter(|k| k.caller == c && k.caller_waiting).map(|k| k.caller_serial).collect();
            let s = if !mine.is_empty() && t.chance(220) { *t.pick(&mine) } else { serial };
            Message::AbortFunctionCall(AbortFunctionCall { serial: s })
        }
        Op::SubEvent => Message::SubscribeEvent(SubscribeEvent {
            serial: if t.chance(8) { None } else { Some(serial) },
            service_cookie: ServiceCookie(pick_svc_cookie(t, w)),
            event: *t.pick(&EVENTS),
        }),
        Op::UnsubEvent => Message::UnsubscribeEvent(UnsubscribeEvent { service_cookie: ServiceCookie(pick_svc_cookie(t, w)), event: *t.pick(&EVENTS) }),
        Op::SubAll => Message::SubscribeAllEvents(SubscribeAllEvents {
            serial: if t.chance(8) { None } else { Some(serial) },
            service_cookie: ServiceCookie(pick_svc_cookie(t, w)),
        }),
        Op::UnsubAll => Message::UnsubscribeAllEvents(UnsubscribeAllEvents {
            serial: if t.bool() { None } else { Some(serial) },
            service_cookie: ServiceCookie(pick_svc_cookie(t, w)),
        }),
        Op::SubSvc => Message::SubscribeService(SubscribeService { serial, service_cookie: ServiceCookie(pick_svc_cookie(t, w)) }),
        Op::UnsubSvc => Message::UnsubscribeService(UnsubscribeService { service_cookie: ServiceCookie(pick_svc_cookie(t, w)) }),
        Op::Emit => {
            let mine: Vec<Uuid> = w.model.objs.values().filter(|o| o.owner == c).flat_map(|o| o.services.values().map(|s| s.cookie)).collect();
            let live = own_first(t, mine, live_svcs(w));
            Message::EmitEvent(EmitEvent { service_cookie: ServiceCookie(pick_cookie(t, w, &live)), event: *t.pick(&EVENTS), value: payload(t, v) })
        }
        Op::QueryVersion => Message::QueryServiceVersion(QueryServiceVersion { serial, cookie: ServiceCookie(pick_svc_cookie(t, w)) }),
        Op::QueryInfo => Message::QueryServiceInfo(QueryServiceInfo { serial, cookie: ServiceCookie(pick_svc_cookie(t, w)) }),
        Op::CreateChannel => Message::CreateChannel(CreateChannel {
            serial,
            end: if t.bool() { ChannelEndWithCapacity::Sender } else { ChannelEndWithCapacity::Receiver(*t.pick(&CAPS)) },
        }),
        Op::ClaimEnd => {
            // prefer the unclaimed end of a live channel
            let open: Vec<(Uuid, bool)> = w
                .model
                .chans
                .iter()
                .filter_map(|(k, ch)| {
                    if ch.sender == End::Unclaimed {
                        Some((*k, true))
                    } else if ch.receiver == End::Unclaimed {
                        Some((*k, false))
                    } else {
                        None
                    }
                })
                .collect();
            let all: Vec<Uuid> = w.model.chans.keys().copied().collect();
            let (cookie, sender) = if !open.is_empty() && t.chance(200) {
                let (k, s) = *t.pick(&open);
                (k, if t.chance(230) { s } else { !s })
            } else {
                (pick_cookie(t, w, &all), t.bool())
            };
            Message::ClaimChannelEnd(ClaimChannelEnd {
                serial,
                cookie: ChannelCookie(cookie),
                end: if sender { ChannelEndWithCapacity::Sender } else { ChannelEndWithCapacity::Receiver(*t.pick(&CAPS)) },
            })
        }
        Op::CloseEnd => {
            let all: Vec<Uuid> = w.model.chans.keys().copied().collect();
            let mine: Vec<(Uuid, bool)> = w
                .model
                .chans
                .iter()
                .flat_map(|(k, ch)| {
                    let mut v = vec![];
                    if ch.sender == End::Claimed(c) {
                        v.push((*k, true));
                    }
                    if ch.receiver == End::Claimed(c) {
                        v.push((*k, false));
                    }
                    v
                })
                .collect();
            let (cookie, sender) = if !mine.is_empty() && t.chance(170) { *t.pick(&mine) } else { (pick_cookie(t, w, &all), t.bool()) };
            Message::CloseChannelEnd(CloseChannelEnd { serial, cookie: ChannelCookie(cookie), end: if sender { ChannelEnd::Sender } else { ChannelEnd::Receiver } })
        }
        Op::SendItem => {
            let mine: Vec<Uuid> = w.model.chans.iter().filter(|(_, ch)| ch.sender == End::Claimed(c)).map(|(k, _)| *k).collect();
            let all: Vec<Uuid> = w.model.chans.keys().copied().collect();
            let live = if !mine.is_empty() && t.chance(235) { mine } else { all };
            Message::SendItem(SendItem { cookie: ChannelCookie(pick_cookie(t, w, &live)), value: payload(t, v) })
        }
        Op::AddCapacity => {
            let mine: Vec<Uuid> = w.model.chans.iter().filter(|(_, ch)| ch.receiver == End::Claimed(c)).map(|(k, _)| *k).collect();
            let all: Vec<Uuid> = w.model.chans.keys().copied().collect();
            let live = if !mine.is_empty() && t.chance(235) { mine } else { all };
            let capacity = match t.below(5) {
                0 => 0,
                1 => 1,
                2 => t.range(2, 8) as u32,
                3 => 16,
                _ => *t.pick(&[u32::MAX, u32::MAX - 1, u32::MAX - 5, 1 << 31]),
            };
            Message::AddChannelCapacity(AddChannelCapacity { cookie: ChannelCookie(pick_cookie(t, w, &live)), capacity })
        }
        Op::CreateListener => Message::CreateBusListener(CreateBusListener { serial }),
        Op::DestroyListener | Op::AddFilter | Op::RemoveFilter | Op::ClearFilters | Op::StartListener | Op::StopListener => {
            let mine: Vec<Uuid> = w.model.listeners.iter().filter(|(_, l)| l.owner == c).map(|(k, _)| *k).collect();
            let all: Vec<Uuid> = w.model.listeners.keys().copied().collect();
            let live = if !mine.is_empty() && t.chance(235) { mine } else { all };
            let cookie = BusListenerCookie(pick_cookie(t, w, &live));
            match op {
                Op::DestroyListener => Message::DestroyBusListener(DestroyBusListener { serial, cookie }),
                Op::AddFilter => Message::AddBusListenerFilter(AddBusListenerFilter { cookie, filter: filter(t) }),
                Op::RemoveFilter => {
                    // mostly remove a filter that is present
                    let present: Vec<BusListenerFilter> = w.model.listeners.get(&cookie.0).map(|l| l.filters.iter().copied().collect()).unwrap_or_default();
                    let f = if !present.is_empty() && t.chance(190) { *t.pick(&present) } else { filter(t) };
                    Message::RemoveBusListenerFilter(RemoveBusListenerFilter { cookie, filter: f })
                }
                Op::ClearFilters => Message::ClearBusListenerFilters(ClearBusListenerFilters { cookie }),
                Op::StartListener => Message::StartBusListener(StartBusListener {
                    serial,
                    cookie,
                    scope: *t.pick(&[BusListenerScope::Current, BusListenerScope::New, BusListenerScope::All, BusListenerScope::All]),
                }),
                _ => Message::StopBusListener(StopBusListener { serial, cookie }),
            }
        }
        Op::Introspection => {
            const TYPES: [u128; 2] = [0x7171, 0x7272];
            match t.weighted(&[3, 4, 4]) {
                0 => {
                    let mut set = std::collections::HashSet::new();
                    set.insert(TypeId(Uuid::from_u128(*t.pick(&TYPES))));
                    if t.bool() {
                        set.insert(TypeId(Uuid::from_u128(*t.pick(&TYPES))));
                    }
                    let value = if t.chance(12) { payload(t, v) } else { SerializedValue::serialize(&set).unwrap() };
                    Message::RegisterIntrospection(RegisterIntrospection { value })
                }
                1 => Message::QueryIntrospection(QueryIntrospection { serial, type_id: TypeId(Uuid::from_u128(*t.pick(&TYPES))) }),
                _ => {
                    // mostly the asked provider answers the outstanding query
                    let out: Vec<(C, u32)> = w.model.intros.values().filter_map(|e| e.queried).collect();
                    let (from, s) = if !out.is_empty() && t.chance(225) {
                        let (p, s) = *t.pick(&out);
                        (if t.chance(230) { p } else { c }, s)
                    } else {
                        (c, serial)
                    };
                    if !w.model.conns.get(&from).map(|x| x.alive).unwrap_or(false) {
                        return None;
                    }
                    let fv = w.model.conns[&from].minor;
                    let result = if t.weighted(&[2, 1]) == 0 { QueryIntrospectionResult::Ok(payload(t, fv)) } else { QueryIntrospectionResult::Unavailable };
                    return Some(Action::Inject(from, Message::QueryIntrospectionReply(QueryIntrospectionReply { serial: s, result })));
                }
            }
        }
    };
    Some(Action::Inject(c, msg))
}
