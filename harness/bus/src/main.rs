#![allow(dead_code)]
mod c09;
mod c11;
mod c12;
mod checks;
mod engine;
mod gen;
mod model;
#[path = "../../codec/src/refcodec.rs"]
mod refcodec;
#[path = "../../codec/src/refmsg.rs"]
mod refmsg;
#[path = "../../codec/src/vgen.rs"]
mod vgen;

mod glue {
    pub use crate::gen::sv_from_bytes;
}

fn main() {
    vcommon::main(&[&checks::C02, &checks::C03, &checks::C04, &checks::C05, &checks::C10, &c09::DEF, &c11::DEF, &c12::DEF])
}
