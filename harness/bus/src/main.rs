#![allow(dead_code)]
use aldrin_core::message::*;
use aldrin_core::ObjectUuid;
use simbus::peer::{Bus, ConnectAs};
use simbus::{Policy, Sim};

fn smoke(det: u64) -> String {
    vcommon::with_det_seed(det, 1 << 22, move || {
        let mut bus = Bus::new(Sim::new(1, Policy::Random));
        let mut a = bus.connect("a", ConnectAs::New(1, 20), 10_000);
        let mut b = bus.connect("b", ConnectAs::Legacy(14), 10_000);
        let ra = a.peer.drain();
        let rb = b.peer.drain();
        a.peer.send(Message::CreateObject(CreateObject { serial: 1, uuid: ObjectUuid(uuid::Uuid::from_u128(7)) }));
        let r = bus.sim.run(10_000);
        let ra2 = a.peer.drain();
        format!("{:?}\n{:?}\n{:?}\n{:?}", ra, rb, ra2, r)
    })
    .unwrap()
}

fn main() {
    vcommon::install_panic_hook();
    let x = smoke(5);
    let y = smoke(5);
    let z = smoke(6);
    println!("{}", x);
    println!("same seed equal: {}", x == y);
    println!("other seed differs: {}", x != z);
}
