fn main() {
    vcommon::main(&bus::defs())
}
