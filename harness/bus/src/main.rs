#![allow(dead_code)]
mod c09;
mod checks;
mod engine;
mod gen;
mod model;
#[path = "../../codec/src/refcodec.rs"]
mod refcodec;
#[path = "../../codec/src/vgen.rs"]
mod vgen;

fn main() {
    vcommon::main(&[&checks::C02, &checks::C03, &checks::C04, &checks::C05, &checks::C10, &c09::DEF])
}
