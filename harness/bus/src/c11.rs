//! C11 Broker survives arbitrary message sequences and keeps serving others.

use crate::engine::{kind_name, Fail, World};
use crate::gen::{next_action, payload, sv_from_bytes, Action, Op, SERIALS};
#[allow(unused_imports)]
use crate::gen::sv_from_bytes as _sv;
use crate::model::{Effects, C};
use crate::refmsg::{build, RMsg, F, LAYOUTS, RF};
use crate::refcodec::VarInt;
use crate::vgen::mutate;
use aldrin_core::message::*;
use aldrin_core::ObjectUuid;
use simbus::Policy;
use std::collections::BTreeSet;
use uuid::Uuid;
use vcommon::{fingerprint, CheckDef, ClassPlan, Outcome, PassInfo, Tape, Tier};

const STACK: usize = 8 << 20;

static W_PROBE: &[(Op, u32)] = &[
    (Op::CreateObject, 10),
    (Op::CreateService, 8),
    (Op::CreateService2, 4),
    (Op::Call, 10),
    (Op::Reply, 8),
    (Op::SubEvent, 6),
    (Op::SubAll, 2),
    (Op::Emit, 4),
    (Op::CreateChannel, 8),
    (Op::ClaimEnd, 6),
    (Op::SendItem, 5),
    (Op::AddCapacity, 2),
    (Op::CreateListener, 4),
    (Op::AddFilter, 4),
    (Op::StartListener, 4),
    (Op::Sync, 2),
    (Op::Introspection, 5),
];

pub static DEF: CheckDef = CheckDef {
    id: "C11",
    level: "exploration",
    rule: "Histories (<= 70 steps): 1-2 well-behaved probe connections (any version) build up state (objects, services, pending calls, claimed channel ends, started listeners) while 1-3 abusers of any version send arbitrary messages: any of the 63 kinds (incl. wrong direction and handshake messages) with cookies/serials drawn from live pools (issued in this history to ANY connection), stale pools and never-issued values, payloads well-formed or garbage, interleaved with connects and disconnects. After every step: no panic in any task, quiescence within the step bound, and every connection other than the sender of the step must have received exactly what the protocol model says for one of the three permitted outcomes for the sender (request handled as the protocol says / ignored / sender closed = effects of a peer disconnect); no other connection may be closed. At the end each probe is still served (Sync and CreateObject answered as the model says). Non-trivial: >= 1 abusive message referenced a live foreign cookie or serial while a probe held state. Distinct = distinct concrete history.",
    assumptions: &[
        "busmodel restates the protocol; what the abusive sender itself receives and whether it is closed is not judged",
        "broker built without its 'introspection' feature",
        "ill-formed payloads from a 1.20 sender are kept away from pre-1.20 receivers in the main class (known finding, see known_findings.json); a dedicated class re-finds it on every run",
    ],
    plan,
    case,
    render,
    crashy: false,
    floors: &[("abuse:live-foreign-id", 0.4), ("abuse:wrong-direction", 0.3), ("abuse:garbage-payload", 0.2), ("probe-has-state", 0.6), ("outcome:as-protocol", 0.8)],
    extra: None,
    extra_coverage: None,
};

fn plan(t: Tier) -> Vec<ClassPlan> {
    let k = match t {
        Tier::Quick => 1,
        Tier::Thorough => 20,
    };
    vec![
        ClassPlan { class: "abuse", cases: 40_000 * k, min_len: 24, max_len: 1400 },
        ClassPlan { class: "garbage-to-older-peer", cases: 400 * k, min_len: 24, max_len: 600 },
    ]
}

fn case(class: &str, tape: &[u8], strict: bool) -> Outcome {
    let tape = tape.to_vec();
    let class = class.to_string();
    let det = Tape::new(&tape).u32() as u64;
    match vcommon::with_det_seed(det, STACK, move || history(&class, &tape, strict).0) {
        Ok(o) => o,
        Err(_) => {
            let pn = vcommon::last_panic_any_thread();
            Outcome::fail(format!("harness-panic:{}", pn.location()), format!("case thread panicked: {}", pn.0))
        }
    }
}

fn render(class: &str, tape: &[u8]) -> String {
    let tape = tape.to_vec();
    let class = class.to_string();
    let det = Tape::new(&tape).u32() as u64;
    vcommon::with_det_seed(det, STACK, move || history(&class, &tape, false).1).unwrap_or_else(|_| "<render panicked>".into())
}

/// All ids that are meaningful right now, of any kind and any owner.
fn live_ids(w: &World) -> Vec<Uuid> {
    let mut v: Vec<Uuid> = vec![];
    for (ou, o) in &w.model.objs {
        v.push(*ou);
        v.push(o.cookie);
        for (su, s) in &o.services {
            v.push(*su);
            v.push(s.cookie);
        }
    }
    v.extend(w.model.chans.keys());
    v.extend(w.model.listeners.keys());
    v
}

fn live_serials(w: &World) -> Vec<u32> {
    let mut v: Vec<u32> = vec![];
    for k in &w.model.calls {
        v.push(k.callee_serial);
        v.push(k.caller_serial);
    }
    v
}

struct Abuse {
    msg: Message,
    live_foreign: bool,
    wrong_direction: bool,
    garbage: bool,
}

fn abuse_fields(t: &mut Tape, w: &World, fs: &[F], used_live: &mut bool) -> Vec<RF> {
    fs.iter()
        .map(|f| match f {
            F::V => {
                let ls = live_serials(w);
                let raw = match t.below(4) {
                    0 if !ls.is_empty() => {
                        *used_live = true;
                        *t.pick(&ls)
                    }
                    1 => *t.pick(&SERIALS),
                    2 => t.below(8) as u32,
                    _ => t.u32(),
                };
                RF::V(VarInt::canonical(raw as u64, 4))
            }
            F::U => {
                let ids = live_ids(w);
                let u = match t.weighted(&[if ids.is_empty() { 0 } else { 60 }, 15, 10, 15]) {
                    0 => {
                        *used_live = true;
                        *t.pick(&ids)
                    }
                    1 => {
                        let all: Vec<Uuid> = w.model.seen_cookies.iter().copied().collect();
                        if all.is_empty() {
                            Uuid::nil()
                        } else {
                            *t.pick(&all)
                        }
                    }
                    2 => Uuid::from_u128(*t.pick(&crate::gen::OBJ_POOL)),
                    _ => Uuid::from_u128(0xBAD0_0000 + t.u8() as u128),
                };
                RF::U(*u.as_bytes())
            }
            F::Alt(alts) => {
                let d = t.below(alts.len());
                RF::Alt(d as u8, abuse_fields(t, w, alts[d], used_live))
            }
        })
        .collect()
}

fn abuse_message(t: &mut Tape, w: &World, c: C, allow_garbage: bool) -> Abuse {
    let v = w.model.conns[&c].minor;
    // two thirds: kinds a client may send (deep state), one third: anything
    const CLIENT_KINDS: [u8; 34] = [2, 3, 5, 7, 9, 11, 12, 13, 15, 16, 17, 19, 21, 24, 27, 29, 30, 33, 35, 37, 38, 39, 40, 42, 48, 49, 50, 51, 52, 53, 55, 57, 58, 60];
    let kind = if t.weighted(&[2, 1]) == 0 { *t.pick(&CLIENT_KINDS) } else { t.below(63) as u8 };
    let kind = if kind == 2 && t.chance(200) { 62 } else { kind }; // Shutdown is rarely interesting
    let lay = &LAYOUTS[kind as usize];
    let mut used_live = false;
    let fields = abuse_fields(t, w, lay.fields, &mut used_live);
    let mut garbage = false;
    let value = if lay.has_value {
        let good = payload(t, v);
        if allow_garbage && t.chance(70) {
            garbage = true;
            let mut b = mutate(&good, t);
            if b.is_empty() {
                b.push(0xEE);
            }
            Some(b)
        } else {
            Some(good.to_vec())
        }
    } else {
        None
    };
    let msg = build(&RMsg { kind, value, fields });
    let wrong_direction = !CLIENT_KINDS.contains(&kind);
    Abuse { msg, live_foreign: used_live, wrong_direction, garbage }
}

/// Dedicated scenario class for the known finding: a 1.20 peer's ill-formed payload is forwarded
/// to a pre-1.20 peer through one of the four carriers.
fn older_peer_scenario(tape: &[u8]) -> (Outcome, String) {
    let mut t = Tape::new(tape);
    let _det = t.u32();
    let sched = t.u16() as u64;
    let policy = Policy::from_u8(t.u8());
    let mut w = World::new(sched, policy);
    w.check_payload_epoch = false;
    macro_rules! tryf {
        ($e:expr) => {
            match $e {
                Ok(v) => v,
                Err(f) => {
                    let text = w.history.join("\n");
                    return (f.outcome(&w.history), text);
                }
            }
        };
    }
    let pv = 14 + t.below(6) as u32;
    let p = tryf!(w.connect(pv, false));
    let a = tryf!(w.connect(20, false));
    let carrier = t.below(4);
    const BAD: [&[u8]; 6] = [&[43, 1], &[65, 1, 0], &[44, 5, 1, 2], &[45, 1, 7], &[43, 1, 13, 200], &[55, 1]];
    let bad = sv_from_bytes(*t.pick(&BAD));
    let ou = ObjectUuid(Uuid::from_u128(0xA0));
    let su = aldrin_core::ServiceUuid(Uuid::from_u128(0xB0));
    let owner = if carrier == 0 { p } else { a };
    let mut abusive: Option<Message> = None;
    if carrier != 2 {
        tryf!(w.inject(owner, Message::CreateObject(CreateObject { serial: 1, uuid: ou })));
        let oc = w.model.objs[&ou.0].cookie;
        tryf!(w.inject(owner, Message::CreateService(CreateService { serial: 2, object_cookie: aldrin_core::ObjectCookie(oc), uuid: su, version: 0 })));
        let sc = aldrin_core::ServiceCookie(w.model.objs[&ou.0].services[&su.0].cookie);
        match carrier {
            0 => abusive = Some(Message::CallFunction(CallFunction { serial: 5, service_cookie: sc, function: 0, value: bad })),
            1 => {
                tryf!(w.inject(p, Message::SubscribeEvent(SubscribeEvent { serial: Some(3), service_cookie: sc, event: 0 })));
                abusive = Some(Message::EmitEvent(EmitEvent { service_cookie: sc, event: 0, value: bad }));
            }
            _ => {
                tryf!(w.inject(p, Message::CallFunction(CallFunction { serial: 4, service_cookie: sc, function: 0, value: payload(&mut t, pv) })));
                let cs = w.model.calls[0].callee_serial;
                abusive = Some(Message::CallFunctionReply(CallFunctionReply { serial: cs, result: CallFunctionResult::Ok(bad) }));
            }
        }
    } else {
        tryf!(w.inject(p, Message::CreateChannel(CreateChannel { serial: 1, end: aldrin_core::ChannelEndWithCapacity::Receiver(4) })));
        let k = *w.model.chans.keys().next().unwrap();
        tryf!(w.inject(a, Message::ClaimChannelEnd(ClaimChannelEnd { serial: 2, cookie: aldrin_core::ChannelCookie(k), end: aldrin_core::ChannelEndWithCapacity::Sender })));
        abusive = Some(Message::SendItem(SendItem { cookie: aldrin_core::ChannelCookie(k), value: bad }));
    }
    let m = abusive.unwrap();
    let kind = kind_name(&m);
    match w.inject(a, m) {
        Ok(()) => {}
        Err(f) => {
            let mut sig = f.signature.clone();
            if w.conns[p].peer.disconnected {
                if let Some(Err(e)) = w.conns[p].result.borrow().as_ref() {
                    if e.contains("Deserialize(") {
                        sig = format!("victim-closed:payload-conversion-failed:{}", kind);
                    }
                }
            }
            let f = Fail::new(sig, f.detail);
            let text = w.history.join("\n");
            return (f.outcome(&w.history), text);
        }
    }
    // the well-behaved peer is still served
    tryf!(w.inject(p, Message::Sync(Sync { serial: 77 })));
    let mut key = vec![carrier as u8, pv as u8];
    key.extend_from_slice(tape);
    let text = w.history.join("\n");
    (Outcome::Pass(PassInfo { nontrivial: true, fp: fingerprint(&key), classes: vec!["older-peer-scenario"] }), text)
}

fn history(class: &str, tape: &[u8], _strict: bool) -> (Outcome, String) {
    if class == "garbage-to-older-peer" {
        return older_peer_scenario(tape);
    }
    let mut t = Tape::new(tape);
    let _det = t.u32();
    let sched = t.u16() as u64;
    let policy = Policy::from_u8(t.u8());
    let mut w = World::new(sched, policy);
    w.check_payload_epoch = false;
    let mut classes: BTreeSet<&'static str> = BTreeSet::new();
    macro_rules! tryf {
        ($e:expr) => {
            match $e {
                Ok(v) => v,
                Err(f) => {
                    let text = w.history.join("\n");
                    return (f.outcome(&w.history), text);
                }
            }
        };
    }
    let f3_class = class == "garbage-to-older-peer";
    let n_probes = t.range(1, 2);
    let n_abusers = t.range(1, 3);
    let mut probes: Vec<C> = vec![];
    let mut abusers: BTreeSet<C> = BTreeSet::new();
    for i in 0..n_probes {
        let minor = if f3_class { 14 + (i as u32 * 3) % 6 } else { *t.pick(&[20u32, 14, 16, 17, 18, 19, 20]) };
        probes.push(tryf!(w.connect(minor, minor == 14 && t.bool())));
    }
    for _ in 0..n_abusers {
        let minor = if f3_class { 20 } else { *t.pick(&[20u32, 20, 14, 15, 16, 17, 18, 19, 21]) };
        abusers.insert(tryf!(w.connect(minor, minor == 14 && t.bool())));
    }
    let mut ops = 0;
    let mut excluded_f3 = 0u32;
    let mut nontrivial = false;
    while !t.exhausted() && ops < 70 {
        ops += 1;
        let who_abuser = t.weighted(&[2, 3]) == 1;
        if !who_abuser {
            // a probe does something legitimate (through the exact oracle)
            let alive: Vec<C> = probes.iter().copied().filter(|p| w.model.conns[p].alive).collect();
            if alive.is_empty() {
                continue;
            }
            // restrict the generic generator to this probe by retrying
            let mut act = None;
            for _ in 0..6 {
                if let Some(Action::Inject(c, m)) = next_action(&mut t, &w, W_PROBE) {
                    if alive.contains(&c) {
                        act = Some((c, m));
                        break;
                    }
                }
            }
            if let Some((c, m)) = act {
                tryf!(w.inject(c, m));
            }
            continue;
        }
        // abuser action
        let alive: Vec<C> = abusers.iter().copied().filter(|a| w.model.conns[a].alive).collect();
        match t.weighted(&[if alive.is_empty() { 0 } else { 90 }, 5, 5]) {
            1 => {
                if w.conns.len() < 8 {
                    let minor = *t.pick(&[20u32, 14, 16, 18, 19, 20]);
                    abusers.insert(tryf!(w.connect(minor, false)));
                }
                continue;
            }
            2 => {
                if let Some(a) = alive.first() {
                    tryf!(w.hang_up(*a));
                }
                continue;
            }
            _ => {}
        }
        let a = *t.pick(&alive);
        let sender_minor = w.model.conns[&a].minor;
        // known finding F3: an ill-formed payload from a 1.20 sender reaching a pre-1.20 receiver
        let older_peer_alive = w.model.conns.iter().any(|(i, c)| c.alive && *i != a && c.minor < 20);
        let allow_garbage = if f3_class { true } else if sender_minor >= 20 && older_peer_alive {
            excluded_f3 += 1;
            false
        } else {
            true
        };
        let ab = abuse_message(&mut t, &w, a, allow_garbage);
        if ab.wrong_direction {
            classes.insert("abuse:wrong-direction");
        }
        if ab.garbage {
            classes.insert("abuse:garbage-payload");
        }
        let probe_has_state = probes.iter().any(|p| {
            w.model.objs.values().any(|o| o.owner == *p)
                || w.model.chans.values().any(|ch| ch.sender == crate::model::End::Claimed(*p) || ch.receiver == crate::model::End::Claimed(*p))
                || w.model.listeners.values().any(|l| l.owner == *p)
                || w.model.calls.iter().any(|k| k.caller == *p || k.callee == *p)
        });
        if probe_has_state {
            classes.insert("probe-has-state");
        }
        if ab.live_foreign {
            classes.insert("abuse:live-foreign-id");
            if probe_has_state {
                nontrivial = true;
            }
        }
        // step: three permitted outcomes for the sender
        w.history.push(format!("c{} (abuser) -> {}", a, crate::engine::short(&ab.msg)));
        w.conns[a].peer.send(ab.msg.clone());
        tryf!(w.run());
        let obs = w.drain_all();
        let saved = w.model.clone();
        let saved_notes = w.notes.len();
        w.lenient = Some(a);
        // (1) handled as the protocol says
        let mut eff = w.model.step(a, &ab.msg, &crate::model::ObsView::new(&obs));
        // cookies the broker hands to the abuser are the broker's business; freshness problems
        // still count, missing replies to the abuser do not
        eff.problems.retain(|p| p.contains("used before"));
        let r1 = w.compare(eff, obs.clone());
        let verdict = match r1 {
            Ok(()) => {
                classes.insert("outcome:as-protocol");
                Ok(())
            }
            Err(f1) => {
                // (2) ignored
                w.model = saved.clone();
                w.notes.truncate(saved_notes);
                match w.compare(Effects::default(), obs.clone()) {
                    Ok(()) => {
                        classes.insert("outcome:ignored");
                        Ok(())
                    }
                    Err(_) => {
                        // (3) the sender is closed
                        w.model = saved.clone();
                        w.notes.truncate(saved_notes);
                        let mut eff = Effects::default();
                        w.model.conn_gone(&mut eff, a);
                        match w.compare(eff, obs.clone()) {
                            Ok(()) => {
                                classes.insert("outcome:sender-closed");
                                Ok(())
                            }
                            Err(_) => {
                                w.model = saved;
                                Err(f1)
                            }
                        }
                    }
                }
            }
        };
        w.lenient = None;
        // the model's view of the abuser's liveness follows what happened
        let really_closed = w.conns[a].peer.disconnected;
        let model_alive = w.model.conns[&a].alive;
        if verdict.is_ok() && really_closed != !model_alive {
            // e.g. answered as the protocol says but then closed, or the other way round
            if really_closed {
                let mut eff = Effects::default();
                w.model.conn_gone(&mut eff, a);
                if eff.out.values().any(|v| !v.is_empty()) {
                    let f = Fail::new("abuse:silent-close", format!("the sender c{} was closed but the consequences for its peers were not announced", a));
                    let text = w.history.join("\n");
                    return (f.outcome(&w.history), text);
                }
            } else {
                let f = Fail::new("harness:abuser-liveness", "model closed the abuser but the broker did not and no variant matched");
                let text = w.history.join("\n");
                return (f.outcome(&w.history), text);
            }
        }
        if let Err(f) = verdict {
            // classify the known finding: a victim closed because a forwarded payload could not be converted
            let mut sig = f.signature.clone();
            if sig == "conn:closed-unexpectedly" || sig.starts_with("missing:") || sig.starts_with("unexpected:") {
                for (i, conn) in w.conns.iter().enumerate() {
                    if i != a && conn.peer.disconnected && saved_alive(&w, i) {
                        if let Some(Err(e)) = conn.result.borrow().as_ref() {
                            if e.contains("Deserialize(") {
                                sig = format!("victim-closed:payload-conversion-failed:{}", kind_name(&ab.msg));
                            }
                        }
                    }
                }
            }
            let f = Fail::new(sig, f.detail);
            let text = w.history.join("\n");
            return (f.outcome(&w.history), text);
        }
    }
    // afterwards every probe is still served
    for (i, p) in probes.iter().enumerate() {
        if !w.model.conns[p].alive {
            continue;
        }
        tryf!(w.inject(*p, Message::Sync(Sync { serial: 77 })));
        tryf!(w.inject(*p, Message::CreateObject(CreateObject { serial: 78, uuid: ObjectUuid(Uuid::from_u128(0xF00 + i as u128)) })));
        classes.insert("probe-served-at-end");
    }
    if excluded_f3 > 0 {
        classes.insert("excluded:garbage-from-1.20-to-older-peer");
    }
    let mut key = vec![];
    for h in &w.history {
        key.extend_from_slice(h.as_bytes());
    }
    let text = w.history.join("\n");
    (Outcome::Pass(PassInfo { nontrivial, fp: fingerprint(&key), classes: classes.into_iter().collect() }), text)
}

fn saved_alive(w: &World, i: C) -> bool {
    // the model still believes the connection alive (nothing it did allows closing it)
    w.model.conns.get(&i).map(|c| c.alive).unwrap_or(false)
}
