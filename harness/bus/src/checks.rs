//! Lock-step history checks: C02, C03, C04, C05, C10 (one engine, different operation mixes,
//! non-triviality rules and extra invariants).

use crate::engine::{Fail, World};
use crate::gen::{next_action, Action, Op};
use crate::model::{End, C};
use aldrin_core::message::*;
use aldrin_core::{BusListenerFilter, BusListenerScope};
use simbus::Policy;
use std::collections::BTreeSet;
use vcommon::{fingerprint, CheckDef, ClassPlan, Outcome, PassInfo, Tape, Tier};

pub struct Profile {
    pub id: &'static str,
    pub weights: &'static [(Op, u32)],
    pub observer: bool,
    /// number of objects (each with two services) created up front by the first connections
    pub setup: usize,
    /// probability (x/256) that the next step is a concurrent batch of 2-5 requests
    pub batch: u8,
    /// probability (x/256) that the next step ends a connection by dropping its broker-side task
    /// right after it forwarded a request (then the broker is told through shutdown_connection)
    pub drop_task: u8,
    pub max_ops: usize,
    pub nontrivial: fn(&BTreeSet<&'static str>, &Stats) -> bool,
}

#[derive(Default, Debug)]
pub struct Stats {
    pub max_pending_calls: usize,
    pub ops: usize,
    pub max_listeners_on_one_conn: usize,
    pub items_sent_max: u64,
    pub max_overlap_subs: usize,
    pub live_entities_max: usize,
}

const STACK: usize = 8 << 20;

fn header(t: &mut Tape) -> (u64, u64, Policy, Vec<(u32, bool)>) {
    let det = t.u32() as u64;
    let sched = t.u16() as u64;
    let policy = Policy::from_u8(t.u8());
    let n = t.range(2, 4);
    let mut conns = vec![];
    for _ in 0..n {
        let minor = *t.pick(&[20u32, 20, 14, 15, 16, 17, 18, 19, 20, 21]);
        let legacy = minor == 14 && t.bool();
        conns.push((minor, legacy));
    }
    (det, sched, policy, conns)
}

pub fn run_history(p: &'static Profile, tape: &[u8]) -> Outcome {
    let tape = tape.to_vec();
    let r = {
        let mut t0 = Tape::new(&tape);
        let det = t0.u32() as u64;
        let tape2 = tape.clone();
        vcommon::with_det_seed(det, STACK, move || history(p, &tape2).0)
    };
    match r {
        Ok(o) => o,
        Err(_) => {
            let pn = vcommon::last_panic_any_thread();
            Outcome::fail(format!("harness-panic:{}", pn.location()), format!("case thread panicked: {}", pn.0))
        }
    }
}

fn history(p: &'static Profile, tape: &[u8]) -> (Outcome, String) {
    let mut t = Tape::new(tape);
    let (_det, sched, policy, conns) = header(&mut t);
    let mut w = World::new(sched, policy);
    let mut stats = Stats::default();
    macro_rules! tryf {
        ($e:expr) => {
            match $e {
                Ok(v) => v,
                Err(f) => {
                    let text = w.history.join("\n");
                    return (f.outcome(&w.history), text);
                }
            }
        };
    }
    for (minor, legacy) in conns {
        tryf!(w.connect(minor, legacy));
    }
    // observer with a catch-all listener (probe connection)
    let mut observer: Option<(C, aldrin_core::BusListenerCookie)> = None;
    if p.observer {
        let o = tryf!(w.connect(20, false));
        tryf!(w.inject(o, Message::CreateBusListener(CreateBusListener { serial: 0 })));
        let cookie = *w.model.listeners.iter().find(|(_, l)| l.owner == o).map(|(k, _)| k).expect("observer listener");
        let cookie = aldrin_core::BusListenerCookie(cookie);
        tryf!(w.inject(o, Message::AddBusListenerFilter(AddBusListenerFilter { cookie, filter: BusListenerFilter::any_object() })));
        tryf!(w.inject(o, Message::AddBusListenerFilter(AddBusListenerFilter { cookie, filter: BusListenerFilter::any_object_any_service() })));
        observer = Some((o, cookie));
    }
    tryf!(setup(p, &mut w));
    let mut ops = 0;
    while !t.exhausted() && ops < p.max_ops {
        if p.drop_task > 0 && t.chance(p.drop_task) {
            // a connection's task dies with a request queued; the broker learns of it explicitly
            let alive: Vec<C> = w.model.conns.iter().filter(|(i, c)| c.alive && Some(**i) != observer.map(|o| o.0)).map(|(i, _)| *i).collect();
            ops += 1;
            if alive.len() >= 2 {
                let v = *t.pick(&alive);
                let mut msg = None;
                for _ in 0..10 {
                    if let Some(Action::Inject(c, m)) = next_action(&mut t, &w, p.weights) {
                        if c == v && !matches!(m, Message::Shutdown(_)) {
                            msg = Some(m);
                            break;
                        }
                    }
                }
                if let Some(m) = msg {
                    w.history.push(format!("c{} -> {} ; its task is dropped while the request is queued, then the broker handle shuts the connection down", v, crate::engine::short(&m)));
                    w.conns[v].peer.send(m.clone());
                    let task = w.conns[v].task;
                    for _ in 0..(1 + t.below(3)) {
                        w.bus.sim.poll_task(task);
                    }
                    w.bus.sim.kill(task);
                    w.zombies.insert(v);
                    w.model.unobservable.insert(v);
                    if let Some(ch) = w.conns[v].handle.borrow().clone() {
                        let mut bh = w.bus.handle.clone();
                        w.bus.sim.spawn("shutdown-conn", async move {
                            let _ = bh.shutdown_connection(&ch).await;
                        });
                    }
                    tryf!(w.run());
                    let obs = w.drain_all();
                    // the queued request may or may not have been processed before the removal
                    let saved = w.model.clone();
                    let saved_notes = w.notes.len();
                    let mut eff = w.model.step(v, &m, &crate::model::ObsView::new(&obs));
                    eff.problems.clear();
                    w.model.conn_gone(&mut eff, v);
                    eff.closed.remove(&v);
                    if let Err(fa) = w.compare(eff, obs.clone()) {
                        w.model = saved;
                        w.notes.truncate(saved_notes);
                        let mut eff = crate::model::Effects::default();
                        w.model.conn_gone(&mut eff, v);
                        if let Err(fb) = w.compare(eff, obs) {
                            let f = Fail::new(fa.signature.clone(), format!("(request processed) {}\n(request not processed) {}: {}", fa.detail, fb.signature, fb.detail));
                            let text = w.history.join("\n");
                            return (f.outcome(&w.history), text);
                        }
                    }
                    w.model.unobservable.remove(&v);
                    w.notes.push("task-dropped-with-queued-request");
                    // (v stays in `zombies`: nothing can be observed on it any more)
                    if let Some((o, cookie)) = observer {
                        tryf!(w.inject(o, Message::StartBusListener(StartBusListener { serial: 1, cookie, scope: BusListenerScope::Current })));
                        tryf!(w.inject(o, Message::StopBusListener(StopBusListener { serial: 2, cookie })));
                    }
                }
            }
            continue;
        }
        if p.batch > 0 && t.chance(p.batch) {
            // concurrent batch
            let k = t.range(2, 5);
            let mut batch: Vec<(C, Option<Message>)> = vec![];
            let mut hung: BTreeSet<C> = BTreeSet::new();
            for _ in 0..k {
                match next_action(&mut t, &w, p.weights) {
                    // a Shutdown message ends the connection just like a hang-up: the connection
                    // stops forwarding replies to its own earlier requests
                    Some(Action::Inject(c, Message::Shutdown(_))) => {
                        if !hung.contains(&c) && !batch.iter().any(|(x, _)| *x == c) {
                            hung.insert(c);
                            batch.push((c, Some(Message::Shutdown(Shutdown))));
                        }
                    }
                    Some(Action::Inject(c, m)) if !hung.contains(&c) => batch.push((c, Some(m))),
                    // a connection that hangs up contributes nothing else to the batch: replies to its
                    // own earlier requests could not be observed any more
                    Some(Action::HangUp(c)) if !hung.contains(&c) && !batch.iter().any(|(x, _)| *x == c) => {
                        hung.insert(c);
                        batch.push((c, None));
                    }
                    _ => {}
                }
            }
            ops += batch.len().max(1);
            // Requests whose broker-chosen ids could otherwise be attributed to either of two
            // identical requests of the batch are made distinguishable (unique serials, unique
            // call payloads); identical concurrent requests are indistinguishable black-box.
            for (i, (_, m)) in batch.iter_mut().enumerate() {
                let s = 1000 + i as u32;
                let nonce = || aldrin_core::SerializedValue::serialize(0xC0FFEE00u64 + i as u64).unwrap();
                match m {
                    Some(Message::CreateObject(x)) => x.serial = s,
                    Some(Message::CreateService(x)) => x.serial = s,
                    Some(Message::CreateService2(x)) => x.serial = s,
                    Some(Message::CreateChannel(x)) => x.serial = s,
                    Some(Message::CreateBusListener(x)) => x.serial = s,
                    Some(Message::CallFunction(x)) => {
                        x.serial = s;
                        x.value = nonce();
                    }
                    Some(Message::CallFunction2(x)) => {
                        x.serial = s;
                        x.value = nonce();
                    }
                    _ => {}
                }
            }
            if batch.len() >= 2 {
                tryf!(w.inject_batch(batch));
            } else if let Some((c, m)) = batch.pop() {
                match m {
                    Some(m) => tryf!(w.inject(c, m)),
                    None => tryf!(w.hang_up(c)),
                }
            }
            continue;
        }
        let Some(a) = next_action(&mut t, &w, p.weights) else {
            ops += 1;
            continue;
        };
        ops += 1;
        match a {
            Action::Connect(minor, legacy) => {
                if w.conns.len() < 7 {
                    tryf!(w.connect(minor, legacy));
                }
            }
            Action::HangUp(c) => {
                if Some(c) != observer.map(|o| o.0) {
                    tryf!(w.hang_up(c));
                }
            }
            Action::Inject(c, m) => {
                if Some(c) == observer.map(|o| o.0) {
                    continue;
                }
                tryf!(w.inject(c, m));
            }
        }
        // statistics for the non-triviality rules
        stats.ops = ops;
        let waiting = w.model.calls.iter().filter(|k| k.caller_waiting).count();
        stats.max_pending_calls = stats.max_pending_calls.max(waiting);
        for c in w.model.conns.keys() {
            let n = w.model.listeners.values().filter(|l| l.owner == *c).count();
            stats.max_listeners_on_one_conn = stats.max_listeners_on_one_conn.max(n);
        }
        for ch in w.model.chans.values() {
            stats.items_sent_max = stats.items_sent_max.max(ch.items_forwarded);
        }
        for o in w.model.objs.values() {
            for s in o.services.values() {
                for set in s.ev_subs.values() {
                    stats.max_overlap_subs = stats.max_overlap_subs.max(set.len() + s.all_subs.len());
                }
            }
        }
        let live = w.model.objs.len() + w.model.objs.values().map(|o| o.services.len()).sum::<usize>();
        stats.live_entities_max = stats.live_entities_max.max(live);
        // C05: no credit deadlock at quiescence
        if p.id == "C05" {
            for (k, ch) in &w.model.chans {
                if let (End::Claimed(_), End::Claimed(_)) = (ch.sender, ch.receiver) {
                    if ch.announced <= 0 && ch.granted > 0 {
                        let f = Fail::new(
                            "channel:credit-deadlock",
                            format!("channel {}: the receiver has granted {} more items but the sender has been announced none; nothing is in flight", k, ch.granted),
                        );
                        let text = w.history.join("\n");
                        return (f.outcome(&w.history), text);
                    }
                }
            }
        }
        // probe: the observer enumerates the bus and must see exactly the model's live entities
        if let Some((o, cookie)) = observer {
            tryf!(w.inject(o, Message::StartBusListener(StartBusListener { serial: 1, cookie, scope: BusListenerScope::Current })));
            tryf!(w.inject(o, Message::StopBusListener(StopBusListener { serial: 2, cookie })));
        }
    }
    let notes: BTreeSet<&'static str> = w.notes.iter().copied().collect();
    let nontrivial = (p.nontrivial)(&notes, &stats);
    let mut key = vec![];
    for h in &w.history {
        key.extend_from_slice(h.as_bytes());
    }
    let mut classes: Vec<&'static str> = notes.into_iter().collect();
    if stats.max_pending_calls >= 2 {
        classes.push("pending-calls>=2");
    }
    if stats.max_listeners_on_one_conn >= 2 {
        classes.push("listeners-per-conn>=2");
    }
    if stats.items_sent_max >= 5 {
        classes.push("items>=5");
    }
    if stats.max_overlap_subs >= 2 {
        classes.push("overlapping-subscribers>=2");
    }
    let text = w.history.join("\n");
    (Outcome::Pass(PassInfo { nontrivial, fp: fingerprint(&key), classes }), text)
}

/// Deterministic preamble: the first connections create objects with two services each (through
/// the checked path), so that calls, subscriptions and listeners have something to act on.
fn setup(p: &'static Profile, w: &mut World) -> Result<(), Fail> {
    for i in 0..p.setup {
        let c = i % 2;
        let minor = w.model.conns[&c].minor;
        w.inject(c, Message::CreateObject(CreateObject { serial: 100 + i as u32, uuid: aldrin_core::ObjectUuid(uuid::Uuid::from_u128(crate::gen::OBJ_POOL[i % 3])) }))?;
        let Some(oc) = w.model.objs.get(&uuid::Uuid::from_u128(crate::gen::OBJ_POOL[i % 3])).filter(|o| o.owner == c).map(|o| o.cookie) else { continue };
        for j in 0..2 {
            let uuid = aldrin_core::ServiceUuid(uuid::Uuid::from_u128(crate::gen::SVC_POOL[j]));
            if minor >= 17 {
                let info = aldrin_core::ServiceInfo::new(j as u32).set_subscribe_all(true);
                w.inject(c, Message::CreateService2(CreateService2 { serial: 110 + j as u32, object_cookie: aldrin_core::ObjectCookie(oc), uuid, value: aldrin_core::SerializedValue::serialize(info).unwrap() }))?;
            } else {
                w.inject(c, Message::CreateService(CreateService { serial: 110 + j as u32, object_cookie: aldrin_core::ObjectCookie(oc), uuid, version: j as u32 }))?;
            }
        }
    }
    Ok(())
}

pub fn render_history(p: &'static Profile, tape: &[u8]) -> String {
    let tape = tape.to_vec();
    let det = Tape::new(&tape).u32() as u64;
    vcommon::with_det_seed(det, STACK, move || history(p, &tape).1).unwrap_or_else(|_| "<render panicked>".into())
}

fn plan(quick: u32, t: Tier) -> Vec<ClassPlan> {
    let k = match t {
        Tier::Quick => 1,
        Tier::Thorough => 20,
    };
    vec![ClassPlan { class: "history", cases: quick * k, min_len: 16, max_len: 1400 }]
}

// ---------------------------------------------------------------------------------------------
// C12, class "mixed": every kind of bus activity between connections of different versions; the
// lock-step comparison (reference model + "nothing newer than the negotiated version") decides

static W_C12: &[(Op, u32)] = &[
    (Op::CreateObject, 8),
    (Op::DestroyObject, 3),
    (Op::CreateService, 6),
    (Op::CreateService2, 6),
    (Op::DestroyService, 3),
    (Op::Call, 14),
    (Op::Reply, 6),
    (Op::Abort, 4),
    (Op::SubEvent, 5),
    (Op::UnsubEvent, 2),
    (Op::SubAll, 3),
    (Op::UnsubAll, 1),
    (Op::SubSvc, 3),
    (Op::UnsubSvc, 1),
    (Op::Emit, 5),
    (Op::QueryVersion, 1),
    (Op::QueryInfo, 2),
    (Op::CreateChannel, 5),
    (Op::ClaimEnd, 4),
    (Op::CloseEnd, 2),
    (Op::SendItem, 4),
    (Op::AddCapacity, 1),
    (Op::CreateListener, 2),
    (Op::AddFilter, 2),
    (Op::StartListener, 2),
    (Op::HangUp, 6),
    (Op::ShutdownMsg, 2),
    (Op::Connect, 5),
    (Op::Sync, 1),
];

pub static P_C12: Profile = Profile {
    id: "C12",
    weights: W_C12,
    observer: false,
    setup: 2,
    batch: 24,
    drop_task: 0,
    max_ops: 50,
    nontrivial: |n, _| n.iter().any(|x| x.starts_with("version:") || x.starts_with("gated:")),
};

// ---------------------------------------------------------------------------------------------
// C03

static W_C03: &[(Op, u32)] = &[
    (Op::CreateObject, 22),
    (Op::DestroyObject, 10),
    (Op::CreateService, 14),
    (Op::CreateService2, 8),
    (Op::DestroyService, 8),
    (Op::QueryVersion, 6),
    (Op::QueryInfo, 5),
    (Op::SubEvent, 5),
    (Op::SubSvc, 3),
    // every other request that addresses a service by cookie, so that what a connection did
    // with a service while it was live (subscribed to all events, ...) is part of the state in
    // which the cookie is queried again after the service is gone
    (Op::SubAll, 4),
    (Op::UnsubEvent, 2),
    (Op::UnsubAll, 1),
    (Op::UnsubSvc, 1),
    (Op::Emit, 2),
    (Op::Abort, 1),
    (Op::Call, 6),
    (Op::Reply, 2),
    (Op::HangUp, 4),
    (Op::ShutdownMsg, 1),
    (Op::Connect, 4),
    (Op::Sync, 2),
];

static P_C03: Profile = Profile {
    id: "C03",
    weights: W_C03,
    observer: true,
    setup: 0,
    batch: 0,
    drop_task: 12,
    max_ops: 60,
    nontrivial: |n, _| n.contains("create-object:duplicate") as u8 + n.contains("foreign-access") as u8 + (n.contains("cascade:service-with-object") || n.contains("cascade:owner-disconnect")) as u8 >= 2,
};

pub static C03: CheckDef = CheckDef {
    id: "C03",
    level: "exploration",
    rule: "Histories (<= 60 steps) of create/destroy object/service (both create-service forms), destroy by non-owners, create-service on foreign/destroyed objects, version/info queries, subscribe and call against live/destroyed/never-issued cookies, disconnects and new connections, by 2-7 raw protocol peers of versions 1.14..1.20 over a pool of 3 object x 3 service UUIDs, decoded from a proptest tape; run lock-step against the real broker on the deterministic simulator and the reference model, and after EVERY step an observer connection enumerates the bus (listener with scope 'current' over all filters) and must see exactly the model's live objects and services. Non-trivial: at least two of {duplicate creation, foreign access, cascade (object with services destroyed / owner disconnected)} occurred. Distinct = distinct concrete history.",
    assumptions: &[
        "busmodel (harness/bus/src/model.rs) restates the protocol; broker-chosen cookies are read from the observed replies and checked for freshness",
        "only poll-level schedules of the single-threaded simulator; one message in flight per step (lock-step)",
        "broker built without its 'introspection' feature",
    ],
    plan: |t| plan(40000, t),
    case: |class, tape, _| {
        if class == "conformance" {
            crate::conformance::run_scenario(u32::from_le_bytes([tape[0], tape[1], tape[2], tape[3]]) as usize)
        } else {
            run_history(&P_C03, tape)
        }
    },
    render: |class, tape| {
        if class == "conformance" {
            crate::conformance::render_scenario(u32::from_le_bytes([tape[0], tape[1], tape[2], tape[3]]) as usize)
        } else {
            render_history(&P_C03, tape)
        }
    },
    crashy: false,
    floors: &[("create-object:duplicate", 0.3), ("foreign-access", 0.3), ("cascade:service-with-object", 0.15), ("cascade:owner-disconnect", 0.15), ("task-dropped-with-queued-request", 0.1)],
    extra: Some(conformance_scenarios),
    extra_coverage: Some(|_| {
        let (ok, total, unsupported) = crate::conformance::supported_summary();
        serde_json::json!({"model_validation": {"upstream_conformance_scenarios_total": total, "fully_replayed_lockstep": ok, "unsupported": unsupported}})
    }),
};

/// Model validation: upstream's own protocol scenarios (conformance-tester/tests/*.json, not part
/// of the test suite) are replayed lock-step through the same engine and model on every run.
fn conformance_scenarios(ctx: &mut vcommon::Ctx) {
    let n = crate::conformance::scenarios().len();
    for i in 0..n {
        ctx.eval_case("conformance", &(i as u32).to_le_bytes());
    }
}

// ---------------------------------------------------------------------------------------------
// C02

static W_C02: &[(Op, u32)] = &[
    (Op::CreateObject, 10),
    (Op::CreateService, 10),
    (Op::CreateService2, 3),
    (Op::Call, 30),
    (Op::Reply, 22),
    (Op::Abort, 8),
    (Op::DestroyService, 4),
    (Op::DestroyObject, 3),
    (Op::HangUp, 3),
    (Op::Connect, 3),
    (Op::Sync, 1),
];

static P_C02: Profile = Profile {
    id: "C02",
    weights: W_C02,
    observer: false,
    setup: 2,
    batch: 70,
    drop_task: 0,
    max_ops: 70,
    nontrivial: |n, s| {
        s.max_pending_calls >= 2
            && (n.contains("abort:by-caller") || n.contains("abort-by-caller-disconnect") || n.contains("cascade:owner-disconnect") || n.contains("cascade:service-with-object") || n.contains("reply:after-abort") || n.contains("reply:non-owner") || n.contains("call:serial-reuse-while-pending"))
    },
};

pub static C02: CheckDef = CheckDef {
    id: "C02",
    level: "exploration",
    rule: "Histories (<= 70 steps) of call (both message forms) / reply by owner with every result kind and payload / reply by non-owner / duplicate reply / reply after abort / abort by caller / destroy service / destroy object / callee disconnect / caller disconnect / caller serial reuse after completion and while pending, several calls pending at once, by 2-7 raw peers of versions 1.14..1.20; lock-step against the reference model: after every step each connection must have received exactly the model's messages (payloads compared by meaning). Non-trivial: >= 2 calls pending simultaneously and >= 1 resolving event other than a plain reply. Distinct = distinct concrete history.",
    assumptions: &[
        "busmodel restates the protocol; callee-side serials are read from the observed forwards and must not be in use",
        "lock-step: one message in flight per step; interleavings of concurrently queued messages are explored by C06/C09/C11's concurrent classes",
    ],
    plan: |t| plan(50000, t),
    case: |_, tape, _| run_history(&P_C02, tape),
    render: |_, tape| render_history(&P_C02, tape),
    crashy: false,
    floors: &[("pending-calls>=2", 0.4), ("abort:by-caller", 0.2), ("reply:delivered", 0.5), ("reply:non-owner", 0.05), ("reply:after-abort", 0.05), ("cascade:owner-disconnect", 0.05), ("call:serial-reuse-while-pending", 0.02)],
    extra: None,
    extra_coverage: None,
};

// ---------------------------------------------------------------------------------------------
// C04

static W_C04: &[(Op, u32)] = &[
    (Op::CreateObject, 8),
    (Op::CreateService, 5),
    (Op::CreateService2, 9),
    (Op::SubEvent, 20),
    (Op::UnsubEvent, 12),
    (Op::SubAll, 9),
    (Op::UnsubAll, 6),
    (Op::SubSvc, 4),
    (Op::UnsubSvc, 2),
    (Op::Emit, 22),
    (Op::DestroyService, 3),
    (Op::DestroyObject, 2),
    (Op::HangUp, 4),
    (Op::Connect, 3),
];

static P_C04: Profile = Profile {
    id: "C04",
    weights: W_C04,
    observer: false,
    setup: 2,
    batch: 70,
    drop_task: 0,
    max_ops: 70,
    nontrivial: |n, s| s.max_overlap_subs >= 2 && (n.contains("unsubscribe-by-disconnect") || n.contains("transition:all:1->0") || n.contains("transition:all:0->1")),
};

pub static C04: CheckDef = CheckDef {
    id: "C04",
    level: "exploration",
    rule: "Histories (<= 70 steps) of subscribe / unsubscribe / subscribe-all / unsubscribe-all (with and without serial) / service-subscribe / emit by owner / emit by non-owner / destroy service / destroy object / subscriber disconnect / owner disconnect over event ids {0,1,7}, by 2-7 raw peers of versions 1.14..1.20 (all-events gating below 1.18); lock-step against the reference model: event fan-out set, owner notifications exactly at 0<->1 transitions, one ServiceDestroyed per subscribed connection. Non-trivial: >= 2 subscribers overlapping on one event id and a transition caused by a disconnect or by (un)subscribe-all. Distinct = distinct concrete history.",
    assumptions: &[
        "busmodel restates the protocol; whether a connection subscribed only to all events of a service gets ServiceDestroyed is left open (accepted either way)",
        "lock-step: one message in flight per step",
    ],
    plan: |t| plan(50000, t),
    case: |_, tape, _| run_history(&P_C04, tape),
    render: |_, tape| render_history(&P_C04, tape),
    crashy: false,
    floors: &[("event:delivered", 0.4), ("transition:0->1", 0.5), ("transition:1->0", 0.2), ("overlapping-subscribers>=2", 0.2), ("unsubscribe-by-disconnect", 0.05), ("transition:all:0->1", 0.05), ("event:non-owner", 0.1)],
    extra: None,
    extra_coverage: None,
};

// ---------------------------------------------------------------------------------------------
// C05 (broker level)

static W_C05: &[(Op, u32)] = &[
    (Op::CreateChannel, 12),
    (Op::ClaimEnd, 14),
    (Op::CloseEnd, 6),
    (Op::SendItem, 40),
    (Op::AddCapacity, 16),
    (Op::HangUp, 3),
    (Op::Connect, 3),
    (Op::Sync, 1),
];

static P_C05: Profile = Profile {
    id: "C05",
    weights: W_C05,
    observer: false,
    setup: 0,
    batch: 70,
    drop_task: 0,
    max_ops: 90,
    nontrivial: |n, s| (s.items_sent_max >= 5 && n.contains("capacity:added")) || n.contains("send:exceeds-capacity") || n.contains("capacity:overflow"),
};

pub static C05: CheckDef = CheckDef {
    id: "C05",
    level: "exploration",
    rule: "Broker level: histories (<= 90 steps) of create (either end, capacities {0,1,3,4,5,6,16,u32::MAX-1,u32::MAX}) / claim / close / send-item / add-capacity (incl. 0 and overflowing grants) / disconnect on both ends by 2-7 raw peers; lock-step against a credit model: items forwarded once, in order, never beyond the receiver's grant; announcements to the sender never exceed the unannounced grant; a sender with announced credit is never cut off, one that exceeds it loses only its own end; claim/close follow the end state machine; the peer is told exactly once; an overflowing grant closes only the receiver; at quiescence a sender with no announced credit implies no granted credit (no credit deadlock). Non-trivial: more items than the initial capacity were sent with replenishment, or a sender exceeded its credit, or a grant overflowed. Client level (real Sender/Receiver under schedules) is part of C06's channel programs.",
    assumptions: &[
        "the amount announced to the sender per AddChannelCapacity is the broker's policy; the model only bounds it by the receiver's unannounced grant and requires progress (no credit deadlock)",
        "lock-step: one message in flight per step",
    ],
    plan: |t| plan(50000, t),
    case: |_, tape, _| run_history(&P_C05, tape),
    render: |_, tape| render_history(&P_C05, tape),
    crashy: false,
    floors: &[("send:forwarded", 0.5), ("capacity:added", 0.3), ("send:exceeds-capacity", 0.1), ("capacity:overflow", 0.03), ("claim:ok", 0.5), ("claim:already-claimed", 0.05), ("items>=5", 0.04), ("channel-end-closed-by-disconnect", 0.05)],
    extra: None,
    extra_coverage: None,
};

// ---------------------------------------------------------------------------------------------
// C10

static W_C10: &[(Op, u32)] = &[
    (Op::CreateListener, 10),
    (Op::DestroyListener, 2),
    (Op::AddFilter, 18),
    (Op::RemoveFilter, 9),
    (Op::ClearFilters, 2),
    (Op::StartListener, 14),
    (Op::StopListener, 8),
    (Op::CreateObject, 12),
    (Op::DestroyObject, 5),
    (Op::CreateService, 10),
    (Op::DestroyService, 4),
    (Op::HangUp, 3),
    (Op::Connect, 3),
];

static P_C10: Profile = Profile {
    id: "C10",
    weights: W_C10,
    observer: false,
    setup: 1,
    batch: 40,
    drop_task: 0,
    max_ops: 80,
    nontrivial: |n, s| n.contains("listener:start-current>=2") && (n.contains("filter:removed") || n.contains("filter:cleared")) && s.max_listeners_on_one_conn >= 2,
};

pub static C10: CheckDef = CheckDef {
    id: "C10",
    level: "exploration",
    rule: "Histories (<= 80 steps) of filter add/remove/clear (six shapes over the UUID pools, duplicates and removes of absent filters), start/stop with three scopes, start while started, create/destroy of objects/services, disconnects, destroy listener, 1-3 listeners per connection, 2-7 raw peers; lock-step against a model that uses only the plain predicate 'matches any filter': tagged events = exactly one created-event per live matching entity, then one end-of-current marker (after all tagged events); untagged events exactly once per connection; nothing for stopped/unstarted/destroyed listeners. Non-trivial: a start with scope current/all reporting >= 2 entities after >= 1 filter removal, with >= 2 listeners on one connection. Distinct = distinct concrete history.",
    assumptions: &["busmodel restates the matching predicate from the property", "lock-step: one message in flight per step"],
    plan: |t| plan(50000, t),
    case: |_, tape, _| run_history(&P_C10, tape),
    render: |_, tape| render_history(&P_C10, tape),
    crashy: false,
    floors: &[("listener:start-current", 0.5), ("listener:start-current>=2", 0.08), ("filter:removed", 0.3), ("listeners-per-conn>=2", 0.3), ("listener:already-started", 0.1)],
    extra: None,
    extra_coverage: None,
};
