//! C09 Disconnect and shutdown cleanup: no residual state, exact counters.

use crate::engine::{Fail, World};
use crate::gen::{next_action, Action, Op};
use crate::model::{Effects, C};
use aldrin_broker::{BrokerStatistics, VerifSnapshot};
use aldrin_core::message::*;
use simbus::Policy;
use std::collections::BTreeSet;
use vcommon::{fingerprint, CheckDef, ClassPlan, Ctx, Outcome, PassInfo, SplitMix, Tape, Tier};

const STACK: usize = 8 << 20;

static W_ALL: &[(Op, u32)] = &[
    (Op::CreateObject, 10),
    (Op::DestroyObject, 3),
    (Op::CreateService, 7),
    (Op::CreateService2, 4),
    (Op::DestroyService, 3),
    (Op::Call, 10),
    (Op::Reply, 6),
    (Op::Abort, 2),
    (Op::SubEvent, 6),
    (Op::UnsubEvent, 2),
    (Op::SubAll, 3),
    (Op::UnsubAll, 1),
    (Op::SubSvc, 2),
    (Op::Emit, 4),
    (Op::CreateChannel, 9),
    (Op::ClaimEnd, 6),
    (Op::CloseEnd, 2),
    (Op::SendItem, 5),
    (Op::AddCapacity, 2),
    (Op::CreateListener, 5),
    (Op::AddFilter, 4),
    (Op::StartListener, 4),
    (Op::StopListener, 1),
    (Op::DestroyListener, 1),
    (Op::Sync, 1),
    (Op::Connect, 3),
    (Op::Introspection, 7),
];

pub static DEF: CheckDef = CheckDef {
    id: "C09",
    level: "exploration",
    rule: "Histories (<= 45 steps) of mixed bus activity (objects, services, calls, subscriptions, channels, listeners) by 2-7 raw peers, in which one connection is ended at a generated step in one of five ways (peer sends Shutdown; transport closed; BrokerHandle::shutdown_connection; its Connection::run() future dropped; its future dropped right after forwarding a request, while that request is still queued in the broker), later steps continue, and at the end either all connections are ended and shutdown_idle is requested, or shutdown() is requested with live connections. After EVERY step: statistics gauges == reference model counts == sizes from the verif-hooks snapshot, and the snapshot reports no cross-reference inconsistency; peers are notified exactly as the model says. A systematic class enumerates the fault step 0..24 x the five ways over base histories. Non-trivial: the ended connection owned or was subscribed to something, or had a request in flight. Distinct = distinct concrete history.",
    assumptions: &[
        "aldrin-broker features statistics + verif-hooks (read-only snapshot); the hook reports, the harness decides",
        "for a dropped connection task the broker may notice at any later send to it; the oracle demands cleanup at the latest after an explicit shutdown_connection at the end; the moment of removal is read from the snapshot's connection count",
        "a request that was queued when its connection's task was dropped may or may not have been processed before the connection is removed (both accepted)",
        "lock-step: one message in flight per step",
    ],
    plan,
    case: |_, tape, _| run(tape),
    render,
    crashy: false,
    floors: &[("way:shutdown-msg", 0.08), ("way:hang-up", 0.08), ("way:shutdown-connection", 0.08), ("way:task-dropped", 0.08), ("way:dropped-after-forward", 0.08), ("victim-owned-something", 0.3), ("end:shutdown-idle", 0.3), ("end:shutdown-now", 0.2), ("zombie-removed-by-send", 0.03)],
    extra: Some(systematic),
    extra_coverage: None,
};

fn plan(t: Tier) -> Vec<ClassPlan> {
    let k = match t {
        Tier::Quick => 1,
        Tier::Thorough => 20,
    };
    vec![ClassPlan { class: "history", cases: 30_000 * k, min_len: 24, max_len: 1000 }]
}

struct Probe {
    stats: BrokerStatistics,
    snap: VerifSnapshot,
}

fn probe(w: &mut World) -> Result<Probe, Fail> {
    let mut h1 = w.bus.handle.clone();
    let mut h2 = w.bus.handle.clone();
    let (_, s1) = w.bus.sim.spawn_out("probe-stats", async move { h1.take_statistics().await.ok() });
    let (_, s2) = w.bus.sim.spawn_out("probe-snap", async move { h2.verif_snapshot().await.ok() });
    w.run()?;
    let stats = s1.borrow_mut().take().flatten();
    let snap = s2.borrow_mut().take().flatten();
    match (stats, snap) {
        (Some(stats), Some(snap)) => Ok(Probe { stats, snap }),
        _ => Err(Fail::new("probe:no-answer", "the broker did not answer a statistics / snapshot request")),
    }
}

fn alive_count(w: &World) -> usize {
    w.model.conns.values().filter(|c| c.alive).count()
}

/// Decides from the snapshot whether the broker has noticed a dead connection task, applies the
/// consequences to the model, compares the step's output and then the gauges.
fn judge(w: &mut World, mut eff: Effects, obs: crate::model::Observed) -> Result<(), Fail> {
    let p = probe(w)?;
    let expect_alive = alive_count(w);
    if p.snap.conns < expect_alive {
        let diff = expect_alive - p.snap.conns;
        if diff > w.zombies.len() {
            return Err(Fail::new("conns:removed-without-cause", format!("the broker holds {} connections, the model {}; only {} connection tasks were dropped", p.snap.conns, expect_alive, w.zombies.len())));
        }
        // the broker noticed `diff` of the dropped tasks
        let zs: Vec<C> = w.zombies.iter().copied().collect();
        if diff == zs.len() {
            for z in &zs {
                w.model.conn_gone(&mut eff, *z);
                w.zombies.remove(z);
                w.model.unobservable.remove(z);
                w.notes.push("zombie-removed-by-send");
            }
            for z in &zs {
                // nothing can be observed on a connection whose task is gone
                eff.out.remove(z);
                eff.closed.remove(z);
            }
        } else {
            return Err(Fail::new("harness:ambiguous-zombie", "more than one dropped task and only some were noticed"));
        }
    } else if p.snap.conns > expect_alive {
        return Err(Fail::new("conns:not-removed", format!("the broker holds {} connections, the model {}", p.snap.conns, expect_alive)));
    }
    w.compare(eff, obs)?;
    gauges(w, &p)
}

fn gauges(w: &World, p: &Probe) -> Result<(), Fail> {
    let (mc, mo, ms, mch, ml) = w.model.gauges();
    let s = &p.snap;
    if !s.inconsistencies.is_empty() {
        return Err(Fail::new("snapshot:inconsistent", format!("broker state is inconsistent: {:?}", &s.inconsistencies[..s.inconsistencies.len().min(6)])));
    }
    let checks: [(&str, usize, usize, usize); 5] = [
        ("num_connections", p.stats.num_connections(), s.conns, mc),
        ("num_objects", p.stats.num_objects(), s.objs, mo),
        ("num_services", p.stats.num_services(), s.svcs, ms),
        ("num_channels", p.stats.num_channels(), s.channels, mch),
        ("num_bus_listeners", p.stats.num_bus_listeners(), s.bus_listeners, ml),
    ];
    for (name, stat, snap, model) in checks {
        if snap != model {
            return Err(Fail::new(format!("residual-state:{}", name), format!("broker holds {} {} but {} are live according to the protocol history (statistics say {})", snap, name, model, stat)));
        }
        if stat != snap {
            return Err(Fail::new(format!("stat-gauge:{}", name), format!("statistics report {} = {} but the broker holds {} (model {})", name, stat, snap, model)));
        }
    }
    if s.obj_uuids != s.objs || s.svc_uuids != s.svcs {
        return Err(Fail::new("snapshot:index-size", format!("index maps differ in size: objs {} / cookies {}, svcs {} / cookies {}", s.objs, s.obj_uuids, s.svcs, s.svc_uuids)));
    }
    if p.stats.num_introspections() != w.model.num_introspections() {
        return Err(Fail::new(
            "stat-gauge:num_introspections",
            format!("statistics report num_introspections = {} but {} type ids are registered according to the protocol history", p.stats.num_introspections(), w.model.num_introspections()),
        ));
    }
    let pending = w.model.calls.len();
    if s.function_calls != pending {
        return Err(Fail::new("residual-state:function_calls", format!("broker holds {} pending calls, the model {}", s.function_calls, pending)));
    }
    Ok(())
}

fn send_and_run(w: &mut World, c: C, msg: &Message) -> Result<crate::model::Observed, Fail> {
    w.history.push(format!("c{} -> {}", c, crate::engine::short(msg)));
    w.conns[c].peer.send(msg.clone());
    w.run()?;
    Ok(w.drain_all())
}

fn header(t: &mut Tape) -> (u64, u64, Policy, Vec<(u32, bool)>, usize, u8, u8, u8) {
    let det = t.u32() as u64;
    let sched = t.u16() as u64;
    let policy = Policy::from_u8(t.u8());
    let fault_at = t.below(30);
    let way = t.below(5) as u8;
    let victim = t.u8();
    let ending = t.below(3) as u8;
    let n = t.range(2, 4);
    let mut conns = vec![];
    for _ in 0..n {
        let minor = *t.pick(&[20u32, 20, 14, 16, 17, 18, 19, 20]);
        conns.push((minor, minor == 14 && t.bool()));
    }
    (det, sched, policy, conns, fault_at, way, victim, ending)
}

fn run(tape: &[u8]) -> Outcome {
    let tape = tape.to_vec();
    let det = Tape::new(&tape).u32() as u64;
    match vcommon::with_det_seed(det, STACK, move || history(&tape, false).0) {
        Ok(o) => o,
        Err(_) => {
            let pn = vcommon::last_panic_any_thread();
            Outcome::fail(format!("harness-panic:{}", pn.location()), format!("case thread panicked: {}", pn.0))
        }
    }
}

fn render(_: &str, tape: &[u8]) -> String {
    let tape = tape.to_vec();
    let det = Tape::new(&tape).u32() as u64;
    vcommon::with_det_seed(det, STACK, move || history(&tape, true).1).unwrap_or_else(|_| "<render panicked>".into())
}

fn history(tape: &[u8], _render: bool) -> (Outcome, String) {
    let mut t = Tape::new(tape);
    let (_det, sched, policy, conns, fault_at, way, victim, ending) = header(&mut t);
    let mut w = World::new(sched, policy);
    // payload epochs are C12's subject; here a request generated for one connection may be sent
    // by another (the victim), so the sender-respects-its-epoch premise does not hold
    w.check_payload_epoch = false;
    let mut classes: BTreeSet<&'static str> = BTreeSet::new();
    macro_rules! tryf {
        ($e:expr) => {
            match $e {
                Ok(v) => v,
                Err(f) => {
                    let text = w.history.join("\n");
                    return (f.outcome(&w.history), text);
                }
            }
        };
    }
    for (minor, legacy) in conns {
        tryf!(w.connect(minor, legacy));
    }
    let mut ops = 0usize;
    let mut faulted = false;
    let mut victim_had_state = false;
    while (!t.exhausted() || !faulted) && ops < 45 {
        if ops == fault_at && !faulted {
            faulted = true;
            let alive: Vec<C> = w.model.conns.iter().filter(|(i, c)| c.alive && !w.zombies.contains(i)).map(|(i, _)| *i).collect();
            if !alive.is_empty() {
                let v = alive[victim as usize % alive.len()];
                victim_had_state = w.model.objs.values().any(|o| o.owner == v)
                    || w.model.chans.values().any(|ch| ch.sender == crate::model::End::Claimed(v) || ch.receiver == crate::model::End::Claimed(v))
                    || w.model.listeners.values().any(|l| l.owner == v)
                    || w.model.calls.iter().any(|k| k.caller == v || k.callee == v)
                    || w.model.objs.values().any(|o| o.services.values().any(|s| s.all_subs.contains(&v) || s.svc_subs.contains(&v) || s.ev_subs.values().any(|x| x.contains(&v))));
                match way {
                    0 => {
                        classes.insert("way:shutdown-msg");
                        let m = Message::Shutdown(Shutdown);
                        let obs = tryf!(send_and_run(&mut w, v, &m));
                        let eff = w.model.step(v, &m, &crate::model::ObsView::new(&obs));
                        tryf!(judge(&mut w, eff, obs));
                    }
                    1 => {
                        classes.insert("way:hang-up");
                        w.history.push(format!("c{} hangs up", v));
                        w.conns[v].peer.hang_up();
                        tryf!(w.run());
                        let obs = w.drain_all();
                        let mut eff = Effects::default();
                        w.model.conn_gone(&mut eff, v);
                        tryf!(judge(&mut w, eff, obs));
                    }
                    2 => {
                        classes.insert("way:shutdown-connection");
                        w.history.push(format!("broker handle shuts down c{}", v));
                        let h = w.conns[v].handle.borrow().clone();
                        if let Some(ch) = h {
                            let mut bh = w.bus.handle.clone();
                            w.bus.sim.spawn("shutdown-conn", async move {
                                let _ = bh.shutdown_connection(&ch).await;
                            });
                            tryf!(w.run());
                            let mut obs = w.drain_all();
                            // the peer completes the shutdown handshake
                            if obs.get(&v).map(|l| l.iter().any(|m| matches!(m, Message::Shutdown(_)))).unwrap_or(false) {
                                w.conns[v].peer.send(Message::Shutdown(Shutdown));
                                tryf!(w.run());
                                for (c, l) in w.drain_all() {
                                    obs.entry(c).or_default().extend(l);
                                }
                            }
                            let mut eff = Effects::default();
                            eff.shutdown.insert(v);
                            w.model.conn_gone(&mut eff, v);
                            tryf!(judge(&mut w, eff, obs));
                        }
                    }
                    3 => {
                        classes.insert("way:task-dropped");
                        w.history.push(format!("task of c{} is dropped", v));
                        let task = w.conns[v].task;
                        w.bus.sim.kill(task);
                        w.zombies.insert(v);
                        w.model.unobservable.insert(v);
                        tryf!(w.run());
                        let obs = w.drain_all();
                        tryf!(judge(&mut w, Effects::default(), obs));
                    }
                    _ => {
                        classes.insert("way:dropped-after-forward");
                        // a request of the victim is forwarded to the broker's queue, then its task dies
                        let weights: Vec<(Op, u32)> = W_ALL.iter().copied().filter(|(o, _)| *o != Op::Connect && *o != Op::Reply).collect();
                        let mut msg = None;
                        for _ in 0..8 {
                            if let Some(Action::Inject(c, m)) = next_action(&mut t, &w, &weights) {
                                let _ = c;
                                msg = Some(m);
                                break;
                            }
                        }
                        let m = msg.unwrap_or(Message::Sync(Sync { serial: 9 }));
                        w.history.push(format!("c{} -> {} ; its task is dropped while the request is queued", v, crate::engine::short(&m)));
                        w.conns[v].peer.send(m.clone());
                        let task = w.conns[v].task;
                        let polls = 1 + t.below(3);
                        for _ in 0..polls {
                            w.bus.sim.poll_task(task);
                        }
                        w.bus.sim.kill(task);
                        w.zombies.insert(v);
                        w.model.unobservable.insert(v);
                        tryf!(w.run());
                        let obs = w.drain_all();
                        // variant A: the request was processed; variant B: it was not
                        let saved = w.model.clone();
                        let saved_z = w.zombies.clone();
                        let saved_notes = w.notes.len();
                        let eff = w.model.step(v, &m, &crate::model::ObsView::new(&obs));
                        let mut eff_a = eff;
                        eff_a.problems.clear();
                        let ra = judge(&mut w, eff_a, obs.clone());
                        if ra.is_err() {
                            w.model = saved;
                            w.zombies = saved_z;
                            w.notes.truncate(saved_notes);
                            match judge(&mut w, Effects::default(), obs) {
                                Ok(()) => {
                                    classes.insert("queued-request:not-processed");
                                }
                                Err(fb) => {
                                    let fa = ra.err().unwrap();
                                    let f = Fail::new(fa.signature.clone(), format!("(request processed) {}\n(request not processed) {}: {}", fa.detail, fb.signature, fb.detail));
                                    let text = w.history.join("\n");
                                    return (f.outcome(&w.history), text);
                                }
                            }
                        } else {
                            classes.insert("queued-request:processed");
                        }
                    }
                }
            }
            ops += 1;
            continue;
        }
        ops += 1;
        let Some(a) = next_action(&mut t, &w, W_ALL) else { continue };
        match a {
            Action::Connect(minor, legacy) => {
                if w.conns.len() < 7 {
                    tryf!(w.connect(minor, legacy));
                    let obs = w.drain_all();
                    tryf!(judge(&mut w, Effects::default(), obs));
                }
            }
            Action::HangUp(_) => {}
            Action::Inject(c, m) => {
                if w.zombies.contains(&c) {
                    continue;
                }
                let obs = tryf!(send_and_run(&mut w, c, &m));
                let eff = w.model.step(c, &m, &crate::model::ObsView::new(&obs));
                tryf!(judge(&mut w, eff, obs));
            }
        }
    }
    if victim_had_state {
        classes.insert("victim-owned-something");
    }
    // the end: either everything is ended and the broker stops when idle, or it is shut down
    if ending < 2 {
        classes.insert("end:shutdown-idle");
        let ids: Vec<C> = w.model.conns.iter().filter(|(_, c)| c.alive).map(|(i, _)| *i).collect();
        for c in ids {
            if w.zombies.contains(&c) {
                // a dropped task is reported to the broker explicitly at the latest now
                w.history.push(format!("broker handle shuts down dropped c{}", c));
                if let Some(ch) = w.conns[c].handle.borrow().clone() {
                    let mut bh = w.bus.handle.clone();
                    w.bus.sim.spawn("shutdown-conn", async move {
                        let _ = bh.shutdown_connection(&ch).await;
                    });
                }
                tryf!(w.run());
                let obs = w.drain_all();
                let mut eff = Effects::default();
                w.model.conn_gone(&mut eff, c);
                w.zombies.remove(&c);
                tryf!(judge(&mut w, eff, obs));
            } else {
                w.history.push(format!("c{} hangs up", c));
                w.conns[c].peer.hang_up();
                tryf!(w.run());
                let obs = w.drain_all();
                let mut eff = Effects::default();
                w.model.conn_gone(&mut eff, c);
                tryf!(judge(&mut w, eff, obs));
            }
        }
        // nothing may be left
        let p = tryf!(probe(&mut w));
        let s = &p.snap;
        if s.conns + s.objs + s.obj_uuids + s.svcs + s.svc_uuids + s.function_calls + s.channels + s.bus_listeners != 0 {
            let f = Fail::new("residual-state:after-all-connections-gone", format!("all connections are gone but the broker still holds {:?}", s));
            let text = w.history.join("\n");
            return (f.outcome(&w.history), text);
        }
        let mut bh = w.bus.handle.clone();
        w.bus.sim.spawn("shutdown-idle", async move { bh.shutdown_idle().await });
        w.history.push("shutdown_idle".into());
        tryf!(w.run());
        if w.bus.broker_done.borrow().is_none() {
            let f = Fail::new("shutdown-idle:broker-still-running", "no connection is left and shutdown_idle was requested, but Broker::run has not completed");
            let text = w.history.join("\n");
            return (f.outcome(&w.history), text);
        }
    } else {
        classes.insert("end:shutdown-now");
        let mut bh = w.bus.handle.clone();
        w.bus.sim.spawn("shutdown", async move { bh.shutdown().await });
        w.history.push("shutdown".into());
        tryf!(w.run());
        let obs = w.drain_all();
        // every live connection gets exactly one Shutdown and nothing else
        let ids: Vec<C> = w.model.conns.iter().filter(|(_, c)| c.alive).map(|(i, _)| *i).collect();
        for c in ids {
            if w.zombies.contains(&c) {
                continue;
            }
            let got = obs.get(&c).cloned().unwrap_or_default();
            let n_shutdown = got.iter().filter(|m| matches!(m, Message::Shutdown(_))).count();
            if n_shutdown != 1 {
                let f = Fail::new("shutdown:message-count", format!("connection c{} received {} Shutdown messages on broker shutdown: {}", c, n_shutdown, crate::engine::render_list(&got)));
                let text = w.history.join("\n");
                return (f.outcome(&w.history), text);
            }
        }
        if w.bus.broker_done.borrow().is_none() {
            let f = Fail::new("shutdown:broker-still-running", "shutdown was requested but Broker::run has not completed");
            let text = w.history.join("\n");
            return (f.outcome(&w.history), text);
        }
    }
    let notes: BTreeSet<&'static str> = w.notes.iter().copied().collect();
    for n in ["zombie-removed-by-send", "cascade:owner-disconnect", "channel-end-closed-by-disconnect", "unsubscribe-by-disconnect", "abort-by-caller-disconnect"] {
        if notes.contains(n) {
            classes.insert(n);
        }
    }
    let mut key = vec![];
    for h in &w.history {
        key.extend_from_slice(h.as_bytes());
    }
    let nontrivial = victim_had_state || classes.contains("queued-request:processed") || classes.contains("queued-request:not-processed");
    let text = w.history.join("\n");
    (Outcome::Pass(PassInfo { nontrivial, fp: fingerprint(&key), classes: classes.into_iter().collect() }), text)
}

/// Systematic class: base histories x every fault step 0..24 x the five ways.
fn systematic(ctx: &mut Ctx) {
    let bases = match ctx.tier {
        Tier::Quick => 12,
        Tier::Thorough => 120,
    };
    let mut rng = SplitMix(ctx.seed ^ 0xC09);
    for _ in 0..bases {
        let len = 200 + rng.below(400);
        let mut base: Vec<u8> = (0..len).map(|_| rng.next() as u8).collect();
        for k in 0..25u8 {
            for way in 0..5u8 {
                // header layout: det(4) sched(2) policy(1) fault_at(1) way(1) victim(1) ending(1)
                base[7] = ((k as u16 * 256 + 255) / 30) as u8; // below(30) == k
                base[8] = ((way as u16 * 256 + 255) / 5) as u8; // below(5) == way
                ctx.eval_case("systematic", &base);
            }
        }
    }
}
