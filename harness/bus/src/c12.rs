//! C12 Version negotiation, feature gating and cross-version payload interop.

use crate::engine::{Fail, World};
use crate::gen::{payload, sv_from_bytes};
use crate::refcodec::{self, Mode};
use aldrin_broker::Acceptor;
use aldrin_core::channel;
use aldrin_core::message::*;
use aldrin_core::{ChannelCookie, ChannelEndWithCapacity, ObjectCookie, ObjectUuid, SerializedValue, ServiceCookie, ServiceInfo, ServiceUuid, TypeId};
use simbus::peer::{handshake, Bus, ConnectAs, RawPeer};
use simbus::{Policy, Sim};
use uuid::Uuid;
use vcommon::{fingerprint, CheckDef, ClassPlan, Ctx, Outcome, PassInfo, Tape, Tier};

const STACK: usize = 8 << 20;

pub static DEF: CheckDef = CheckDef {
    id: "C12",
    level: "exploration",
    rule: "(handshake, enumerated completely) legacy Connect{version m} for m in {0,13,14,15,20,21,255,u32::MAX} and Connect2{major in {0,1,2}, minor in {0,13,14..21,255,u32::MAX}} x with/without user data x accept/reject through the public Acceptor: success exactly for legacy 1.14 and new 1.x>=14, negotiated = min(minor,20), otherwise the matching incompatible-version reply; accepted connections answer Sync, refused ones are closed. (gating, enumerated completely) negotiated version 1.14..1.20 x every client-to-broker kind that has a version gate (and ungated control kinds): connection closed iff the kind is newer than the version (table restated from the changelog), state released. (mixed, generated) histories (<= 50 steps, concurrent batches) of every kind of bus activity incl. disconnects between 2-7 raw peers of versions 1.14..1.20, lock-step against the reference model, and every message any connection receives must exist in its negotiated version and carry no 1.20 container encoding below 1.20. (traffic, generated) ordered version pairs x {call, reply, event, item, call2-with-version} x generated payloads in the sender's epoch: the receiver gets the form its version understands (CallFunction below 1.19, no AbortFunctionCall below 1.16), payload meaning preserved, no 1.20 encodings below 1.20. Non-trivial: the two ends differ in epoch or in a gated feature. Distinct = matrix cell / concrete traffic case.",
    assumptions: &[
        "version table restated from the changelog: abort 1.16; introspection + CreateService2 + QueryServiceInfo 1.17; service/all-events subscription 1.18; CallFunction2 1.19; epoch-2 encodings 1.20",
        "the real ClientBuilder side of the handshake is exercised by the client-level checks (C06/C15), not here",
    ],
    plan,
    case,
    render,
    crashy: false,
    floors: &[("traffic:epoch-differs", 0.1), ("traffic:call2-to-older", 0.015), ("traffic:abort-to-older", 0.005), ("version:abort-withheld-from-old-callee:disconnect", 0.002), ("version:call-to-pre-1.19-callee", 0.01)],
    extra: Some(matrices),
    extra_coverage: Some(|_| serde_json::json!({"exhaustive_classes": ["handshake", "gating"]})),
};

fn plan(t: Tier) -> Vec<ClassPlan> {
    let k = match t {
        Tier::Quick => 1,
        Tier::Thorough => 25,
    };
    vec![
        ClassPlan { class: "traffic", cases: 30_000 * k, min_len: 12, max_len: 300 },
        ClassPlan { class: "mixed", cases: 20_000 * k, min_len: 16, max_len: 1200 },
    ]
}

fn case(class: &str, tape: &[u8], _strict: bool) -> Outcome {
    if class == "mixed" {
        return crate::checks::run_history(&crate::checks::P_C12, tape);
    }
    let tape = tape.to_vec();
    let class = class.to_string();
    let det = Tape::new(&tape).u32() as u64;
    match vcommon::with_det_seed(det, STACK, move || match class.as_str() {
        "handshake" => handshake_case(&tape),
        "gating" => gating_case(&tape),
        _ => traffic_case(&tape),
    }) {
        Ok(o) => o,
        Err(_) => {
            let pn = vcommon::last_panic_any_thread();
            Outcome::fail(format!("harness-panic:{}", pn.location()), format!("case thread panicked: {}", pn.0))
        }
    }
}

fn render(class: &str, tape: &[u8]) -> String {
    match class {
        "mixed" => crate::checks::render_history(&crate::checks::P_C12, tape),
        "handshake" => {
            let h = decode_handshake(tape);
            format!("handshake legacy={} major={} minor={} user_data={} accept={}", h.legacy, h.major, h.minor, h.user, h.accept)
        }
        "gating" => {
            let (v, k) = decode_gating(tape);
            format!("gating: negotiated 1.{} sends {}", v, GATED[k].0)
        }
        _ => {
            let tape = tape.to_vec();
            let det = Tape::new(&tape).u32() as u64;
            vcommon::with_det_seed(det, STACK, move || traffic(&tape).1).unwrap_or_else(|_| "<render panicked>".into())
        }
    }
}

// ---------------------------------------------------------------------------------------------
// handshake matrix

struct Hs {
    legacy: bool,
    major: u32,
    minor: u32,
    user: bool,
    accept: bool,
}

const LEGACY_VERSIONS: [u32; 8] = [0, 13, 14, 15, 20, 21, 255, u32::MAX];
const MAJORS: [u32; 3] = [0, 1, 2];
const MINORS: [u32; 12] = [0, 13, 14, 15, 16, 17, 18, 19, 20, 21, 255, u32::MAX];

fn decode_handshake(tape: &[u8]) -> Hs {
    // tape: det(4) legacy(1) major_idx(1) minor_idx(1) user(1) accept(1)
    let g = |i: usize| tape.get(i).copied().unwrap_or(0) as usize;
    let legacy = g(4) == 1;
    Hs {
        legacy,
        major: if legacy { 1 } else { MAJORS[g(5) % 3] },
        minor: if legacy { LEGACY_VERSIONS[g(6) % 8] } else { MINORS[g(6) % 12] },
        user: g(7) == 1,
        accept: g(8) == 1,
    }
}

fn handshake_case(tape: &[u8]) -> Outcome {
    let h = decode_handshake(tape);
    let mut bus = Bus::new(Sim::new(1, Policy::Random));
    let (a, b) = channel::unbounded();
    let mut peer = RawPeer::new(a);
    let user = SerializedValue::serialize(0x5EEDu32).unwrap();
    let reply_user = SerializedValue::serialize("welcome").unwrap();
    let v = if h.legacy { ConnectAs::Legacy(h.minor) } else { ConnectAs::New(h.major, h.minor) };
    peer.send(handshake(v, if h.user { Some(user.clone()) } else { None }));
    let mut handle = bus.handle.clone();
    let accept = h.accept;
    let with_user = h.user;
    let ru = reply_user.clone();
    let (_, slot) = bus.sim.spawn_out("acceptor", async move {
        match Acceptor::new(b).await {
            Ok(mut acc) => {
                let version = acc.version();
                let data = acc.client_data().map(|d| d.to_vec());
                if with_user {
                    acc.set_reply_data(ru);
                }
                if accept {
                    match acc.accept(&mut handle).await {
                        Ok(conn) => {
                            let r = conn.run().await;
                            Ok((version, data, format!("run: {:?}", r.map_err(|e| format!("{:?}", e)))))
                        }
                        Err(e) => Err(format!("accept failed: {:?}", e)),
                    }
                } else {
                    acc.reject().await.map(|()| (version, data, "rejected".to_string())).map_err(|e| format!("reject failed: {:?}", e))
                }
            }
            Err(e) => Err(format!("{:?}", e)),
        }
    });
    let r = bus.sim.run(50_000);
    if r.exhausted {
        return Outcome::fail("livelock:handshake", "handshake did not reach quiescence");
    }
    if let Some((task, p)) = bus.sim.panics().first() {
        return Outcome::fail(format!("panic:{}:{}", task, p.location()), p.0.clone());
    }
    let replies = peer.drain();
    let compatible = if h.legacy { h.minor == 14 } else { h.major == 1 && h.minor >= 14 };
    let negotiated = h.minor.min(20);
    let desc = format!("legacy={} {}.{} user={} accept={}", h.legacy, h.major, h.minor, h.user, h.accept);
    let sem_of = |v: &SerializedValue| -> String {
        let b: &[u8] = v;
        refcodec::decode_all(b, Mode::Skip).map(|d| format!("{:?}", refcodec::sem(&d.tree))).unwrap_or_else(|_| "undecodable".into())
    };
    let fail = |sig: &str, why: String| Outcome::fail(sig, format!("{}: {}; replies {:?}; acceptor task {:?}", desc, why, replies, slot.borrow()));
    if replies.len() != 1 {
        return fail("handshake:reply-count", format!("{} replies", replies.len()));
    }
    match (&replies[0], h.legacy, compatible, h.accept) {
        (Message::ConnectReply(ConnectReply::IncompatibleVersion(14)), true, false, _) => {}
        (Message::ConnectReply2(ConnectReply2 { result: ConnectResult::IncompatibleVersion, .. }), false, false, _) => {}
        (Message::ConnectReply(ConnectReply::Ok(v)), true, true, true) => {
            let want = if h.user { sem_of(&reply_user) } else { sem_of(&SerializedValue::serialize(()).unwrap()) };
            if sem_of(v) != want {
                return fail("handshake:reply-data", "reply data differs".into());
            }
        }
        (Message::ConnectReply(ConnectReply::Rejected(_)), true, true, false) => {}
        (Message::ConnectReply2(ConnectReply2 { result: ConnectResult::Ok(m), value }), false, true, true) => {
            if *m != negotiated {
                return fail("handshake:negotiated-version", format!("negotiated minor {} but min(client, 20) = {}", m, negotiated));
            }
            // reply data: struct with optional user field
            let s = sem_of(value);
            if h.user != s.contains("119, 101, 108, 99, 111, 109, 101") {
                return fail("handshake:reply-data", format!("reply data {}", s));
            }
        }
        (Message::ConnectReply2(ConnectReply2 { result: ConnectResult::Rejected, .. }), false, true, false) => {}
        _ => return fail("handshake:wrong-reply", format!("compatible={} negotiated={}", compatible, negotiated)),
    }
    // what the acceptor saw
    if compatible {
        let got = slot.borrow().clone();
        match (&got, h.accept) {
            (None, true) => {} // still running the connection
            (Some(Ok((ver, data, _))), false) => {
                if ver.major() != 1 || ver.minor() != negotiated {
                    return fail("handshake:acceptor-version", format!("Acceptor::version() = {}", ver));
                }
                let want = if h.user { Some(user.to_vec()) } else if h.legacy { Some(vec![0]) } else { None };
                if data.as_ref().map(|d| sem_bytes(d)) != want.as_ref().map(|d| sem_bytes(d)) {
                    return fail("handshake:client-data", format!("client data {:?}", data));
                }
            }
            other => return fail("handshake:acceptor-result", format!("{:?}", other.0)),
        }
    }
    // accepted connections are served, refused ones are closed
    if compatible && h.accept {
        peer.send(Message::Sync(Sync { serial: 3 }));
        bus.sim.run(50_000);
        let r2 = peer.drain();
        if !matches!(r2.as_slice(), [Message::SyncReply(SyncReply { serial: 3 })]) || peer.disconnected {
            return fail("handshake:not-served", format!("after a successful handshake Sync was answered with {:?}", r2));
        }
    } else {
        bus.sim.run(50_000);
        let _ = peer.drain();
        if !peer.disconnected {
            return fail("handshake:not-closed", "the transport is still open after a refused handshake".into());
        }
    }
    let key = [h.legacy as u8, h.major as u8, (h.minor & 0xFF) as u8, (h.minor >> 24) as u8, h.user as u8, h.accept as u8];
    Outcome::Pass(PassInfo {
        nontrivial: true,
        fp: fingerprint(&key),
        classes: vec![if compatible { "handshake:compatible" } else { "handshake:incompatible" }],
    })
}

fn sem_bytes(b: &[u8]) -> String {
    refcodec::decode_all(b, Mode::Skip).map(|d| format!("{:?}", refcodec::sem(&d.tree))).unwrap_or_else(|_| format!("raw{:?}", b))
}

// ---------------------------------------------------------------------------------------------
// gating matrix

/// (name, version that introduced it; 0 = always allowed; 99 = never allowed from a client)
const GATED: [(&str, u32); 14] = [
    ("AbortFunctionCall", 16),
    ("RegisterIntrospection", 17),
    ("QueryIntrospection", 17),
    ("CreateService2", 17),
    ("QueryServiceInfo", 17),
    ("SubscribeService", 18),
    ("UnsubscribeService", 18),
    ("SubscribeAllEvents", 18),
    ("UnsubscribeAllEvents", 18),
    ("CallFunction2", 19),
    ("CallFunction", 0),
    ("QueryServiceVersion", 0),
    ("Sync", 0),
    ("SubscribeEvent", 0),
];

fn decode_gating(tape: &[u8]) -> (u32, usize) {
    let g = |i: usize| tape.get(i).copied().unwrap_or(0) as usize;
    (14 + (g(4) % 7) as u32, g(5) % GATED.len())
}

fn gated_message(name: &str, sc: ServiceCookie, oc: ObjectCookie) -> Message {
    let unit = || SerializedValue::serialize(()).unwrap();
    match name {
        "AbortFunctionCall" => Message::AbortFunctionCall(AbortFunctionCall { serial: 40 }),
        "RegisterIntrospection" => Message::RegisterIntrospection(RegisterIntrospection { value: SerializedValue::serialize(&std::collections::HashSet::<TypeId>::new()).unwrap() }),
        "QueryIntrospection" => Message::QueryIntrospection(QueryIntrospection { serial: 41, type_id: TypeId(Uuid::from_u128(1)) }),
        "CreateService2" => Message::CreateService2(CreateService2 { serial: 42, object_cookie: oc, uuid: ServiceUuid(Uuid::from_u128(0xB2)), value: SerializedValue::serialize(ServiceInfo::new(1)).unwrap() }),
        "QueryServiceInfo" => Message::QueryServiceInfo(QueryServiceInfo { serial: 43, cookie: sc }),
        "SubscribeService" => Message::SubscribeService(SubscribeService { serial: 44, service_cookie: sc }),
        "UnsubscribeService" => Message::UnsubscribeService(UnsubscribeService { service_cookie: sc }),
        "SubscribeAllEvents" => Message::SubscribeAllEvents(SubscribeAllEvents { serial: Some(45), service_cookie: sc }),
        "UnsubscribeAllEvents" => Message::UnsubscribeAllEvents(UnsubscribeAllEvents { serial: Some(46), service_cookie: sc }),
        "CallFunction2" => Message::CallFunction2(CallFunction2 { serial: 47, service_cookie: sc, function: 1, version: Some(2), value: unit() }),
        "CallFunction" => Message::CallFunction(CallFunction { serial: 48, service_cookie: sc, function: 1, value: unit() }),
        "QueryServiceVersion" => Message::QueryServiceVersion(QueryServiceVersion { serial: 49, cookie: sc }),
        "SubscribeEvent" => Message::SubscribeEvent(SubscribeEvent { serial: Some(50), service_cookie: sc, event: 1 }),
        _ => Message::Sync(Sync { serial: 51 }),
    }
}

fn gating_case(tape: &[u8]) -> Outcome {
    let (v, k) = decode_gating(tape);
    let (name, since) = GATED[k];
    let mut w = World::new(1, Policy::Random);
    macro_rules! tryf {
        ($e:expr) => {
            match $e {
                Ok(v) => v,
                Err(f) => return f.outcome(&w.history),
            }
        };
    }
    // a 1.20 owner provides an object and a service; the tested connection owns an object too
    let owner = tryf!(w.connect(20, false));
    let c = tryf!(w.connect(v, v == 14 && tape.get(6).copied().unwrap_or(0) == 1));
    tryf!(w.inject(owner, Message::CreateObject(CreateObject { serial: 1, uuid: ObjectUuid(Uuid::from_u128(0xA0)) })));
    let oc = w.model.objs[&Uuid::from_u128(0xA0)].cookie;
    let info = ServiceInfo::new(3).set_subscribe_all(true);
    tryf!(w.inject(owner, Message::CreateService2(CreateService2 { serial: 2, object_cookie: ObjectCookie(oc), uuid: ServiceUuid(Uuid::from_u128(0xB0)), value: SerializedValue::serialize(info).unwrap() })));
    let sc = ServiceCookie(w.model.objs[&Uuid::from_u128(0xA0)].services[&Uuid::from_u128(0xB0)].cookie);
    tryf!(w.inject(c, Message::CreateObject(CreateObject { serial: 3, uuid: ObjectUuid(Uuid::from_u128(0xA1)) })));
    let my_oc = ObjectCookie(w.model.objs[&Uuid::from_u128(0xA1)].cookie);
    tryf!(w.inject(c, Message::CreateChannel(CreateChannel { serial: 4, end: ChannelEndWithCapacity::Sender })));
    // the gated message; the model (which encodes the table above) says what must happen, incl.
    // the release of the object and channel if the connection is closed
    let m = gated_message(name, sc, my_oc);
    tryf!(w.inject(c, m));
    let closed = !w.model.conns[&c].alive;
    let must_close = since > v;
    if closed != must_close {
        return Fail::new("gating:model-table-mismatch", format!("harness: model and table disagree for {} at 1.{}", name, v)).outcome(&w.history);
    }
    if !closed {
        tryf!(w.inject(c, Message::Sync(Sync { serial: 60 })));
    } else {
        // its state was released: the owner can take over the object uuid
        tryf!(w.inject(owner, Message::CreateObject(CreateObject { serial: 61, uuid: ObjectUuid(Uuid::from_u128(0xA1)) })));
    }
    Outcome::Pass(PassInfo {
        nontrivial: since != 0,
        fp: fingerprint(&[v as u8, k as u8]),
        classes: vec![if must_close { "gating:closed" } else { "gating:allowed" }],
    })
}

// ---------------------------------------------------------------------------------------------
// cross-version traffic

fn traffic_case(tape: &[u8]) -> Outcome {
    traffic(tape).0
}

fn traffic(tape: &[u8]) -> (Outcome, String) {
    let mut t = Tape::new(tape);
    let _det = t.u32();
    let va = 14 + t.below(7) as u32;
    let vb = 14 + t.below(7) as u32;
    let mut w = World::new(t.u16() as u64, Policy::from_u8(t.u8()));
    let mut classes: Vec<&'static str> = vec![];
    macro_rules! tryf {
        ($e:expr) => {
            match $e {
                Ok(v) => v,
                Err(f) => {
                    let text = w.history.join("\n");
                    return (f.outcome(&w.history), text);
                }
            }
        };
    }
    let a = tryf!(w.connect(va, va == 14 && t.bool()));
    let b = tryf!(w.connect(vb, vb == 14 && t.bool()));
    // b owns an object with a service; a owns a channel receiver
    tryf!(w.inject(b, Message::CreateObject(CreateObject { serial: 1, uuid: ObjectUuid(Uuid::from_u128(0xA0)) })));
    let oc = ObjectCookie(w.model.objs[&Uuid::from_u128(0xA0)].cookie);
    tryf!(w.inject(b, Message::CreateService(CreateService { serial: 2, object_cookie: oc, uuid: ServiceUuid(Uuid::from_u128(0xB0)), version: 1 })));
    let sc = ServiceCookie(w.model.objs[&Uuid::from_u128(0xA0)].services[&Uuid::from_u128(0xB0)].cookie);
    if (va >= 20) != (vb >= 20) {
        classes.push("traffic:epoch-differs");
    }
    let rounds = t.range(1, 4);
    let mut key = vec![va as u8, vb as u8];
    for r in 0..rounds {
        let carrier = t.below(6);
        key.push(carrier as u8);
        match carrier {
            0 | 1 => {
                // a calls b's service (either form where a's version allows), b replies
                let serial = 10 + r as u32;
                let value = payload(&mut t, va);
                key.extend_from_slice(&value);
                let use2 = va >= 19 && t.bool();
                if use2 {
                    let version = if t.bool() { Some(t.below(4) as u32) } else { None };
                    tryf!(w.inject(a, Message::CallFunction2(CallFunction2 { serial, service_cookie: sc, function: 1, version, value })));
                    if vb < 19 {
                        classes.push("traffic:call2-to-older");
                    }
                } else {
                    tryf!(w.inject(a, Message::CallFunction(CallFunction { serial, service_cookie: sc, function: 1, value })));
                }
                let Some(cs) = w.model.calls.iter().find(|k| k.caller == a && k.caller_serial == serial).map(|k| k.callee_serial) else { continue };
                if carrier == 1 && va >= 16 {
                    // abort instead of a reply
                    tryf!(w.inject(a, Message::AbortFunctionCall(AbortFunctionCall { serial })));
                    if vb < 16 {
                        classes.push("traffic:abort-to-older");
                    }
                    tryf!(w.inject(b, Message::CallFunctionReply(CallFunctionReply { serial: cs, result: CallFunctionResult::Aborted })));
                } else {
                    let rv = payload(&mut t, vb);
                    key.extend_from_slice(&rv);
                    let result = if t.bool() { CallFunctionResult::Ok(rv) } else { CallFunctionResult::Err(rv) };
                    tryf!(w.inject(b, Message::CallFunctionReply(CallFunctionReply { serial: cs, result })));
                }
            }
            2 | 3 => {
                // a subscribes, b emits
                tryf!(w.inject(a, Message::SubscribeEvent(SubscribeEvent { serial: Some(20 + r as u32), service_cookie: sc, event: 1 })));
                let value = payload(&mut t, vb);
                key.extend_from_slice(&value);
                tryf!(w.inject(b, Message::EmitEvent(EmitEvent { service_cookie: sc, event: 1, value })));
            }
            _ => {
                // a receives items from b
                tryf!(w.inject(a, Message::CreateChannel(CreateChannel { serial: 30 + r as u32, end: ChannelEndWithCapacity::Receiver(3) })));
                let Some(k) = w.model.chans.iter().find(|(_, ch)| ch.receiver == crate::model::End::Claimed(a) && ch.sender == crate::model::End::Unclaimed).map(|(k, _)| *k) else { continue };
                tryf!(w.inject(b, Message::ClaimChannelEnd(ClaimChannelEnd { serial: 31, cookie: ChannelCookie(k), end: ChannelEndWithCapacity::Sender })));
                for _ in 0..t.range(1, 3) {
                    let value = payload(&mut t, vb);
                    key.extend_from_slice(&value);
                    tryf!(w.inject(b, Message::SendItem(SendItem { cookie: ChannelCookie(k), value })));
                }
            }
        }
    }
    let _ = sv_from_bytes(&[0]);
    let nontrivial = (va >= 20) != (vb >= 20) || (va >= 19) != (vb >= 19) || (va >= 16) != (vb >= 16);
    let text = w.history.join("\n");
    (Outcome::Pass(PassInfo { nontrivial, fp: fingerprint(&key), classes }), text)
}

// ---------------------------------------------------------------------------------------------
// complete enumeration of the two matrices

fn matrices(ctx: &mut Ctx) {
    // handshake
    for legacy in 0..2u8 {
        let (majors, minors) = if legacy == 1 { (1usize, LEGACY_VERSIONS.len()) } else { (MAJORS.len(), MINORS.len()) };
        for mj in 0..majors {
            for mi in 0..minors {
                for user in 0..2u8 {
                    for accept in 0..2u8 {
                        ctx.eval_case("handshake", &[1, 0, 0, 0, legacy, mj as u8, mi as u8, user, accept]);
                    }
                }
            }
        }
    }
    // gating
    for v in 0..7u8 {
        for k in 0..GATED.len() as u8 {
            for legacy in 0..(if v == 0 { 2u8 } else { 1 }) {
                ctx.eval_case("gating", &[2, 0, 0, 0, v, k, legacy]);
            }
        }
    }
}
