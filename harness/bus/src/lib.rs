#![allow(dead_code)]
pub mod c09;
pub mod c11;
pub mod c12;
pub mod checks;
pub mod conformance;
pub mod engine;
pub mod gen;
pub mod model;
pub use codec::refcodec;
pub use codec::refmsg;
pub use codec::vgen;

pub mod glue {
    pub use crate::gen::sv_from_bytes;
}

pub fn defs() -> Vec<&'static vcommon::CheckDef> {
    vec![&checks::C02, &checks::C03, &checks::C04, &checks::C05, &checks::C10, &c09::DEF, &c11::DEF, &c12::DEF]
}
