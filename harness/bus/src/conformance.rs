//! Replays the repository's own conformance scenarios (conformance-tester/tests/*.json) through
//! the lock-step engine: every `send` becomes `World::inject` (reference model vs. real broker),
//! every upstream `receive` expectation is additionally matched against what the connection
//! really received. The meaning of every step and field is restated from the conformance
//! tester's source (conformance-tester/src/**).

use crate::engine::{render_list, short, Fail, World};
use crate::model::{Effects, Observed, C};
use aldrin_core::message::*;
use aldrin_core::{
    BusEvent, BusListenerCookie, BusListenerFilter, BusListenerScope, ChannelCookie, ChannelEnd,
    ChannelEndWithCapacity, ObjectCookie, ObjectId, ObjectUuid, ProtocolVersion, SerializedValue,
    SerializedValueSlice, ServiceCookie, ServiceId, ServiceInfo, ServiceUuid, TypeId, ValueKind,
};
use serde_json::{json, Map, Value as J};
use simbus::Policy;
use std::collections::{BTreeMap, HashSet};
use std::path::PathBuf;
use uuid::Uuid;
use vcommon::{fingerprint, Outcome, PassInfo};

type Obj = Map<String, J>;

/// Why a replay stops early.
enum Stop {
    /// model != broker, or an upstream expectation is not met
    Fail(Fail),
    /// the scenario uses something this translator does not support
    Unsupported(String),
    /// the scenario itself is malformed by the tester's own rules (unknown variable, missing field)
    Scenario(String),
}

type R<T> = Result<T, Stop>;

fn bad<T>(msg: impl Into<String>) -> R<T> {
    Err(Stop::Scenario(msg.into()))
}

// ---------------------------------------------------------------------------------------------
// variables (`get:` / `set:`), restated from serial.rs / uuid_ref.rs / context.rs

#[derive(Default)]
struct Vars {
    serials: BTreeMap<String, u32>,
    uuids: BTreeMap<String, Uuid>,
}

enum Ref<T> {
    Const(T),
    Get(String),
    Set(String),
}

/// `get:` is looked for first, anywhere in the string (split_once), then `set:`.
fn var_ref(s: &str) -> Option<Ref<()>> {
    if let Some((_, id)) = s.split_once("get:") {
        return Some(Ref::Get(id.to_string()));
    }
    if let Some((_, id)) = s.split_once("set:") {
        return Some(Ref::Set(id.to_string()));
    }
    None
}

fn serial_ref(j: &J) -> R<Ref<u32>> {
    match j {
        J::Number(n) => match n.as_u64().and_then(|v| u32::try_from(v).ok()) {
            Some(v) => Ok(Ref::Const(v)),
            None => bad(format!("serial {} is not in 0-4294967295", n)),
        },
        J::String(s) => match var_ref(s) {
            Some(Ref::Get(id)) if !id.is_empty() => Ok(Ref::Get(id)),
            Some(Ref::Set(id)) if !id.is_empty() => Ok(Ref::Set(id)),
            _ => bad(format!("serial `{}` is neither a number nor get:/set:", s)),
        },
        other => bad(format!("serial {} is neither a number nor a string", other)),
    }
}

fn uuid_ref(j: &J) -> R<Ref<Uuid>> {
    match j {
        J::String(s) => match var_ref(s) {
            Some(Ref::Get(id)) if !id.is_empty() => Ok(Ref::Get(id)),
            Some(Ref::Set(id)) if !id.is_empty() => Ok(Ref::Set(id)),
            Some(_) => bad(format!("UUID `{}`: the id cannot be empty", s)),
            None => match s.parse::<Uuid>() {
                Ok(u) => Ok(Ref::Const(u)),
                Err(_) => bad(format!("failed to parse UUID `{}`", s)),
            },
        },
        other => bad(format!("UUID {} is not a string", other)),
    }
}

impl Vars {
    fn serial(&self, j: &J) -> R<u32> {
        match serial_ref(j)? {
            Ref::Const(v) => Ok(v),
            Ref::Get(id) => self.serials.get(&id).copied().ok_or_else(|| Stop::Scenario(format!("unknown serial `{}`", id))),
            Ref::Set(_) => bad("cannot use a `set:` serial"),
        }
    }

    fn uuid(&self, j: &J) -> R<Uuid> {
        match uuid_ref(j)? {
            Ref::Const(v) => Ok(v),
            Ref::Get(id) => self.uuids.get(&id).copied().ok_or_else(|| Stop::Scenario(format!("unknown UUID `{}`", id))),
            Ref::Set(_) => bad("cannot use a `set:` UUID"),
        }
    }
}

// ---------------------------------------------------------------------------------------------
// field access on a JSON step / message object

fn present<'a>(o: &'a Obj, k: &str) -> Option<&'a J> {
    match o.get(k) {
        None | Some(J::Null) => None,
        Some(v) => Some(v),
    }
}

fn req<'a>(o: &'a Obj, k: &str) -> R<&'a J> {
    present(o, k).ok_or_else(|| Stop::Scenario(format!("missing field `{}` in {}", k, J::Object(o.clone()))))
}

fn tag<'a>(o: &'a Obj, k: &str) -> R<&'a str> {
    match req(o, k)? {
        J::String(s) => Ok(s.as_str()),
        other => bad(format!("field `{}` must be a string, found {}", k, other)),
    }
}

fn num_u32(j: &J, k: &str) -> R<u32> {
    match j.as_u64().and_then(|v| u32::try_from(v).ok()) {
        Some(v) => Ok(v),
        None => bad(format!("field `{}` must be a 32 bit unsigned integer, found {}", k, j)),
    }
}

fn get_u32(o: &Obj, k: &str) -> R<u32> {
    num_u32(req(o, k)?, k)
}

fn opt_u32(o: &Obj, k: &str) -> R<Option<u32>> {
    match present(o, k) {
        None => Ok(None),
        Some(j) => num_u32(j, k).map(Some),
    }
}

fn opt_bool(o: &Obj, k: &str) -> R<Option<bool>> {
    match present(o, k) {
        None => Ok(None),
        Some(J::Bool(b)) => Ok(Some(*b)),
        Some(other) => bad(format!("field `{}` must be a boolean, found {}", k, other)),
    }
}

fn flag(o: &Obj, k: &str, default: bool) -> R<bool> {
    Ok(opt_bool(o, k)?.unwrap_or(default))
}

/// Client ids: an omitted client is the client named `default` (client_id.rs).
fn client_of(o: &Obj, k: &str) -> R<Option<String>> {
    match present(o, k) {
        None => Ok(None),
        Some(J::String(s)) => Ok(Some(s.clone())),
        Some(other) => bad(format!("field `{}` must be a string, found {}", k, other)),
    }
}

fn obj(j: J) -> Obj {
    match j {
        J::Object(o) => o,
        _ => unreachable!("json!({{..}}) is an object"),
    }
}

/// The flattened value notation (`value-type` + `value`), copied from one object to another.
fn copy_value(from: &Obj, to: &mut Obj) {
    for k in ["value-type", "value"] {
        if let Some(v) = from.get(k) {
            to.insert(k.to_string(), v.clone());
        }
    }
}

// ---------------------------------------------------------------------------------------------
// JSON message -> protocol message (the `to_core` functions of message/*.rs)

fn value_to_core(o: &Obj) -> R<SerializedValue> {
    match tag(o, "value-type")? {
        // value.rs: None and Ignore are both written as none
        "none" | "ignore" => Ok(SerializedValue::serialize(()).unwrap()),
        "i32" => {
            let j = req(o, "value")?;
            match j.as_i64().and_then(|v| i32::try_from(v).ok()) {
                Some(v) => Ok(SerializedValue::serialize(v).unwrap()),
                None => bad(format!("i32 value {} out of range", j)),
            }
        }
        other => Err(Stop::Unsupported(format!("value-type `{}`", other))),
    }
}

fn info_to_core(o: &Obj, vars: &Vars) -> R<ServiceInfo> {
    let mut info = ServiceInfo::new(get_u32(o, "version")?);
    if let Some(t) = present(o, "type-id") {
        info = info.set_type_id(TypeId(vars.uuid(t)?));
    }
    if let Some(b) = opt_bool(o, "subscribe-all")? {
        info = info.set_subscribe_all(b);
    }
    Ok(info)
}

fn end_to_core(o: &Obj) -> R<ChannelEnd> {
    match tag(o, "end")? {
        "sender" => Ok(ChannelEnd::Sender),
        "receiver" => Ok(ChannelEnd::Receiver),
        other => bad(format!("unknown channel end `{}`", other)),
    }
}

fn end_cap_to_core(o: &Obj) -> R<ChannelEndWithCapacity> {
    match tag(o, "end")? {
        "sender" => Ok(ChannelEndWithCapacity::Sender),
        "receiver" => Ok(ChannelEndWithCapacity::Receiver(get_u32(o, "capacity")?)),
        other => bad(format!("unknown channel end `{}`", other)),
    }
}

fn filter_to_core(o: &Obj, vars: &Vars) -> R<BusListenerFilter> {
    let ou = |k: &str| -> R<ObjectUuid> { Ok(ObjectUuid(vars.uuid(req(o, k)?)?)) };
    let su = |k: &str| -> R<ServiceUuid> { Ok(ServiceUuid(vars.uuid(req(o, k)?)?)) };
    Ok(match tag(o, "filter")? {
        "any-object" => BusListenerFilter::any_object(),
        "specific-object" => BusListenerFilter::object(ou("object")?),
        "any-object-any-service" => BusListenerFilter::any_object_any_service(),
        "specific-object-any-service" => BusListenerFilter::specific_object_any_service(ou("object")?),
        "any-object-specific-service" => BusListenerFilter::any_object_specific_service(su("service")?),
        "specific-object-specific-service" => BusListenerFilter::specific_object_and_service(ou("object")?, su("service")?),
        other => return bad(format!("unknown filter `{}`", other)),
    })
}

fn scope_to_core(o: &Obj) -> R<BusListenerScope> {
    match tag(o, "scope")? {
        "current" => Ok(BusListenerScope::Current),
        "new" => Ok(BusListenerScope::New),
        "all" => Ok(BusListenerScope::All),
        other => bad(format!("unknown scope `{}`", other)),
    }
}

fn bus_event_to_core(o: &Obj, vars: &Vars) -> R<EmitBusEvent> {
    let u = |k: &str| -> R<Uuid> { vars.uuid(req(o, k)?) };
    let cookie = match present(o, "cookie") {
        Some(c) => Some(BusListenerCookie(vars.uuid(c)?)),
        None => None,
    };
    let oid = ObjectId::new(ObjectUuid(u("object-uuid")?), ObjectCookie(u("object-cookie")?));
    let event = match tag(o, "event")? {
        "object-created" => BusEvent::ObjectCreated(oid),
        "object-destroyed" => BusEvent::ObjectDestroyed(oid),
        k @ ("service-created" | "service-destroyed") => {
            let sid = ServiceId::new(oid, ServiceUuid(u("service-uuid")?), ServiceCookie(u("service-cookie")?));
            if k == "service-created" {
                BusEvent::ServiceCreated(sid)
            } else {
                BusEvent::ServiceDestroyed(sid)
            }
        }
        other => return bad(format!("unknown bus event `{}`", other)),
    };
    Ok(EmitBusEvent { cookie, event })
}

fn to_core(o: &Obj, vars: &Vars) -> R<Message> {
    let serial = || -> R<u32> { vars.serial(req(o, "serial")?) };
    let opt_serial = || -> R<Option<u32>> {
        match present(o, "serial") {
            Some(s) => vars.serial(s).map(Some),
            None => Ok(None),
        }
    };
    let u = |k: &str| -> R<Uuid> { vars.uuid(req(o, k)?) };
    let unit = || SerializedValue::serialize(()).unwrap();
    let result = || tag(o, "result");
    let unknown = |what: &str, v: &str| -> Stop { Stop::Scenario(format!("unknown {} result `{}`", what, v)) };
    Ok(match tag(o, "message")? {
        "connect" => Message::Connect(Connect { version: get_u32(o, "version")?, value: unit() }),
        "connect-reply" => Message::ConnectReply(match result()? {
            "ok" => ConnectReply::Ok(unit()),
            "incompatible-version" => ConnectReply::IncompatibleVersion(get_u32(o, "version")?),
            "rejected" => return Err(Stop::Unsupported("connect-reply `rejected` with a nested value".into())),
            r => return Err(unknown("connect-reply", r)),
        }),
        "shutdown" => Message::Shutdown(Shutdown),
        "create-object" => Message::CreateObject(CreateObject { serial: serial()?, uuid: ObjectUuid(u("uuid")?) }),
        "create-object-reply" => Message::CreateObjectReply(CreateObjectReply {
            serial: serial()?,
            result: match result()? {
                "ok" => CreateObjectResult::Ok(ObjectCookie(u("cookie")?)),
                "duplicate-object" => CreateObjectResult::DuplicateObject,
                r => return Err(unknown("create-object", r)),
            },
        }),
        "destroy-object" => Message::DestroyObject(DestroyObject { serial: serial()?, cookie: ObjectCookie(u("cookie")?) }),
        "destroy-object-reply" => Message::DestroyObjectReply(DestroyObjectReply {
            serial: serial()?,
            result: match result()? {
                "ok" => DestroyObjectResult::Ok,
                "invalid-object" => DestroyObjectResult::InvalidObject,
                "foreign-object" => DestroyObjectResult::ForeignObject,
                r => return Err(unknown("destroy-object", r)),
            },
        }),
        "create-service" => Message::CreateService(CreateService {
            serial: serial()?,
            object_cookie: ObjectCookie(u("object-cookie")?),
            uuid: ServiceUuid(u("uuid")?),
            version: get_u32(o, "version")?,
        }),
        "create-service-reply" => Message::CreateServiceReply(CreateServiceReply {
            serial: serial()?,
            result: match result()? {
                "ok" => CreateServiceResult::Ok(ServiceCookie(u("cookie")?)),
                "duplicate-service" => CreateServiceResult::DuplicateService,
                "invalid-object" => CreateServiceResult::InvalidObject,
                "foreign-object" => CreateServiceResult::ForeignObject,
                r => return Err(unknown("create-service", r)),
            },
        }),
        "destroy-service" => Message::DestroyService(DestroyService { serial: serial()?, cookie: ServiceCookie(u("cookie")?) }),
        "destroy-service-reply" => Message::DestroyServiceReply(DestroyServiceReply {
            serial: serial()?,
            result: match result()? {
                "ok" => DestroyServiceResult::Ok,
                "invalid-service" => DestroyServiceResult::InvalidService,
                "foreign-object" => DestroyServiceResult::ForeignObject,
                r => return Err(unknown("destroy-service", r)),
            },
        }),
        "call-function" => Message::CallFunction(CallFunction {
            serial: serial()?,
            service_cookie: ServiceCookie(u("service-cookie")?),
            function: get_u32(o, "function")?,
            value: value_to_core(o)?,
        }),
        "call-function2" => Message::CallFunction2(CallFunction2 {
            serial: serial()?,
            service_cookie: ServiceCookie(u("service-cookie")?),
            function: get_u32(o, "function")?,
            version: opt_u32(o, "version")?,
            value: value_to_core(o)?,
        }),
        "call-function-reply" => Message::CallFunctionReply(CallFunctionReply {
            serial: serial()?,
            result: match result()? {
                "ok" => CallFunctionResult::Ok(value_to_core(o)?),
                "err" => CallFunctionResult::Err(value_to_core(o)?),
                "aborted" => CallFunctionResult::Aborted,
                "invalid-service" => CallFunctionResult::InvalidService,
                "invalid-function" => CallFunctionResult::InvalidFunction,
                "invalid-args" => CallFunctionResult::InvalidArgs,
                r => return Err(unknown("call-function", r)),
            },
        }),
        "abort-function-call" => Message::AbortFunctionCall(AbortFunctionCall { serial: serial()? }),
        "subscribe-event" => Message::SubscribeEvent(SubscribeEvent {
            serial: opt_serial()?,
            service_cookie: ServiceCookie(u("service-cookie")?),
            event: get_u32(o, "event")?,
        }),
        "subscribe-event-reply" => Message::SubscribeEventReply(SubscribeEventReply {
            serial: serial()?,
            result: match result()? {
                "ok" => SubscribeEventResult::Ok,
                "invalid-service" => SubscribeEventResult::InvalidService,
                r => return Err(unknown("subscribe-event", r)),
            },
        }),
        "unsubscribe-event" => Message::UnsubscribeEvent(UnsubscribeEvent { service_cookie: ServiceCookie(u("service-cookie")?), event: get_u32(o, "event")? }),
        "emit-event" => Message::EmitEvent(EmitEvent { service_cookie: ServiceCookie(u("service-cookie")?), event: get_u32(o, "event")?, value: value_to_core(o)? }),
        "query-service-version" => Message::QueryServiceVersion(QueryServiceVersion { serial: serial()?, cookie: ServiceCookie(u("cookie")?) }),
        "query-service-version-reply" => Message::QueryServiceVersionReply(QueryServiceVersionReply {
            serial: serial()?,
            result: match result()? {
                "ok" => QueryServiceVersionResult::Ok(get_u32(o, "version")?),
                "invalid-service" => QueryServiceVersionResult::InvalidService,
                r => return Err(unknown("query-service-version", r)),
            },
        }),
        "create-channel" => Message::CreateChannel(CreateChannel { serial: serial()?, end: end_cap_to_core(o)? }),
        "create-channel-reply" => Message::CreateChannelReply(CreateChannelReply { serial: serial()?, cookie: ChannelCookie(u("cookie")?) }),
        "close-channel-end" => Message::CloseChannelEnd(CloseChannelEnd { serial: serial()?, cookie: ChannelCookie(u("cookie")?), end: end_to_core(o)? }),
        "close-channel-end-reply" => Message::CloseChannelEndReply(CloseChannelEndReply {
            serial: serial()?,
            result: match result()? {
                "ok" => CloseChannelEndResult::Ok,
                "invalid-channel" => CloseChannelEndResult::InvalidChannel,
                "foreign-channel" => CloseChannelEndResult::ForeignChannel,
                r => return Err(unknown("close-channel-end", r)),
            },
        }),
        "channel-end-closed" => Message::ChannelEndClosed(ChannelEndClosed { cookie: ChannelCookie(u("cookie")?), end: end_to_core(o)? }),
        "claim-channel-end" => Message::ClaimChannelEnd(ClaimChannelEnd { serial: serial()?, cookie: ChannelCookie(u("cookie")?), end: end_cap_to_core(o)? }),
        "claim-channel-end-reply" => Message::ClaimChannelEndReply(ClaimChannelEndReply {
            serial: serial()?,
            result: match result()? {
                "sender-claimed" => ClaimChannelEndResult::SenderClaimed(get_u32(o, "capacity")?),
                "receiver-claimed" => ClaimChannelEndResult::ReceiverClaimed,
                "invalid-channel" => ClaimChannelEndResult::InvalidChannel,
                "already-claimed" => ClaimChannelEndResult::AlreadyClaimed,
                r => return Err(unknown("claim-channel-end", r)),
            },
        }),
        "channel-end-claimed" => Message::ChannelEndClaimed(ChannelEndClaimed { cookie: ChannelCookie(u("cookie")?), end: end_cap_to_core(o)? }),
        "send-item" => Message::SendItem(SendItem { cookie: ChannelCookie(u("cookie")?), value: value_to_core(o)? }),
        "item-received" => Message::ItemReceived(ItemReceived { cookie: ChannelCookie(u("cookie")?), value: value_to_core(o)? }),
        "add-channel-capacity" => Message::AddChannelCapacity(AddChannelCapacity { cookie: ChannelCookie(u("cookie")?), capacity: get_u32(o, "capacity")? }),
        "sync" => Message::Sync(Sync { serial: serial()? }),
        "sync-reply" => Message::SyncReply(SyncReply { serial: serial()? }),
        "service-destroyed" => Message::ServiceDestroyed(ServiceDestroyed { service_cookie: ServiceCookie(u("service-cookie")?) }),
        "create-bus-listener" => Message::CreateBusListener(CreateBusListener { serial: serial()? }),
        "create-bus-listener-reply" => Message::CreateBusListenerReply(CreateBusListenerReply { serial: serial()?, cookie: BusListenerCookie(u("cookie")?) }),
        "destroy-bus-listener" => Message::DestroyBusListener(DestroyBusListener { serial: serial()?, cookie: BusListenerCookie(u("cookie")?) }),
        "destroy-bus-listener-reply" => Message::DestroyBusListenerReply(DestroyBusListenerReply {
            serial: serial()?,
            result: match result()? {
                "ok" => DestroyBusListenerResult::Ok,
                "invalid-bus-listener" => DestroyBusListenerResult::InvalidBusListener,
                r => return Err(unknown("destroy-bus-listener", r)),
            },
        }),
        "add-bus-listener-filter" => Message::AddBusListenerFilter(AddBusListenerFilter { cookie: BusListenerCookie(u("cookie")?), filter: filter_to_core(o, vars)? }),
        "remove-bus-listener-filter" => Message::RemoveBusListenerFilter(RemoveBusListenerFilter { cookie: BusListenerCookie(u("cookie")?), filter: filter_to_core(o, vars)? }),
        "clear-bus-listener-filters" => Message::ClearBusListenerFilters(ClearBusListenerFilters { cookie: BusListenerCookie(u("cookie")?) }),
        "start-bus-listener" => Message::StartBusListener(StartBusListener { serial: serial()?, cookie: BusListenerCookie(u("cookie")?), scope: scope_to_core(o)? }),
        "start-bus-listener-reply" => Message::StartBusListenerReply(StartBusListenerReply {
            serial: serial()?,
            result: match result()? {
                "ok" => StartBusListenerResult::Ok,
                "invalid-bus-listener" => StartBusListenerResult::InvalidBusListener,
                "already-started" => StartBusListenerResult::AlreadyStarted,
                r => return Err(unknown("start-bus-listener", r)),
            },
        }),
        "stop-bus-listener" => Message::StopBusListener(StopBusListener { serial: serial()?, cookie: BusListenerCookie(u("cookie")?) }),
        "stop-bus-listener-reply" => Message::StopBusListenerReply(StopBusListenerReply {
            serial: serial()?,
            result: match result()? {
                "ok" => StopBusListenerResult::Ok,
                "invalid-bus-listener" => StopBusListenerResult::InvalidBusListener,
                "not-started" => StopBusListenerResult::NotStarted,
                r => return Err(unknown("stop-bus-listener", r)),
            },
        }),
        "emit-bus-event" => Message::EmitBusEvent(bus_event_to_core(o, vars)?),
        "bus-listener-current-finished" => Message::BusListenerCurrentFinished(BusListenerCurrentFinished { cookie: BusListenerCookie(u("cookie")?) }),
        "connect2" => Message::Connect2(Connect2 {
            major_version: get_u32(o, "major-version")?,
            minor_version: get_u32(o, "minor-version")?,
            value: SerializedValue::serialize(ConnectData::new()).unwrap(),
        }),
        "connect-reply2" => Message::ConnectReply2(ConnectReply2 {
            result: match result()? {
                "ok" => ConnectResult::Ok(get_u32(o, "minor-version")?),
                "rejected" => ConnectResult::Rejected,
                "incompatible-version" => ConnectResult::IncompatibleVersion,
                r => return Err(unknown("connect2", r)),
            },
            value: SerializedValue::serialize(ConnectReplyData::new()).unwrap(),
        }),
        "register-introspection" => {
            let mut ids: HashSet<Uuid> = HashSet::new();
            match req(o, "type-ids")? {
                J::Array(a) => {
                    for j in a {
                        match j.as_str().and_then(|s| s.parse::<Uuid>().ok()) {
                            Some(id) => {
                                ids.insert(id);
                            }
                            None => return bad(format!("type id {} is not a UUID", j)),
                        }
                    }
                }
                other => return bad(format!("type-ids must be an array, found {}", other)),
            }
            Message::RegisterIntrospection(RegisterIntrospection { value: SerializedValue::serialize(&ids).unwrap() })
        }
        "query-introspection" => Message::QueryIntrospection(QueryIntrospection { serial: serial()?, type_id: TypeId(u("type-id")?) }),
        "query-introspection-reply" => Message::QueryIntrospectionReply(QueryIntrospectionReply {
            serial: serial()?,
            result: match result()? {
                "ok" => QueryIntrospectionResult::Ok(value_to_core(o)?),
                "unavailable" => QueryIntrospectionResult::Unavailable,
                r => return Err(unknown("query-introspection", r)),
            },
        }),
        "create-service2" => Message::CreateService2(CreateService2 {
            serial: serial()?,
            object_cookie: ObjectCookie(u("object-cookie")?),
            uuid: ServiceUuid(u("uuid")?),
            value: match present(o, "info") {
                Some(J::Object(info)) => SerializedValue::serialize(info_to_core(info, vars)?).unwrap(),
                Some(other) => return bad(format!("info must be an object, found {}", other)),
                None => unit(),
            },
        }),
        "query-service-info" => Message::QueryServiceInfo(QueryServiceInfo { serial: serial()?, cookie: ServiceCookie(u("cookie")?) }),
        "query-service-info-reply" => Message::QueryServiceInfoReply(QueryServiceInfoReply {
            serial: serial()?,
            result: match result()? {
                "ok" => QueryServiceInfoResult::Ok(SerializedValue::serialize(info_to_core(o, vars)?).unwrap()),
                "invalid-service" => QueryServiceInfoResult::InvalidService,
                r => return Err(unknown("query-service-info", r)),
            },
        }),
        "subscribe-service" => Message::SubscribeService(SubscribeService { serial: serial()?, service_cookie: ServiceCookie(u("service-cookie")?) }),
        "subscribe-service-reply" => Message::SubscribeServiceReply(SubscribeServiceReply {
            serial: serial()?,
            result: match result()? {
                "ok" => SubscribeServiceResult::Ok,
                "invalid-service" => SubscribeServiceResult::InvalidService,
                r => return Err(unknown("subscribe-service", r)),
            },
        }),
        "unsubscribe-service" => Message::UnsubscribeService(UnsubscribeService { service_cookie: ServiceCookie(u("service-cookie")?) }),
        "subscribe-all-events" => Message::SubscribeAllEvents(SubscribeAllEvents { serial: opt_serial()?, service_cookie: ServiceCookie(u("service-cookie")?) }),
        "subscribe-all-events-reply" => Message::SubscribeAllEventsReply(SubscribeAllEventsReply {
            serial: serial()?,
            result: match result()? {
                "ok" => SubscribeAllEventsResult::Ok,
                "invalid-service" => SubscribeAllEventsResult::InvalidService,
                "not-supported" => SubscribeAllEventsResult::NotSupported,
                r => return Err(unknown("subscribe-all-events", r)),
            },
        }),
        "unsubscribe-all-events" => Message::UnsubscribeAllEvents(UnsubscribeAllEvents { serial: opt_serial()?, service_cookie: ServiceCookie(u("service-cookie")?) }),
        "unsubscribe-all-events-reply" => Message::UnsubscribeAllEventsReply(UnsubscribeAllEventsReply {
            serial: serial()?,
            result: match result()? {
                "ok" => UnsubscribeAllEventsResult::Ok,
                "invalid-service" => UnsubscribeAllEventsResult::InvalidService,
                "not-supported" => UnsubscribeAllEventsResult::NotSupported,
                r => return Err(unknown("unsubscribe-all-events", r)),
            },
        }),
        other => return bad(format!("unknown message kind `{}`", other)),
    })
}

// ---------------------------------------------------------------------------------------------
// protocol message -> JSON in the tester's notation (the `TryFrom<message::X>` impls)

fn us(u: Uuid) -> J {
    J::String(u.to_string())
}

fn value_kind_name(k: ValueKind) -> String {
    // kebab-case of the variant name with the epoch digit attached ("u8-map1")
    let dbg = format!("{:?}", k);
    let mut out = String::new();
    for (i, ch) in dbg.chars().enumerate() {
        if ch.is_ascii_uppercase() {
            if i > 0 {
                out.push('-');
            }
            out.push(ch.to_ascii_lowercase());
        } else {
            out.push(ch);
        }
    }
    out
}

/// value.rs `Deserialize`: none and i32 are understood, everything else is "unsupported" (and
/// matches only `ignore`); a value that cannot be decoded is an error.
fn value_to_json(v: &SerializedValueSlice, o: &mut Obj) -> Result<(), String> {
    match v.kind() {
        Ok(ValueKind::None) => {
            o.insert("value-type".into(), json!("none"));
        }
        Ok(ValueKind::I32) => {
            let x: i32 = v.deserialize().map_err(|e| format!("failed to deserialize value {:?}: {:?}", v, e))?;
            o.insert("value-type".into(), json!("i32"));
            o.insert("value".into(), json!(x));
        }
        Ok(k) => {
            let bytes: &[u8] = v;
            o.insert("value-type".into(), J::String(value_kind_name(k)));
            o.insert("serialized".into(), json!(bytes.to_vec()));
        }
        Err(e) => return Err(format!("failed to deserialize value {:?}: {:?}", v, e)),
    }
    Ok(())
}

fn info_to_json(info: ServiceInfo, o: &mut Obj) {
    o.insert("version".into(), json!(info.version()));
    if let Some(t) = info.type_id() {
        o.insert("type-id".into(), us(t.0));
    }
    if let Some(b) = info.subscribe_all() {
        o.insert("subscribe-all".into(), json!(b));
    }
}

fn end_name(e: ChannelEnd) -> &'static str {
    match e {
        ChannelEnd::Sender => "sender",
        ChannelEnd::Receiver => "receiver",
    }
}

fn end_cap_to_json(e: ChannelEndWithCapacity, o: &mut Obj) {
    match e {
        ChannelEndWithCapacity::Sender => {
            o.insert("end".into(), json!("sender"));
        }
        ChannelEndWithCapacity::Receiver(c) => {
            o.insert("end".into(), json!("receiver"));
            o.insert("capacity".into(), json!(c));
        }
    }
}

fn filter_to_json(f: BusListenerFilter, o: &mut Obj) {
    let name = match f {
        BusListenerFilter::Object(None) => "any-object",
        BusListenerFilter::Object(Some(ob)) => {
            o.insert("object".into(), us(ob.0));
            "specific-object"
        }
        BusListenerFilter::Service(sf) => {
            if let Some(ob) = sf.object {
                o.insert("object".into(), us(ob.0));
            }
            if let Some(s) = sf.service {
                o.insert("service".into(), us(s.0));
            }
            match (sf.object.is_some(), sf.service.is_some()) {
                (false, false) => "any-object-any-service",
                (true, false) => "specific-object-any-service",
                (false, true) => "any-object-specific-service",
                (true, true) => "specific-object-specific-service",
            }
        }
    };
    o.insert("filter".into(), json!(name));
}

fn to_json(m: &Message) -> Result<Obj, String> {
    let mut o = Obj::new();
    macro_rules! put {
        ($k:expr, $v:expr) => {
            o.insert($k.to_string(), json!($v));
        };
    }
    macro_rules! kind {
        ($k:expr) => {
            put!("message", $k);
        };
    }
    match m {
        Message::Connect(x) => {
            kind!("connect");
            put!("version", x.version);
        }
        Message::ConnectReply(x) => {
            kind!("connect-reply");
            match x {
                ConnectReply::Ok(_) => {
                    put!("result", "ok");
                }
                ConnectReply::IncompatibleVersion(v) => {
                    put!("result", "incompatible-version");
                    put!("version", *v);
                }
                ConnectReply::Rejected(v) => {
                    put!("result", "rejected");
                    let mut inner = Obj::new();
                    value_to_json(v, &mut inner)?;
                    o.insert("value".into(), J::Object(inner));
                }
            }
        }
        Message::Shutdown(_) => {
            kind!("shutdown");
        }
        Message::CreateObject(x) => {
            kind!("create-object");
            put!("serial", x.serial);
            put!("uuid", us(x.uuid.0));
        }
        Message::CreateObjectReply(x) => {
            kind!("create-object-reply");
            put!("serial", x.serial);
            match x.result {
                CreateObjectResult::Ok(c) => {
                    put!("result", "ok");
                    put!("cookie", us(c.0));
                }
                CreateObjectResult::DuplicateObject => {
                    put!("result", "duplicate-object");
                }
            }
        }
        Message::DestroyObject(x) => {
            kind!("destroy-object");
            put!("serial", x.serial);
            put!("cookie", us(x.cookie.0));
        }
        Message::DestroyObjectReply(x) => {
            kind!("destroy-object-reply");
            put!("serial", x.serial);
            put!(
                "result",
                match x.result {
                    DestroyObjectResult::Ok => "ok",
                    DestroyObjectResult::InvalidObject => "invalid-object",
                    DestroyObjectResult::ForeignObject => "foreign-object",
                }
            );
        }
        Message::CreateService(x) => {
            kind!("create-service");
            put!("serial", x.serial);
            put!("object-cookie", us(x.object_cookie.0));
            put!("uuid", us(x.uuid.0));
            put!("version", x.version);
        }
        Message::CreateServiceReply(x) => {
            kind!("create-service-reply");
            put!("serial", x.serial);
            match x.result {
                CreateServiceResult::Ok(c) => {
                    put!("result", "ok");
                    put!("cookie", us(c.0));
                }
                CreateServiceResult::DuplicateService => {
                    put!("result", "duplicate-service");
                }
                CreateServiceResult::InvalidObject => {
                    put!("result", "invalid-object");
                }
                CreateServiceResult::ForeignObject => {
                    put!("result", "foreign-object");
                }
            }
        }
        Message::DestroyService(x) => {
            kind!("destroy-service");
            put!("serial", x.serial);
            put!("cookie", us(x.cookie.0));
        }
        Message::DestroyServiceReply(x) => {
            kind!("destroy-service-reply");
            put!("serial", x.serial);
            put!(
                "result",
                match x.result {
                    DestroyServiceResult::Ok => "ok",
                    DestroyServiceResult::InvalidService => "invalid-service",
                    DestroyServiceResult::ForeignObject => "foreign-object",
                }
            );
        }
        Message::CallFunction(x) => {
            kind!("call-function");
            put!("serial", x.serial);
            put!("function", x.function);
            put!("service-cookie", us(x.service_cookie.0));
            value_to_json(&x.value, &mut o)?;
        }
        Message::CallFunction2(x) => {
            kind!("call-function2");
            put!("serial", x.serial);
            put!("service-cookie", us(x.service_cookie.0));
            put!("function", x.function);
            if let Some(v) = x.version {
                put!("version", v);
            }
            value_to_json(&x.value, &mut o)?;
        }
        Message::CallFunctionReply(x) => {
            kind!("call-function-reply");
            put!("serial", x.serial);
            match &x.result {
                CallFunctionResult::Ok(v) => {
                    put!("result", "ok");
                    value_to_json(v, &mut o)?;
                }
                CallFunctionResult::Err(v) => {
                    put!("result", "err");
                    value_to_json(v, &mut o)?;
                }
                CallFunctionResult::Aborted => {
                    put!("result", "aborted");
                }
                CallFunctionResult::InvalidService => {
                    put!("result", "invalid-service");
                }
                CallFunctionResult::InvalidFunction => {
                    put!("result", "invalid-function");
                }
                CallFunctionResult::InvalidArgs => {
                    put!("result", "invalid-args");
                }
            }
        }
        Message::AbortFunctionCall(x) => {
            kind!("abort-function-call");
            put!("serial", x.serial);
        }
        Message::SubscribeEvent(x) => {
            kind!("subscribe-event");
            if let Some(s) = x.serial {
                put!("serial", s);
            }
            put!("service-cookie", us(x.service_cookie.0));
            put!("event", x.event);
        }
        Message::SubscribeEventReply(x) => {
            kind!("subscribe-event-reply");
            put!("serial", x.serial);
            put!(
                "result",
                match x.result {
                    SubscribeEventResult::Ok => "ok",
                    SubscribeEventResult::InvalidService => "invalid-service",
                }
            );
        }
        Message::UnsubscribeEvent(x) => {
            kind!("unsubscribe-event");
            put!("service-cookie", us(x.service_cookie.0));
            put!("event", x.event);
        }
        Message::EmitEvent(x) => {
            kind!("emit-event");
            put!("service-cookie", us(x.service_cookie.0));
            put!("event", x.event);
            value_to_json(&x.value, &mut o)?;
        }
        Message::QueryServiceVersion(x) => {
            kind!("query-service-version");
            put!("serial", x.serial);
            put!("cookie", us(x.cookie.0));
        }
        Message::QueryServiceVersionReply(x) => {
            kind!("query-service-version-reply");
            put!("serial", x.serial);
            match x.result {
                QueryServiceVersionResult::Ok(v) => {
                    put!("result", "ok");
                    put!("version", v);
                }
                QueryServiceVersionResult::InvalidService => {
                    put!("result", "invalid-service");
                }
            }
        }
        Message::CreateChannel(x) => {
            kind!("create-channel");
            put!("serial", x.serial);
            end_cap_to_json(x.end, &mut o);
        }
        Message::CreateChannelReply(x) => {
            kind!("create-channel-reply");
            put!("serial", x.serial);
            put!("cookie", us(x.cookie.0));
        }
        Message::CloseChannelEnd(x) => {
            kind!("close-channel-end");
            put!("serial", x.serial);
            put!("cookie", us(x.cookie.0));
            put!("end", end_name(x.end));
        }
        Message::CloseChannelEndReply(x) => {
            kind!("close-channel-end-reply");
            put!("serial", x.serial);
            put!(
                "result",
                match x.result {
                    CloseChannelEndResult::Ok => "ok",
                    CloseChannelEndResult::InvalidChannel => "invalid-channel",
                    CloseChannelEndResult::ForeignChannel => "foreign-channel",
                }
            );
        }
        Message::ChannelEndClosed(x) => {
            kind!("channel-end-closed");
            put!("cookie", us(x.cookie.0));
            put!("end", end_name(x.end));
        }
        Message::ClaimChannelEnd(x) => {
            kind!("claim-channel-end");
            put!("serial", x.serial);
            put!("cookie", us(x.cookie.0));
            end_cap_to_json(x.end, &mut o);
        }
        Message::ClaimChannelEndReply(x) => {
            kind!("claim-channel-end-reply");
            put!("serial", x.serial);
            match x.result {
                ClaimChannelEndResult::SenderClaimed(c) => {
                    put!("result", "sender-claimed");
                    put!("capacity", c);
                }
                ClaimChannelEndResult::ReceiverClaimed => {
                    put!("result", "receiver-claimed");
                }
                ClaimChannelEndResult::InvalidChannel => {
                    put!("result", "invalid-channel");
                }
                ClaimChannelEndResult::AlreadyClaimed => {
                    put!("result", "already-claimed");
                }
            }
        }
        Message::ChannelEndClaimed(x) => {
            kind!("channel-end-claimed");
            put!("cookie", us(x.cookie.0));
            end_cap_to_json(x.end, &mut o);
        }
        Message::SendItem(x) => {
            kind!("send-item");
            put!("cookie", us(x.cookie.0));
            value_to_json(&x.value, &mut o)?;
        }
        Message::ItemReceived(x) => {
            kind!("item-received");
            put!("cookie", us(x.cookie.0));
            value_to_json(&x.value, &mut o)?;
        }
        Message::AddChannelCapacity(x) => {
            kind!("add-channel-capacity");
            put!("cookie", us(x.cookie.0));
            put!("capacity", x.capacity);
        }
        Message::Sync(x) => {
            kind!("sync");
            put!("serial", x.serial);
        }
        Message::SyncReply(x) => {
            kind!("sync-reply");
            put!("serial", x.serial);
        }
        Message::ServiceDestroyed(x) => {
            kind!("service-destroyed");
            put!("service-cookie", us(x.service_cookie.0));
        }
        Message::CreateBusListener(x) => {
            kind!("create-bus-listener");
            put!("serial", x.serial);
        }
        Message::CreateBusListenerReply(x) => {
            kind!("create-bus-listener-reply");
            put!("serial", x.serial);
            put!("cookie", us(x.cookie.0));
        }
        Message::DestroyBusListener(x) => {
            kind!("destroy-bus-listener");
            put!("serial", x.serial);
            put!("cookie", us(x.cookie.0));
        }
        Message::DestroyBusListenerReply(x) => {
            kind!("destroy-bus-listener-reply");
            put!("serial", x.serial);
            put!(
                "result",
                match x.result {
                    DestroyBusListenerResult::Ok => "ok",
                    DestroyBusListenerResult::InvalidBusListener => "invalid-bus-listener",
                }
            );
        }
        Message::AddBusListenerFilter(x) => {
            kind!("add-bus-listener-filter");
            put!("cookie", us(x.cookie.0));
            filter_to_json(x.filter, &mut o);
        }
        Message::RemoveBusListenerFilter(x) => {
            kind!("remove-bus-listener-filter");
            put!("cookie", us(x.cookie.0));
            filter_to_json(x.filter, &mut o);
        }
        Message::ClearBusListenerFilters(x) => {
            kind!("clear-bus-listener-filters");
            put!("cookie", us(x.cookie.0));
        }
        Message::StartBusListener(x) => {
            kind!("start-bus-listener");
            put!("serial", x.serial);
            put!("cookie", us(x.cookie.0));
            put!(
                "scope",
                match x.scope {
                    BusListenerScope::Current => "current",
                    BusListenerScope::New => "new",
                    BusListenerScope::All => "all",
                }
            );
        }
        Message::StartBusListenerReply(x) => {
            kind!("start-bus-listener-reply");
            put!("serial", x.serial);
            put!(
                "result",
                match x.result {
                    StartBusListenerResult::Ok => "ok",
                    StartBusListenerResult::InvalidBusListener => "invalid-bus-listener",
                    StartBusListenerResult::AlreadyStarted => "already-started",
                }
            );
        }
        Message::StopBusListener(x) => {
            kind!("stop-bus-listener");
            put!("serial", x.serial);
            put!("cookie", us(x.cookie.0));
        }
        Message::StopBusListenerReply(x) => {
            kind!("stop-bus-listener-reply");
            put!("serial", x.serial);
            put!(
                "result",
                match x.result {
                    StopBusListenerResult::Ok => "ok",
                    StopBusListenerResult::InvalidBusListener => "invalid-bus-listener",
                    StopBusListenerResult::NotStarted => "not-started",
                }
            );
        }
        Message::EmitBusEvent(x) => {
            kind!("emit-bus-event");
            if let Some(c) = x.cookie {
                put!("cookie", us(c.0));
            }
            let (name, oid, sid) = match x.event {
                BusEvent::ObjectCreated(i) => ("object-created", i, None),
                BusEvent::ObjectDestroyed(i) => ("object-destroyed", i, None),
                BusEvent::ServiceCreated(s) => ("service-created", s.object_id, Some(s)),
                BusEvent::ServiceDestroyed(s) => ("service-destroyed", s.object_id, Some(s)),
            };
            put!("event", name);
            put!("object-uuid", us(oid.uuid.0));
            put!("object-cookie", us(oid.cookie.0));
            if let Some(s) = sid {
                put!("service-uuid", us(s.uuid.0));
                put!("service-cookie", us(s.cookie.0));
            }
        }
        Message::BusListenerCurrentFinished(x) => {
            kind!("bus-listener-current-finished");
            put!("cookie", us(x.cookie.0));
        }
        Message::Connect2(x) => {
            kind!("connect2");
            put!("major-version", x.major_version);
            put!("minor-version", x.minor_version);
        }
        Message::ConnectReply2(x) => {
            kind!("connect-reply2");
            match x.result {
                ConnectResult::Ok(m) => {
                    put!("result", "ok");
                    put!("minor-version", m);
                }
                ConnectResult::Rejected => {
                    put!("result", "rejected");
                }
                ConnectResult::IncompatibleVersion => {
                    put!("result", "incompatible-version");
                }
            }
        }
        Message::RegisterIntrospection(x) => {
            kind!("register-introspection");
            let ids: HashSet<Uuid> = x.value.deserialize().map_err(|e| format!("failed to deserialize type ids from register-introspection message: {:?}", e))?;
            let mut v: Vec<String> = ids.iter().map(|u| u.to_string()).collect();
            v.sort();
            put!("type-ids", v);
        }
        Message::QueryIntrospection(x) => {
            kind!("query-introspection");
            put!("serial", x.serial);
            put!("type-id", us(x.type_id.0));
        }
        Message::QueryIntrospectionReply(x) => {
            kind!("query-introspection-reply");
            put!("serial", x.serial);
            match &x.result {
                QueryIntrospectionResult::Ok(v) => {
                    put!("result", "ok");
                    value_to_json(v, &mut o)?;
                }
                QueryIntrospectionResult::Unavailable => {
                    put!("result", "unavailable");
                }
            }
        }
        Message::CreateService2(x) => {
            kind!("create-service2");
            put!("serial", x.serial);
            put!("object-cookie", us(x.object_cookie.0));
            put!("uuid", us(x.uuid.0));
            // `.ok()`: an undecodable info is rendered as a missing one
            if let Ok(info) = x.value.deserialize::<ServiceInfo>() {
                let mut inner = Obj::new();
                info_to_json(info, &mut inner);
                o.insert("info".into(), J::Object(inner));
            }
        }
        Message::QueryServiceInfo(x) => {
            kind!("query-service-info");
            put!("serial", x.serial);
            put!("cookie", us(x.cookie.0));
        }
        Message::QueryServiceInfoReply(x) => {
            kind!("query-service-info-reply");
            put!("serial", x.serial);
            match &x.result {
                QueryServiceInfoResult::Ok(v) => {
                    put!("result", "ok");
                    let info: ServiceInfo = v.deserialize().map_err(|e| format!("failed to deserialize value {:?}: {:?}", v, e))?;
                    info_to_json(info, &mut o);
                }
                QueryServiceInfoResult::InvalidService => {
                    put!("result", "invalid-service");
                }
            }
        }
        Message::SubscribeService(x) => {
            kind!("subscribe-service");
            put!("serial", x.serial);
            put!("service-cookie", us(x.service_cookie.0));
        }
        Message::SubscribeServiceReply(x) => {
            kind!("subscribe-service-reply");
            put!("serial", x.serial);
            put!(
                "result",
                match x.result {
                    SubscribeServiceResult::Ok => "ok",
                    SubscribeServiceResult::InvalidService => "invalid-service",
                }
            );
        }
        Message::UnsubscribeService(x) => {
            kind!("unsubscribe-service");
            put!("service-cookie", us(x.service_cookie.0));
        }
        Message::SubscribeAllEvents(x) => {
            kind!("subscribe-all-events");
            if let Some(s) = x.serial {
                put!("serial", s);
            }
            put!("service-cookie", us(x.service_cookie.0));
        }
        Message::SubscribeAllEventsReply(x) => {
            kind!("subscribe-all-events-reply");
            put!("serial", x.serial);
            put!(
                "result",
                match x.result {
                    SubscribeAllEventsResult::Ok => "ok",
                    SubscribeAllEventsResult::InvalidService => "invalid-service",
                    SubscribeAllEventsResult::NotSupported => "not-supported",
                }
            );
        }
        Message::UnsubscribeAllEvents(x) => {
            kind!("unsubscribe-all-events");
            if let Some(s) = x.serial {
                put!("serial", s);
            }
            put!("service-cookie", us(x.service_cookie.0));
        }
        Message::UnsubscribeAllEventsReply(x) => {
            kind!("unsubscribe-all-events-reply");
            put!("serial", x.serial);
            put!(
                "result",
                match x.result {
                    UnsubscribeAllEventsResult::Ok => "ok",
                    UnsubscribeAllEventsResult::InvalidService => "invalid-service",
                    UnsubscribeAllEventsResult::NotSupported => "not-supported",
                }
            );
        }
    }
    Ok(o)
}

// ---------------------------------------------------------------------------------------------
// matching an expectation against a received message (the `matches` / `update_context` functions)

#[derive(Clone, Copy, Debug)]
enum FT {
    Serial,
    OptSerial,
    Uuid,
    OptUuid,
    U32,
    OptU32,
    OptBool,
    /// string-valued enum tag (result, end, event, scope, filter)
    Tag,
    /// flattened value notation
    Val,
    /// optional nested service info object
    Info,
    /// set of UUIDs
    TypeIds,
}

const INFO_FIELDS: [(&str, FT); 3] = [("version", FT::U32), ("type-id", FT::OptUuid), ("subscribe-all", FT::OptBool)];

/// Fields of a message object that take part in matching, given its own tags.
fn spec(o: &Obj) -> R<Vec<(&'static str, FT)>> {
    use FT::*;
    let t = |k: &str| -> &str { o.get(k).and_then(|j| j.as_str()).unwrap_or("") };
    let mut v: Vec<(&'static str, FT)> = vec![];
    let end_cap = |v: &mut Vec<(&'static str, FT)>| {
        v.push(("end", Tag));
        if t("end") == "receiver" {
            v.push(("capacity", U32));
        }
    };
    match tag(o, "message")? {
        "connect" => v.push(("version", U32)),
        "connect-reply" => {
            v.push(("result", Tag));
            match t("result") {
                "incompatible-version" => v.push(("version", U32)),
                "rejected" => return Err(Stop::Unsupported("connect-reply `rejected` with a nested value".into())),
                _ => {}
            }
        }
        "shutdown" => {}
        "create-object" => v.extend([("serial", Serial), ("uuid", Uuid)]),
        "create-object-reply" | "create-service-reply" => {
            v.extend([("serial", Serial), ("result", Tag)]);
            if t("result") == "ok" {
                v.push(("cookie", Uuid));
            }
        }
        "destroy-object" | "destroy-service" | "query-service-version" | "query-service-info" | "create-channel-reply" | "create-bus-listener-reply" | "destroy-bus-listener" | "stop-bus-listener" => {
            v.extend([("serial", Serial), ("cookie", Uuid)])
        }
        "destroy-object-reply" | "destroy-service-reply" | "subscribe-event-reply" | "close-channel-end-reply" | "destroy-bus-listener-reply" | "start-bus-listener-reply" | "stop-bus-listener-reply"
        | "subscribe-service-reply" | "subscribe-all-events-reply" | "unsubscribe-all-events-reply" => v.extend([("serial", Serial), ("result", Tag)]),
        "create-service" => v.extend([("serial", Serial), ("object-cookie", Uuid), ("uuid", Uuid), ("version", U32)]),
        "call-function" => v.extend([("serial", Serial), ("function", U32), ("service-cookie", Uuid), ("value", Val)]),
        "call-function2" => v.extend([("serial", Serial), ("service-cookie", Uuid), ("function", U32), ("version", OptU32), ("value", Val)]),
        "call-function-reply" | "query-introspection-reply" => {
            v.extend([("serial", Serial), ("result", Tag)]);
            if matches!(t("result"), "ok" | "err") {
                v.push(("value", Val));
            }
        }
        "abort-function-call" | "sync" | "sync-reply" | "create-bus-listener" => v.push(("serial", Serial)),
        "subscribe-event" => v.extend([("serial", OptSerial), ("service-cookie", Uuid), ("event", U32)]),
        "unsubscribe-event" => v.extend([("service-cookie", Uuid), ("event", U32)]),
        // the tester's `matches` ignores the payload of events and items; the payload is compared
        // here as well (stricter, never weaker)
        "emit-event" => v.extend([("service-cookie", Uuid), ("event", U32), ("value", Val)]),
        "send-item" | "item-received" => v.extend([("cookie", Uuid), ("value", Val)]),
        "query-service-version-reply" => {
            v.extend([("serial", Serial), ("result", Tag)]);
            if t("result") == "ok" {
                v.push(("version", U32));
            }
        }
        "create-channel" => {
            v.push(("serial", Serial));
            end_cap(&mut v);
        }
        "close-channel-end" => v.extend([("serial", Serial), ("cookie", Uuid), ("end", Tag)]),
        "channel-end-closed" => v.extend([("cookie", Uuid), ("end", Tag)]),
        "claim-channel-end" => {
            v.extend([("serial", Serial), ("cookie", Uuid)]);
            end_cap(&mut v);
        }
        "claim-channel-end-reply" => {
            v.extend([("serial", Serial), ("result", Tag)]);
            if t("result") == "sender-claimed" {
                v.push(("capacity", U32));
            }
        }
        "channel-end-claimed" => {
            v.push(("cookie", Uuid));
            end_cap(&mut v);
        }
        "add-channel-capacity" => v.extend([("cookie", Uuid), ("capacity", U32)]),
        "service-destroyed" | "unsubscribe-service" => v.push(("service-cookie", Uuid)),
        "add-bus-listener-filter" | "remove-bus-listener-filter" => {
            v.extend([("cookie", Uuid), ("filter", Tag)]);
            match t("filter") {
                "specific-object" | "specific-object-any-service" => v.push(("object", Uuid)),
                "any-object-specific-service" => v.push(("service", Uuid)),
                "specific-object-specific-service" => v.extend([("object", Uuid), ("service", Uuid)]),
                _ => {}
            }
        }
        "clear-bus-listener-filters" | "bus-listener-current-finished" => v.push(("cookie", Uuid)),
        "start-bus-listener" => v.extend([("serial", Serial), ("cookie", Uuid), ("scope", Tag)]),
        "emit-bus-event" => {
            v.extend([("event", Tag), ("cookie", OptUuid), ("object-uuid", Uuid), ("object-cookie", Uuid)]);
            if matches!(t("event"), "service-created" | "service-destroyed") {
                v.extend([("service-uuid", Uuid), ("service-cookie", Uuid)]);
            }
        }
        "connect2" => v.extend([("major-version", U32), ("minor-version", U32)]),
        "connect-reply2" => {
            v.push(("result", Tag));
            if t("result") == "ok" {
                v.push(("minor-version", U32));
            }
        }
        "register-introspection" => v.push(("type-ids", TypeIds)),
        "query-introspection" => v.extend([("serial", Serial), ("type-id", Uuid)]),
        "create-service2" => v.extend([("serial", Serial), ("object-cookie", Uuid), ("uuid", Uuid), ("info", Info)]),
        "query-service-info-reply" => {
            v.extend([("serial", Serial), ("result", Tag)]);
            if t("result") == "ok" {
                v.extend(INFO_FIELDS);
            }
        }
        "subscribe-service" => v.extend([("serial", Serial), ("service-cookie", Uuid)]),
        "subscribe-all-events" | "unsubscribe-all-events" => v.extend([("serial", OptSerial), ("service-cookie", Uuid)]),
        other => return bad(format!("unknown message kind `{}`", other)),
    }
    Ok(v)
}

impl Vars {
    fn serial_matches(&self, exp: &J, got: &J) -> R<bool> {
        let want = match serial_ref(exp)? {
            Ref::Const(v) => v,
            Ref::Get(id) => *self.serials.get(&id).ok_or_else(|| Stop::Scenario(format!("unknown serial `{}`", id)))?,
            Ref::Set(_) => return Ok(true),
        };
        Ok(got.as_u64() == Some(want as u64))
    }

    fn uuid_matches(&self, exp: &J, got: &J) -> R<bool> {
        let want = match uuid_ref(exp)? {
            Ref::Const(v) => v,
            Ref::Get(id) => *self.uuids.get(&id).ok_or_else(|| Stop::Scenario(format!("unknown UUID `{}`", id)))?,
            Ref::Set(_) => return Ok(true),
        };
        Ok(got.as_str().and_then(|s| s.parse::<Uuid>().ok()) == Some(want))
    }

    fn fields_match(&self, fields: &[(&'static str, FT)], exp: &Obj, got: &Obj) -> R<bool> {
        for (k, ft) in fields {
            let (e, g) = (present(exp, k), present(got, k));
            let ok = match ft {
                FT::Tag => {
                    tag(exp, k)?;
                    e == g
                }
                FT::Serial => match g {
                    Some(g) => self.serial_matches(req(exp, k)?, g)?,
                    None => false,
                },
                FT::OptSerial => match (e, g) {
                    (Some(e), Some(g)) => self.serial_matches(e, g)?,
                    (None, None) => true,
                    _ => false,
                },
                FT::Uuid => match g {
                    Some(g) => self.uuid_matches(req(exp, k)?, g)?,
                    None => false,
                },
                FT::OptUuid => match (e, g) {
                    (Some(e), Some(g)) => self.uuid_matches(e, g)?,
                    (None, None) => true,
                    _ => false,
                },
                FT::U32 => Some(get_u32(exp, k)?) == g.and_then(|g| g.as_u64()).and_then(|g| u32::try_from(g).ok()),
                FT::OptU32 => opt_u32(exp, k)? == g.and_then(|g| g.as_u64()).and_then(|g| u32::try_from(g).ok()),
                FT::OptBool => opt_bool(exp, k)? == g.and_then(|g| g.as_bool()),
                FT::Val => match tag(exp, "value-type")? {
                    "ignore" => true,
                    "none" => got.get("value-type").and_then(|j| j.as_str()) == Some("none"),
                    "i32" => {
                        let want = req(exp, "value")?.as_i64().and_then(|v| i32::try_from(v).ok());
                        if want.is_none() {
                            return bad("i32 value out of range");
                        }
                        got.get("value-type").and_then(|j| j.as_str()) == Some("i32") && got.get("value").and_then(|j| j.as_i64()) == want.map(|v| v as i64)
                    }
                    other => return Err(Stop::Unsupported(format!("value-type `{}`", other))),
                },
                FT::Info => match (e, g) {
                    (Some(J::Object(e)), Some(J::Object(g))) => self.fields_match(&INFO_FIELDS, e, g)?,
                    (None, None) => true,
                    (Some(J::Object(_)), None) | (None, Some(_)) => false,
                    (Some(other), _) => return bad(format!("info must be an object, found {}", other)),
                },
                FT::TypeIds => {
                    let set = |j: Option<&J>| -> Option<HashSet<Uuid>> { j?.as_array()?.iter().map(|x| x.as_str()?.parse::<Uuid>().ok()).collect() };
                    match set(e) {
                        Some(es) => Some(es) == set(g),
                        None => return bad("type-ids must be an array of UUIDs"),
                    }
                }
            };
            if !ok {
                return Ok(false);
            }
        }
        Ok(true)
    }

    /// `Message::matches`: same kind and every field agrees (`set:` matches anything).
    fn matches(&self, exp: &Obj, got: &Obj) -> R<bool> {
        if exp.get("message") != got.get("message") {
            // still validates the expectation's kind
            spec(exp)?;
            return Ok(false);
        }
        self.fields_match(&spec(exp)?, exp, got)
    }

    fn bind_fields(&mut self, fields: &[(&'static str, FT)], exp: &Obj, got: &Obj) -> R<()> {
        for (k, ft) in fields {
            let (Some(e), Some(g)) = (present(exp, k), present(got, k)) else { continue };
            match ft {
                FT::Serial | FT::OptSerial => {
                    if let Ref::Set(id) = serial_ref(e)? {
                        let v = g.as_u64().unwrap_or(0) as u32;
                        if self.serials.insert(id.clone(), v).is_some() {
                            return bad(format!("serial `{}` exists already", id));
                        }
                    }
                }
                FT::Uuid | FT::OptUuid => {
                    if let Ref::Set(id) = uuid_ref(e)? {
                        let v = g.as_str().and_then(|s| s.parse::<Uuid>().ok()).unwrap_or_default();
                        if self.uuids.insert(id.clone(), v).is_some() {
                            return bad(format!("UUID `{}` exists already", id));
                        }
                    }
                }
                FT::Info => {
                    if let (J::Object(e), J::Object(g)) = (e, g) {
                        self.bind_fields(&INFO_FIELDS, e, g)?;
                    }
                }
                _ => {}
            }
        }
        Ok(())
    }

    /// `Message::update_context`: `set:` variables take the received values.
    fn bind(&mut self, exp: &Obj, got: &Obj) -> R<()> {
        let fields = spec(exp)?;
        self.bind_fields(&fields, exp, got)
    }

    /// `apply_context` for error messages: `get:` replaced by the values.
    fn applied(&self, exp: &Obj) -> J {
        let mut out = exp.clone();
        for (_, v) in out.iter_mut() {
            if let J::String(s) = v {
                if let Some(Ref::Get(id)) = var_ref(s) {
                    if let Some(u) = self.uuids.get(&id) {
                        *v = J::String(format!("{} (get:{})", u, id));
                    } else if let Some(n) = self.serials.get(&id) {
                        *v = J::String(format!("{} (get:{})", n, id));
                    }
                }
            }
        }
        J::Object(out)
    }
}

// ---------------------------------------------------------------------------------------------
// the replay

struct Client {
    name: String,
    conn: C,
    sync: bool,
    shutdown: bool,
    /// version the tester's client converts outgoing values to (client.rs `send`)
    version: ProtocolVersion,
    /// the handshake was completed (by `world.connect` or by a raw connect / connect2)
    handshaked: bool,
    /// index of the next not yet consumed message in `world.log[conn]`
    cursor: usize,
}

struct Replay {
    scenario: String,
    world: World,
    /// live clients in creation order (a removed client is deleted)
    clients: Vec<Client>,
    vars: Vars,
    /// default version of `connect` steps (run.rs: the `-p` filter argument, default 1.20)
    ctx_version: ProtocolVersion,
    step_desc: String,
    /// number of upstream expectations that were matched against real messages
    matched: usize,
    /// the tester walks its clients in hash-map order for the implicit final steps: any order
    /// must do; `false` = creation order, `true` = reverse creation order
    reverse_final: bool,
}

/// How a scenario is replayed (everything the tester leaves open or takes from its command line).
#[derive(Clone, Copy, Debug)]
pub struct Variant {
    /// `conformance-tester run -p <version>`: version of `connect` steps that do not name one
    pub version: ProtocolVersion,
    /// order of the implicit final sync / shutdown steps
    pub reverse_final: bool,
    /// simulator schedule
    pub sched_seed: u64,
    pub policy: Policy,
}

impl Default for Variant {
    fn default() -> Self {
        Variant { version: ProtocolVersion::V1_20, reverse_final: false, sched_seed: 1, policy: Policy::Random }
    }
}

impl Replay {
    fn new(scenario: &str, v: Variant) -> Self {
        Replay {
            scenario: scenario.to_string(),
            world: World::new(v.sched_seed, v.policy),
            clients: vec![],
            vars: Vars::default(),
            ctx_version: v.version,
            step_desc: String::new(),
            matched: 0,
            reverse_final: v.reverse_final,
        }
    }

    fn engine(&self, f: Fail) -> Stop {
        Stop::Fail(Fail::new(format!("conformance:{}:{}", self.scenario, f.signature), format!("{}\n{}", self.step_desc, f.detail)))
    }

    fn mismatch(&self, detail: String) -> Stop {
        Stop::Fail(Fail::new(format!("conformance:receive-mismatch:{}", self.scenario), format!("{}\n{}", self.step_desc, detail)))
    }

    fn client(&self, name: &str) -> R<usize> {
        match self.clients.iter().position(|c| c.name == name) {
            Some(i) => Ok(i),
            None => bad(format!("unknown client `{}`", name)),
        }
    }

    fn rest_of_log(&self, ci: usize) -> String {
        let c = &self.clients[ci];
        let rest: Vec<Message> = self.world.log[c.conn][c.cursor.min(self.world.log[c.conn].len())..].to_vec();
        let js: Vec<String> = rest.iter().map(|m| to_json(m).map(|o| J::Object(o).to_string()).unwrap_or_else(|e| format!("<{}> {}", e, short(m)))).collect();
        if js.is_empty() {
            "nothing (the tester would time out)".into()
        } else {
            js.join("\n  ")
        }
    }

    // ---- primitive steps -------------------------------------------------------------------

    /// connect_client.rs
    fn connect(&mut self, s: &Obj) -> R<()> {
        let name = client_of(s, "client")?.unwrap_or_else(|| "default".into());
        let version = match present(s, "version") {
            Some(J::String(v)) => match v.parse::<ProtocolVersion>() {
                Ok(v) => v,
                Err(_) => return bad(format!("invalid protocol version `{}`", v)),
            },
            Some(other) => return bad(format!("version must be a string, found {}", other)),
            None => self.ctx_version,
        };
        let handshake = flag(s, "handshake", true)?;
        let sync = flag(s, "sync", true)?;
        let shutdown = flag(s, "shutdown", true)?;
        if self.clients.iter().any(|c| c.name == name) {
            return bad(format!("client `{}` exists already", name));
        }
        let conn = if handshake {
            // 1.14 uses the old handshake, everything else connect2 with (major, minor); the
            // expected reply (ok / ok with the same minor) is checked by `World::connect`
            if version.major() != 1 {
                return Err(Stop::Unsupported(format!("connect with major version {}", version.major())));
            }
            let legacy = version == ProtocolVersion::V1_14;
            match self.world.connect(version.minor(), legacy) {
                Ok(c) => c,
                Err(f) => return Err(self.engine(f)),
            }
        } else {
            let idx = self.world.conns.len();
            let conn = self.world.bus.open(&format!("conn{}", idx));
            self.world.conns.push(conn);
            self.world.log.push(vec![]);
            self.world.history.push(format!("c{} opens a transport without handshake", idx));
            idx
        };
        self.world.history.push(format!("   (client `{}` is c{})", name, conn));
        self.clients.push(Client { name, conn, sync, shutdown, version, handshaked: handshake, cursor: 0 });
        Ok(())
    }

    /// send.rs + client.rs `send`
    fn send(&mut self, client: &str, o: &Obj) -> R<()> {
        let ci = self.client(client)?;
        let mut msg = to_core(o, &self.vars)?;
        if let Err(e) = msg.convert_value(None, self.clients[ci].version) {
            return bad(format!("cannot convert the value of {} to {:?}: {:?}", short(&msg), self.clients[ci].version, e));
        }
        let c = self.clients[ci].conn;
        let raw_handshake = !self.clients[ci].handshaked && matches!(msg, Message::Connect(_) | Message::Connect2(_));
        if !raw_handshake {
            return self.world.inject(c, msg).map_err(|f| self.engine(f));
        }
        // a handshake driven by the scenario itself: the connection enters the model when the
        // broker accepts it
        self.world.history.push(format!("c{} -> {}", c, short(&msg)));
        self.world.conns[c].peer.send(msg.clone());
        self.world.run().map_err(|f| self.engine(f))?;
        let replies = self.world.conns[c].peer.drain();
        self.world.log[c].extend(replies.iter().cloned());
        self.world.history.push(format!("c{} <- {}", c, render_list(&replies)));
        let accepted = match (&msg, replies.as_slice()) {
            (Message::Connect(_), [Message::ConnectReply(ConnectReply::Ok(_))]) => Some(14),
            (Message::Connect2(_), [Message::ConnectReply2(ConnectReply2 { result: ConnectResult::Ok(m), .. })]) => Some(*m),
            _ => None,
        };
        if let Some(minor) = accepted {
            self.world.model.add_conn(c, minor);
            self.clients[ci].handshaked = true;
        }
        // liveness: accepted connections stay open, refused ones are closed
        self.world.compare(Effects::default(), Observed::new()).map_err(|f| self.engine(f))
    }

    fn next_message(&self, ci: usize) -> Option<Message> {
        let c = &self.clients[ci];
        self.world.log[c.conn].get(c.cursor).cloned()
    }

    /// receive.rs
    fn receive(&mut self, client: &str, exp: &Obj) -> R<()> {
        let ci = self.client(client)?;
        spec(exp)?;
        let Some(got) = self.next_message(ci) else {
            return Err(self.mismatch(format!("client `{}` expects\n  {}\nbut received nothing more (the tester would time out)", client, self.vars.applied(exp))));
        };
        let gj = to_json(&got).map_err(|e| self.mismatch(format!("client `{}` received {} which the tester cannot represent: {}", client, short(&got), e)))?;
        if self.vars.matches(exp, &gj)? {
            self.vars.bind(exp, &gj)?;
            self.clients[ci].cursor += 1;
            self.matched += 1;
            self.world.history.push(format!("   expectation met on `{}`: {}", client, J::Object(exp.clone())));
            Ok(())
        } else {
            Err(self.mismatch(format!(
                "unexpected message received by client `{}`\nreceived:\n  {}\nexpected:\n  {}\nnot yet consumed on this client:\n  {}",
                client,
                J::Object(gj),
                self.vars.applied(exp),
                self.rest_of_log(ci)
            )))
        }
    }

    /// receive_unordered.rs
    fn receive_unordered(&mut self, client: &str, exps: &[Obj]) -> R<()> {
        let ci = self.client(client)?;
        for e in exps {
            spec(e)?;
        }
        let mut missing: Vec<&Obj> = exps.iter().collect();
        'outer: while !missing.is_empty() {
            let render_missing = |vars: &Vars, missing: &[&Obj]| missing.iter().map(|m| vars.applied(m).to_string()).collect::<Vec<_>>().join("\n  ");
            let Some(got) = self.next_message(ci) else {
                return Err(self.mismatch(format!("client `{}` still expects (in any order)\n  {}\nbut received nothing more (the tester would time out)", client, render_missing(&self.vars, &missing))));
            };
            let gj = to_json(&got).map_err(|e| self.mismatch(format!("client `{}` received {} which the tester cannot represent: {}", client, short(&got), e)))?;
            for i in 0..missing.len() {
                if self.vars.matches(missing[i], &gj)? {
                    self.vars.bind(missing[i], &gj)?;
                    self.world.history.push(format!("   expectation met on `{}` (unordered): {}", client, J::Object(missing[i].clone())));
                    missing.swap_remove(i);
                    self.clients[ci].cursor += 1;
                    self.matched += 1;
                    continue 'outer;
                }
            }
            return Err(self.mismatch(format!(
                "client `{}` received unexpected message\n  {}\nmissing (any order):\n  {}\nnot yet consumed on this client:\n  {}",
                client,
                J::Object(gj),
                render_missing(&self.vars, &missing),
                self.rest_of_log(ci)
            )));
        }
        Ok(())
    }

    /// receive_discard_until.rs
    fn receive_discard_until(&mut self, client: &str, exp: &Obj) -> R<()> {
        let ci = self.client(client)?;
        spec(exp)?;
        loop {
            let Some(got) = self.next_message(ci) else {
                return Err(self.mismatch(format!("client `{}` waits for\n  {}\nbut received nothing more (the tester would time out)", client, self.vars.applied(exp))));
            };
            let gj = to_json(&got).map_err(|e| self.mismatch(format!("client `{}` received {} which the tester cannot represent: {}", client, short(&got), e)))?;
            self.clients[ci].cursor += 1;
            if self.vars.matches(exp, &gj)? {
                self.vars.bind(exp, &gj)?;
                self.matched += 1;
                self.world.history.push(format!("   expectation met on `{}` (discarding until): {}", client, J::Object(exp.clone())));
                return Ok(());
            }
            self.world.history.push(format!("   `{}` discards {}", client, J::Object(gj)));
        }
    }

    /// connection_closed.rs: the next thing the client sees is EOF, not a message
    fn connection_closed(&mut self, client: &str) -> R<()> {
        let ci = self.client(client)?;
        let c = self.clients[ci].conn;
        if let Some(got) = self.next_message(ci) {
            return Err(Stop::Fail(Fail::new(
                format!("conformance:connection-closed:{}", self.scenario),
                format!("{}\nthe connection of client `{}` did not close: received a message {}", self.step_desc, client, short(&got)),
            )));
        }
        // pick up a close that happened without any message
        let more = self.world.conns[c].peer.drain();
        if !more.is_empty() {
            self.world.log[c].extend(more.iter().cloned());
            return Err(Stop::Fail(Fail::new(
                format!("conformance:connection-closed:{}", self.scenario),
                format!("{}\nthe connection of client `{}` did not close: received {}", self.step_desc, client, render_list(&more)),
            )));
        }
        let peer = &self.world.conns[c].peer;
        let model_alive = self.world.model.conns.get(&c).map(|x| x.alive).unwrap_or(false);
        if !peer.has_transport() {
            return bad(format!("client `{}` already dropped its transport", client));
        }
        if !peer.disconnected || model_alive {
            return Err(Stop::Fail(Fail::new(
                format!("conformance:connection-closed:{}", self.scenario),
                format!(
                    "{}\nthe connection of client `{}` did not close (transport closed: {}, model believes alive: {}; the tester would time out)",
                    self.step_desc, client, peer.disconnected, model_alive
                ),
            )));
        }
        self.matched += 1;
        self.world.history.push(format!("   connection of `{}` is closed, as expected", client));
        Ok(())
    }

    /// remove_client.rs: the client (and its TCP stream) is dropped
    fn remove_client(&mut self, client: &str) -> R<()> {
        let ci = self.client(client)?;
        let c = self.clients[ci].conn;
        self.clients.remove(ci);
        if self.world.conns[c].peer.has_transport() {
            self.world.hang_up(c).map_err(|f| self.engine(f))?;
        }
        Ok(())
    }

    /// shutdown.rs
    fn shutdown(&mut self, client: &str) -> R<()> {
        self.send(client, &obj(json!({"message": "shutdown"})))?;
        self.receive_discard_until(client, &obj(json!({"message": "shutdown"})))?;
        self.connection_closed(client)?;
        self.remove_client(client)
    }

    /// sync.rs
    fn sync(&mut self, client: &str, serial: J) -> R<()> {
        self.send(client, &obj(json!({"message": "sync", "serial": serial.clone()})))?;
        self.receive(client, &obj(json!({"message": "sync-reply", "serial": serial})))
    }
}

// ---------------------------------------------------------------------------------------------
// steps (test/*.rs): the shorthand steps are the sends and receives they stand for

fn with(mut o: Obj, k: &str, v: Option<&J>) -> Obj {
    if let Some(v) = v {
        o.insert(k.to_string(), v.clone());
    }
    o
}

impl Replay {
    fn step(&mut self, s: &Obj) -> R<()> {
        let client = client_of(s, "client")?.unwrap_or_else(|| "default".into());
        let client = client.as_str();
        // shorthand steps: an omitted serial is 0
        let serial = present(s, "serial").cloned().unwrap_or(json!(0));
        let f = |k: &str| -> R<J> { req(s, k).cloned() };
        match tag(s, "type")? {
            "connect" => self.connect(s),
            "remove-client" => self.remove_client(client),
            "shutdown" => self.shutdown(client),
            "connection-closed" => self.connection_closed(client),
            "send" => self.send(client, s),
            "receive" => self.receive(client, s),
            "receive-discard-until" => self.receive_discard_until(client, s),
            "receive-unordered" => {
                let msgs = match req(s, "messages")? {
                    J::Array(a) => a,
                    other => return bad(format!("messages must be an array, found {}", other)),
                };
                let mut exps = vec![];
                for m in msgs {
                    match m {
                        J::Object(o) => exps.push(o.clone()),
                        other => return bad(format!("a message must be an object, found {}", other)),
                    }
                }
                self.receive_unordered(client, &exps)
            }
            "sync" => self.sync(client, serial),
            "create-object" => {
                self.send(client, &obj(json!({"message": "create-object", "serial": serial.clone(), "uuid": f("uuid")?})))?;
                self.receive(client, &obj(json!({"message": "create-object-reply", "serial": serial, "result": "ok", "cookie": f("cookie")?})))
            }
            "destroy-object" => {
                self.send(client, &obj(json!({"message": "destroy-object", "serial": serial.clone(), "cookie": f("cookie")?})))?;
                self.receive(client, &obj(json!({"message": "destroy-object-reply", "serial": serial, "result": "ok"})))
            }
            "create-service" => {
                self.send(
                    client,
                    &obj(json!({"message": "create-service", "serial": serial.clone(), "object-cookie": f("object-cookie")?, "uuid": f("service-uuid")?, "version": f("version")?})),
                )?;
                self.receive(client, &obj(json!({"message": "create-service-reply", "serial": serial, "result": "ok", "cookie": f("service-cookie")?})))
            }
            "create-service2" => {
                // the info (version, type-id, subscribe-all) is flattened into the step
                let mut info = obj(json!({"version": f("version")?}));
                info = with(info, "type-id", present(s, "type-id"));
                info = with(info, "subscribe-all", present(s, "subscribe-all"));
                self.send(
                    client,
                    &obj(json!({"message": "create-service2", "serial": serial.clone(), "object-cookie": f("object-cookie")?, "uuid": f("service-uuid")?, "info": J::Object(info)})),
                )?;
                self.receive(client, &obj(json!({"message": "create-service-reply", "serial": serial, "result": "ok", "cookie": f("service-cookie")?})))
            }
            "destroy-service" => {
                self.send(client, &obj(json!({"message": "destroy-service", "serial": serial.clone(), "cookie": f("cookie")?})))?;
                self.receive(client, &obj(json!({"message": "destroy-service-reply", "serial": serial, "result": "ok"})))
            }
            kind @ ("subscribe-event" | "subscribe-all-events") => {
                let reply_kind = if kind == "subscribe-event" { "subscribe-event-reply" } else { "subscribe-all-events-reply" };
                let mut fwd = obj(json!({"message": kind, "service-cookie": f("service-cookie")?}));
                if kind == "subscribe-event" {
                    fwd.insert("event".into(), f("event")?);
                }
                let mut request = fwd.clone();
                request.insert("serial".into(), serial.clone());
                let reply = obj(json!({"message": reply_kind, "serial": serial, "result": "ok"}));
                self.send(client, &request)?;
                if flag(s, "with-owner", true)? {
                    let owner = client_of(s, "owner")?.unwrap_or_else(|| client.to_string());
                    if owner == client {
                        // the owner subscribes to itself: forward and reply in any order
                        return self.receive_unordered(client, &[fwd, reply]);
                    }
                    self.receive(&owner, &fwd)?;
                }
                self.receive(client, &reply)
            }
            "unsubscribe-event" => {
                let m = obj(json!({"message": "unsubscribe-event", "service-cookie": f("service-cookie")?, "event": f("event")?}));
                self.send(client, &m)?;
                if flag(s, "with-owner", true)? {
                    let owner = client_of(s, "owner")?.unwrap_or_else(|| client.to_string());
                    self.receive(&owner, &m)?;
                }
                Ok(())
            }
            "create-channel" => {
                let end = with(obj(json!({"end": f("end")?})), "capacity", present(s, "capacity"));
                let mut m = obj(json!({"message": "create-channel", "serial": serial.clone()}));
                // the capacity belongs to the receiver variant only
                m.insert("end".into(), end["end"].clone());
                if tag(s, "end")? == "receiver" {
                    m.insert("capacity".into(), f("capacity")?);
                }
                self.send(client, &m)?;
                self.receive(client, &obj(json!({"message": "create-channel-reply", "serial": serial, "cookie": f("cookie")?})))
            }
            "claim-channel-end" => {
                let end = tag(s, "end")?.to_string();
                let capacity = f("capacity")?;
                let mut claim = obj(json!({"message": "claim-channel-end", "serial": serial.clone(), "cookie": f("cookie")?, "end": end.clone()}));
                let mut claimed = obj(json!({"message": "channel-end-claimed", "cookie": f("cookie")?, "end": end.clone()}));
                let mut reply = obj(json!({"message": "claim-channel-end-reply", "serial": serial}));
                match end.as_str() {
                    "sender" => {
                        reply.insert("result".into(), json!("sender-claimed"));
                        reply.insert("capacity".into(), capacity);
                    }
                    "receiver" => {
                        claim.insert("capacity".into(), capacity.clone());
                        claimed.insert("capacity".into(), capacity);
                        reply.insert("result".into(), json!("receiver-claimed"));
                    }
                    other => return bad(format!("unknown channel end `{}`", other)),
                }
                self.send(client, &claim)?;
                self.receive(client, &reply)?;
                if flag(s, "with-other", true)? {
                    let other = client_of(s, "other")?.unwrap_or_else(|| client.to_string());
                    self.receive(&other, &claimed)?;
                }
                Ok(())
            }
            "close-channel-end" => {
                let with_other = flag(s, "with-other", true)?;
                let other = client_of(s, "other")?.unwrap_or_else(|| client.to_string());
                self.close_channel_end(client, serial, f("cookie")?, f("end")?, with_other.then_some(other))
            }
            "close-channel" => {
                let sender = client_of(s, "sender")?.unwrap_or_else(|| client.to_string());
                let receiver = client_of(s, "receiver")?.unwrap_or_else(|| client.to_string());
                self.close_channel_end(&sender, serial.clone(), f("cookie")?, json!("sender"), Some(receiver.clone()))?;
                self.close_channel_end(&receiver, serial, f("cookie")?, json!("receiver"), None)
            }
            "send-item" => {
                let mut item = obj(json!({"message": "send-item", "cookie": f("cookie")?}));
                copy_value(s, &mut item);
                let mut got = obj(json!({"message": "item-received", "cookie": f("cookie")?}));
                copy_value(s, &mut got);
                self.send(client, &item)?;
                let receiver = client_of(s, "receiver")?.unwrap_or_else(|| client.to_string());
                self.receive(&receiver, &got)
            }
            "create-bus-listener" => {
                self.send(client, &obj(json!({"message": "create-bus-listener", "serial": serial.clone()})))?;
                self.receive(client, &obj(json!({"message": "create-bus-listener-reply", "serial": serial, "cookie": f("cookie")?})))
            }
            "destroy-bus-listener" => {
                self.send(client, &obj(json!({"message": "destroy-bus-listener", "serial": serial.clone(), "cookie": f("cookie")?})))?;
                self.receive(client, &obj(json!({"message": "destroy-bus-listener-reply", "serial": serial, "result": "ok"})))
            }
            "start-bus-listener" => {
                self.send(client, &obj(json!({"message": "start-bus-listener", "serial": serial.clone(), "cookie": f("cookie")?, "scope": f("scope")?})))?;
                self.receive(client, &obj(json!({"message": "start-bus-listener-reply", "serial": serial, "result": "ok"})))
            }
            "stop-bus-listener" => {
                self.send(client, &obj(json!({"message": "stop-bus-listener", "serial": serial.clone(), "cookie": f("cookie")?})))?;
                self.receive(client, &obj(json!({"message": "stop-bus-listener-reply", "serial": serial, "result": "ok"})))
            }
            other => Err(Stop::Unsupported(format!("step type `{}`", other))),
        }
    }

    /// close_channel_end.rs
    fn close_channel_end(&mut self, client: &str, serial: J, cookie: J, end: J, other: Option<String>) -> R<()> {
        self.send(client, &obj(json!({"message": "close-channel-end", "serial": serial.clone(), "cookie": cookie.clone(), "end": end.clone()})))?;
        self.receive(client, &obj(json!({"message": "close-channel-end-reply", "serial": serial, "result": "ok"})))?;
        if let Some(other) = other {
            self.receive(&other, &obj(json!({"message": "channel-end-closed", "cookie": cookie, "end": end})))?;
        }
        Ok(())
    }

    /// test.rs `Test::run`: the steps, then an implicit sync of every remaining client that asks
    /// for it (its reply must be the very next message: nothing may be left unconsumed), then an
    /// implicit shutdown of every remaining client that asks for it.
    fn run(&mut self, steps: &[J]) -> R<()> {
        for (i, s) in steps.iter().enumerate() {
            let J::Object(s) = s else { return bad(format!("step {} is not an object", i + 1)) };
            self.step_desc = format!("scenario `{}` step {}: {}", self.scenario, i + 1, J::Object(s.clone()));
            self.world.history.push(format!("-- step {}: {}", i + 1, J::Object(s.clone())));
            self.step(s)?;
        }
        let mut names: Vec<(String, bool, bool)> = self.clients.iter().map(|c| (c.name.clone(), c.sync, c.shutdown)).collect();
        if self.reverse_final {
            names.reverse();
        }
        for (name, sync, _) in &names {
            if *sync {
                self.step_desc = format!("scenario `{}`: implicit final synchronization of client `{}`", self.scenario, name);
                self.world.history.push(format!("-- implicit final sync of `{}`", name));
                self.sync(name, json!(0))?;
            }
        }
        for (name, _, shutdown) in &names {
            if *shutdown {
                self.step_desc = format!("scenario `{}`: implicit final shutdown of client `{}`", self.scenario, name);
                self.world.history.push(format!("-- implicit final shutdown of `{}`", name));
                self.shutdown(name)?;
            }
        }
        Ok(())
    }
}

// ---------------------------------------------------------------------------------------------
// public API

/// (name, path) of every scenario, sorted by name (the file stem).
pub fn scenarios() -> Vec<(String, PathBuf)> {
    let dir = vcommon::repo_root().join("conformance-tester/tests");
    let mut out = vec![];
    if let Ok(rd) = std::fs::read_dir(&dir) {
        for e in rd.flatten() {
            let p = e.path();
            if p.extension().and_then(|x| x.to_str()) == Some("json") && p.is_file() {
                if let Some(stem) = p.file_stem().and_then(|x| x.to_str()) {
                    out.push((stem.to_string(), p));
                }
            }
        }
    }
    out.sort();
    out
}

/// Result of one replay, with more detail than an `Outcome`.
pub struct Report {
    pub name: String,
    pub outcome: Outcome,
    /// reason if the replay stopped at something unsupported
    pub unsupported: Option<String>,
    /// number of upstream expectations matched against real messages
    pub matched: usize,
    /// number of engine steps (injects, hang-ups, connects) recorded
    pub history: Vec<String>,
}

fn load(index: usize) -> Result<(String, Obj), String> {
    let list = scenarios();
    let (name, path) = list.get(index).ok_or_else(|| format!("no scenario with index {} ({} scenarios)", index, list.len()))?.clone();
    let text = std::fs::read_to_string(&path).map_err(|e| format!("cannot read {}: {}", path.display(), e))?;
    match serde_json::from_str::<J>(&text) {
        Ok(J::Object(o)) => Ok((name, o)),
        Ok(_) => Err(format!("{} is not a JSON object", path.display())),
        Err(e) => Err(format!("cannot parse {}: {}", path.display(), e)),
    }
}

fn replay(name: &str, test: &Obj, variant: Variant) -> Report {
    let steps = match test.get("steps") {
        Some(J::Array(a)) => a.clone(),
        _ => vec![],
    };
    let mut r = Replay::new(name, variant);
    let res = r.run(&steps);
    let pass = |unsupported: bool| {
        let mut classes = vec!["conformance"];
        if unsupported {
            classes.push("conformance:unsupported");
        }
        Outcome::Pass(PassInfo { nontrivial: true, fp: fingerprint(name.as_bytes()), classes })
    };
    let (outcome, unsupported) = match res {
        Ok(()) => (pass(false), None),
        Err(Stop::Unsupported(why)) => (pass(true), Some(format!("{} ({})", why, r.step_desc))),
        Err(Stop::Fail(f)) => (f.outcome(&r.world.history), None),
        Err(Stop::Scenario(why)) => (Fail::new(format!("conformance:scenario-error:{}", name), format!("{}\n{}", r.step_desc, why)).outcome(&r.world.history), None),
    };
    Report { name: name.to_string(), outcome, unsupported, matched: r.matched, history: std::mem::take(&mut r.world.history) }
}

/// Replays scenario `index` with the tester's default protocol version (1.20).
pub fn run_scenario_report(index: usize) -> Report {
    run_scenario_report_at(index, ProtocolVersion::V1_20)
}

/// Replays scenario `index` the way `conformance-tester run -p <version>` would: `version` is the
/// version of every `connect` step that does not name one.
pub fn run_scenario_report_at(index: usize, version: ProtocolVersion) -> Report {
    run_scenario_variant(index, Variant { version, ..Variant::default() })
}

/// Replays scenario `index` under an explicit variant.
pub fn run_scenario_variant(index: usize, variant: Variant) -> Report {
    let (name, test) = match load(index) {
        Ok(x) => x,
        Err(e) => {
            return Report { name: format!("#{}", index), outcome: Outcome::fail("conformance:scenario-error:load", e), unsupported: None, matched: 0, history: vec![] };
        }
    };
    let n2 = name.clone();
    match vcommon::with_det_seed(1, 8 << 20, move || replay(&n2, &test, variant)) {
        Ok(r) => r,
        Err(_) => {
            let pn = vcommon::last_panic_any_thread();
            Report {
                name: name.clone(),
                outcome: Outcome::fail(format!("conformance:{}:harness-panic:{}", name, pn.location()), format!("case thread panicked: {}", pn.0)),
                unsupported: None,
                matched: 0,
                history: vec![],
            }
        }
    }
}

pub fn run_scenario(index: usize) -> Outcome {
    run_scenario_report(index).outcome
}

/// The protocol version a scenario requires (`version`, default 1.14): `-p` versions below it
/// deselect the scenario.
pub fn required_version(index: usize) -> Option<ProtocolVersion> {
    let (_, test) = load(index).ok()?;
    match test.get("version") {
        Some(J::String(s)) => s.parse().ok(),
        _ => Some(ProtocolVersion::V1_14),
    }
}

pub fn render_scenario(index: usize) -> String {
    match load(index) {
        Err(e) => e,
        Ok((name, test)) => {
            let mut s = format!("conformance scenario `{}`", name);
            if let Some(d) = test.get("description").and_then(|d| d.as_str()) {
                s.push_str(&format!(": {}", d));
            }
            if let Some(v) = test.get("version").and_then(|d| d.as_str()) {
                s.push_str(&format!(" (requires {})", v));
            }
            s.push('\n');
            if let Some(J::Array(steps)) = test.get("steps") {
                for (i, st) in steps.iter().enumerate() {
                    s.push_str(&format!("  {:2}. {}\n", i + 1, st));
                }
            }
            s.push_str("  then: implicit sync and shutdown of every remaining client that asks for it\n");
            s
        }
    }
}

/// (fully replayed, total, unsupported ones with the reason)
pub fn supported_summary() -> (usize, usize, Vec<String>) {
    let total = scenarios().len();
    let mut full = 0;
    let mut unsupported = vec![];
    for i in 0..total {
        let r = run_scenario_report(i);
        match (&r.outcome, &r.unsupported) {
            (Outcome::Pass(_), None) => full += 1,
            (_, Some(why)) => unsupported.push(format!("{}: {}", r.name, why)),
            _ => {}
        }
    }
    (full, total, unsupported)
}
