//! `apiprog`: a small DSL of client-API operations, and its tape decoder.
//!
//! A program is a set of application tasks (1..3 per client), each a list of operations that the
//! interpreter (interp.rs) executes in order against per-client slots holding the API's values.
//! The decoder keeps an abstract picture of which slots are probably filled so that most generated
//! operations find their operands; the interpreter skips (and counts) the rest.

use crate::net::{Proto, TKind};
use vcommon::Tape;

pub const NOBJ: usize = 2;
pub const NSVC: usize = 3;
pub const NPROXY: usize = 3;
pub const NCH: usize = 2;
pub const NLIS: usize = 2;
pub const NDISC: usize = 2;
pub const NSCOPE: usize = 2;
pub const NLT: usize = 2;
pub const OBJ_POOL: usize = 3;
pub const SVC_POOL: usize = 2;
pub const EVENTS: [u32; 3] = [0, 1, 7];
pub const CAPS: [u32; 5] = [1, 2, 4, 5, 16];

#[derive(Debug, Clone, Copy, PartialEq, Eq)]
pub enum End {
    Snd,
    Rcv,
}

#[derive(Debug, Clone, Copy, PartialEq, Eq)]
pub enum CallMode {
    /// call and await the reply
    Await,
    /// call and drop the pending reply at once (documented abort)
    Abort,
    /// call and keep the pending reply for a later AwaitReply/DropReply
    Stash,
}

#[derive(Debug, Clone, Copy, PartialEq, Eq)]
pub enum Scope {
    Current,
    New,
    All,
}

/// One of the six bus listener filter shapes over the UUID pools.
#[derive(Debug, Clone, Copy, PartialEq, Eq)]
pub struct Filter {
    pub shape: u8,
    pub obj: u8,
    pub svc: u8,
}

/// One discoverer entry: a specific object (pool index) or any, with a set of required services
/// (bit mask over the service pool).
#[derive(Debug, Clone, Copy, PartialEq, Eq)]
pub struct Entry {
    pub obj: Option<u8>,
    pub svcs: u8,
}

#[derive(Debug, Clone, PartialEq, Eq)]
pub enum Op {
    /// wait for the driver to open the next phase (it does so at quiescence)
    Barrier,
    Yield(u8),
    SyncClient,
    SyncBroker,
    CloneHandle,
    DropExtraHandle,
    Shutdown,

    CreateObject { o: u8, u: u8 },
    DestroyObject { o: u8 },
    DropObject { o: u8 },
    CreateService { o: u8, s: u8, u: u8, ver: u8 },
    DestroyService { s: u8 },
    DropService { s: u8 },
    /// server loop: serve n calls (0 = until the call stream ends); per call i the action is
    /// script digit i%8: 0..3 ok(g(nonce)), 4 err(h(nonce)), 5 abort, 6 drop promise, 7 hold promise
    Serve { s: u8, n: u8, script: u32 },
    /// answer (ok=true) or drop (ok=false) the oldest held promise
    ReleaseHeld { ok: bool },
    Emit { s: u8, ev: u8 },

    CreateProxy { p: u8, c: u8, s: u8 },
    DropProxy { p: u8 },
    Call { p: u8, f: u8, mode: CallMode },
    AwaitReply,
    DropReply,
    Subscribe { p: u8, ev: u8 },
    Unsubscribe { p: u8, ev: u8 },
    SubscribeAll { p: u8 },
    UnsubscribeAll { p: u8 },
    NextEvent { p: u8, n: u8, wait: bool },

    CreateChannel { ch: u8, claim: End, cap: u8 },
    Unbind { ch: u8, end: End },
    Bind { ch: u8, end: End, k: u8 },
    Claim { ch: u8, end: End, cap: u8 },
    Establish { ch: u8, end: End },
    Send { ch: u8, n: u8 },
    Recv { ch: u8, n: u8, wait: bool },
    CloseEnd { ch: u8, end: End },
    DropEnd { ch: u8, end: End },

    CreateListener { l: u8 },
    AddFilter { l: u8, f: Filter },
    RemoveFilter { l: u8, f: Filter },
    ClearFilters { l: u8 },
    StartListener { l: u8, scope: Scope },
    StopListener { l: u8 },
    ListenerNext { l: u8, n: u8, wait: bool },
    DestroyListener { l: u8 },
    DropListener { l: u8 },

    CreateDiscoverer { d: u8, entries: Vec<Entry>, current_only: bool },
    DiscNext { d: u8, n: u8, wait: bool },
    RestartDiscoverer { d: u8, current_only: bool },
    DropDiscoverer { d: u8 },
    FindObject { e: Entry },
    WaitForObject { e: Entry },

    CreateScope { sc: u8 },
    EndScope { sc: u8 },
    DropScope { sc: u8 },
    CreateLifetime { lt: u8, k: u8 },
    LifetimeEnded { lt: u8 },
    DropLifetime { lt: u8 },
}

#[derive(Debug, Clone, Copy, PartialEq, Eq)]
pub enum FinalMode {
    /// `Handle::shutdown()`
    Shutdown,
    /// drop every value and handle the application holds (client stops on its last handle)
    DropAll,
}

#[derive(Debug, Clone)]
pub struct ClientSpec {
    pub proto: Proto,
    pub tkind: TKind,
    pub tasks: usize,
    pub final_mode: FinalMode,
}

#[derive(Debug, Clone)]
pub struct TaskProg {
    pub client: usize,
    pub ops: Vec<Op>,
}

#[derive(Debug, Clone)]
pub struct Program {
    pub det_seed: u64,
    pub sched_seed: u64,
    pub policy: u8,
    pub clients: Vec<ClientSpec>,
    pub tasks: Vec<TaskProg>,
    /// ask the broker to shut down when idle before the program starts (else at the very end)
    pub idle_early: bool,
    /// refused channel claims (second claimant, claim of a dead channel) may be generated
    pub allow_refused_claims: bool,
}

// ---------------------------------------------------------------------------------------------
// decoder

#[derive(Clone, Copy, PartialEq, Eq, Debug)]
enum GEnd {
    None,
    Unclaimed,
    Pending,
    Est,
}

#[derive(Clone)]
struct GClient {
    obj: [bool; NOBJ],
    svc: [bool; NSVC],
    served: [bool; NSVC],
    proxy: [bool; NPROXY],
    stash: usize,
    held: usize,
    snd: [GEnd; NCH],
    rcv: [GEnd; NCH],
    lis: [u8; NLIS], // 0 none, 1 created, 2 started
    disc: [bool; NDISC],
    scope: [bool; NSCOPE],
    lt: [bool; NLT],
    extra: usize,
    proto: Proto,
}

struct Gen<'a, 'b> {
    t: &'a mut Tape<'b>,
    cl: Vec<GClient>,
    /// published services (client, slot)
    pub_svcs: Vec<(u8, u8)>,
    unbound: [usize; 2],
    scopes: usize,
}

pub fn decode_header(t: &mut Tape) -> (u64, u64, u8, Vec<ClientSpec>, bool) {
    let det_seed = t.u32() as u64;
    let sched_seed = t.u32() as u64;
    let policy = t.u8();
    let n_clients = 1 + t.weighted(&[40, 90, 80, 46]);
    let mut clients = vec![];
    for _ in 0..n_clients {
        let proto = if t.weighted(&[3, 1]) == 0 { Proto::V20 } else { Proto::V14 };
        let tkind = if t.weighted(&[2, 3]) == 0 {
            TKind::Unbounded
        } else {
            TKind::Bounded(match t.below(4) {
                0 => 1,
                1 => 2,
                2 => t.range(3, 5),
                _ => t.range(6, 16),
            })
        };
        let tasks = 1 + t.weighted(&[2, 3, 2]);
        let final_mode = if t.weighted(&[3, 2]) == 0 { FinalMode::Shutdown } else { FinalMode::DropAll };
        clients.push(ClientSpec { proto, tkind, tasks, final_mode });
    }
    let idle_early = t.bool();
    (det_seed, sched_seed, policy, clients, idle_early)
}

pub fn decode_program(tape: &[u8], allow_refused_claims: bool, max_ops: usize) -> Program {
    let mut t = Tape::new(tape);
    let (det_seed, sched_seed, policy, clients, idle_early) = decode_header(&mut t);
    let mut tasks: Vec<TaskProg> = vec![];
    for (ci, c) in clients.iter().enumerate() {
        for _ in 0..c.tasks {
            tasks.push(TaskProg { client: ci, ops: vec![] });
        }
    }
    let cl = clients
        .iter()
        .map(|c| GClient {
            obj: [false; NOBJ],
            svc: [false; NSVC],
            served: [false; NSVC],
            proxy: [false; NPROXY],
            stash: 0,
            held: 0,
            snd: [GEnd::None; NCH],
            rcv: [GEnd::None; NCH],
            lis: [0; NLIS],
            disc: [false; NDISC],
            scope: [false; NSCOPE],
            lt: [false; NLT],
            extra: 0,
            proto: c.proto,
        })
        .collect();
    let mut g = Gen { t: &mut t, cl, pub_svcs: vec![], unbound: [0, 0], scopes: 0 };
    let mut parked = vec![false; tasks.len()];
    let mut total = 0;
    while total < max_ops {
        let b = g.t.u8();
        if b == 0 {
            break;
        }
        let mut ti = (b as usize - 1) % tasks.len();
        // prefer a task that is not parked in an endless stream operation
        for _ in 0..tasks.len() {
            if !parked[ti] {
                break;
            }
            ti = (ti + 1) % tasks.len();
        }
        let ci = tasks[ti].client;
        let op = g.op(ci, allow_refused_claims);
        if op == Op::Barrier {
            for tp in tasks.iter_mut() {
                tp.ops.push(Op::Barrier);
            }
            total += 1;
            continue;
        }
        if matches!(op, Op::Serve { n: 0, .. } | Op::WaitForObject { .. } | Op::LifetimeEnded { .. }) {
            parked[ti] = true;
        }
        tasks[ti].ops.push(op);
        total += 1;
    }
    Program { det_seed, sched_seed, policy, clients, tasks, idle_early, allow_refused_claims }
}

fn pick_true(t: &mut Tape, flags: &[bool]) -> Option<u8> {
    let idx: Vec<u8> = flags.iter().enumerate().filter(|(_, f)| **f).map(|(i, _)| i as u8).collect();
    if idx.is_empty() {
        None
    } else {
        Some(idx[t.below(idx.len())])
    }
}

impl Gen<'_, '_> {
    fn end(&mut self) -> End {
        if self.t.bool() {
            End::Rcv
        } else {
            End::Snd
        }
    }

    fn filter(&mut self) -> Filter {
        Filter { shape: self.t.below(6) as u8, obj: self.t.below(OBJ_POOL) as u8, svc: self.t.below(SVC_POOL) as u8 }
    }

    fn entry(&mut self) -> Entry {
        let obj = if self.t.bool() { Some(self.t.below(OBJ_POOL) as u8) } else { None };
        let svcs = self.t.below(1 << SVC_POOL) as u8;
        Entry { obj, svcs }
    }

    fn scope(&mut self) -> Scope {
        match self.t.below(3) {
            0 => Scope::All,
            1 => Scope::Current,
            _ => Scope::New,
        }
    }

    fn create_object(&mut self, ci: usize) -> Op {
        let o = self.t.below(NOBJ) as u8;
        let u = self.t.below(OBJ_POOL) as u8;
        self.cl[ci].obj[o as usize] = true;
        Op::CreateObject { o, u }
    }

    fn create_service(&mut self, ci: usize) -> Op {
        let Some(o) = pick_true(self.t, &self.cl[ci].obj.clone()) else {
            return self.create_object(ci);
        };
        let s = self.t.below(NSVC) as u8;
        let u = self.t.below(SVC_POOL) as u8;
        let ver = self.t.below(3) as u8;
        self.cl[ci].svc[s as usize] = true;
        self.cl[ci].served[s as usize] = false;
        if !self.pub_svcs.contains(&(ci as u8, s)) {
            self.pub_svcs.push((ci as u8, s));
        }
        Op::CreateService { o, s, u, ver }
    }

    fn serve(&mut self, ci: usize, s: u8) -> Op {
        self.cl[ci].served[s as usize] = true;
        let n = match self.t.weighted(&[3, 2]) {
            0 => 0,
            _ => 1 + self.t.below(3) as u8,
        };
        let script = if self.t.bool() { self.t.u32() & 0x00ff_ffff } else { 0 };
        if script != 0 {
            self.cl[ci].held += 1;
        }
        Op::Serve { s, n, script }
    }

    fn create_proxy(&mut self, ci: usize) -> Op {
        if self.pub_svcs.is_empty() {
            return self.create_service(ci);
        }
        let (c, s) = self.pub_svcs[self.t.below(self.pub_svcs.len())];
        let p = self.t.below(NPROXY) as u8;
        self.cl[ci].proxy[p as usize] = true;
        Op::CreateProxy { p, c, s }
    }

    fn op(&mut self, ci: usize, allow_refused: bool) -> Op {
        let cat = self.t.weighted(&[18, 24, 8, 24, 9, 8, 8, 5]);
        match cat {
            0 => self.objsvc(ci),
            1 => self.calls(ci),
            2 => self.events(ci),
            3 => self.channels(ci, allow_refused),
            4 => self.listeners(ci),
            5 => self.discovery(ci),
            6 => self.misc(ci),
            _ => Op::Barrier,
        }
    }

    fn objsvc(&mut self, ci: usize) -> Op {
        // an unserved service gets its server loop first
        let unserved: Vec<u8> = (0..NSVC).filter(|&s| self.cl[ci].svc[s] && !self.cl[ci].served[s]).map(|s| s as u8).collect();
        match self.t.weighted(&[20, 25, 25, 6, 8, 6, 10, 4]) {
            0 => self.create_object(ci),
            1 => self.create_service(ci),
            2 => {
                if unserved.is_empty() {
                    self.create_service(ci)
                } else {
                    let s = unserved[self.t.below(unserved.len())];
                    self.serve(ci, s)
                }
            }
            3 => match pick_true(self.t, &self.cl[ci].obj.clone()) {
                Some(o) => Op::DestroyObject { o },
                None => self.create_object(ci),
            },
            4 => match pick_true(self.t, &self.cl[ci].obj.clone()) {
                Some(o) => {
                    self.cl[ci].obj[o as usize] = false;
                    Op::DropObject { o }
                }
                None => self.create_object(ci),
            },
            5 => match pick_true(self.t, &self.cl[ci].svc.clone()) {
                Some(s) => Op::DestroyService { s },
                None => self.create_service(ci),
            },
            6 => match pick_true(self.t, &self.cl[ci].svc.clone()) {
                Some(s) => {
                    self.cl[ci].svc[s as usize] = false;
                    Op::DropService { s }
                }
                None => self.create_service(ci),
            },
            _ => {
                if self.cl[ci].held > 0 {
                    Op::ReleaseHeld { ok: self.t.bool() }
                } else {
                    self.create_service(ci)
                }
            }
        }
    }

    fn calls(&mut self, ci: usize) -> Op {
        let proxies = self.cl[ci].proxy;
        match self.t.weighted(&[22, 50, 8, 8, 12]) {
            0 => self.create_proxy(ci),
            1 => match pick_true(self.t, &proxies) {
                Some(p) => {
                    let f = self.t.below(4) as u8;
                    let mode = match self.t.weighted(&[5, 2, 2]) {
                        0 => CallMode::Await,
                        1 => CallMode::Abort,
                        _ => {
                            self.cl[ci].stash += 1;
                            CallMode::Stash
                        }
                    };
                    Op::Call { p, f, mode }
                }
                None => self.create_proxy(ci),
            },
            2 => {
                if self.cl[ci].stash > 0 {
                    self.cl[ci].stash -= 1;
                    Op::AwaitReply
                } else {
                    self.create_proxy(ci)
                }
            }
            3 => {
                if self.cl[ci].stash > 0 {
                    self.cl[ci].stash -= 1;
                    Op::DropReply
                } else {
                    self.create_proxy(ci)
                }
            }
            _ => match pick_true(self.t, &proxies) {
                Some(p) => {
                    self.cl[ci].proxy[p as usize] = false;
                    Op::DropProxy { p }
                }
                None => self.create_proxy(ci),
            },
        }
    }

    fn events(&mut self, ci: usize) -> Op {
        let proxies = self.cl[ci].proxy;
        let ev = self.t.below(EVENTS.len()) as u8;
        match self.t.weighted(&[30, 25, 8, 10, 7, 20]) {
            0 => match pick_true(self.t, &self.cl[ci].svc.clone()) {
                Some(s) => Op::Emit { s, ev },
                None => self.create_service(ci),
            },
            1 => match pick_true(self.t, &proxies) {
                Some(p) => Op::Subscribe { p, ev },
                None => self.create_proxy(ci),
            },
            2 => match pick_true(self.t, &proxies) {
                Some(p) => Op::Unsubscribe { p, ev },
                None => self.create_proxy(ci),
            },
            3 => match pick_true(self.t, &proxies) {
                Some(p) => Op::SubscribeAll { p },
                None => self.create_proxy(ci),
            },
            4 => match pick_true(self.t, &proxies) {
                Some(p) => Op::UnsubscribeAll { p },
                None => self.create_proxy(ci),
            },
            _ => match pick_true(self.t, &proxies) {
                Some(p) => Op::NextEvent { p, n: 1 + self.t.below(3) as u8, wait: self.t.bool() },
                None => self.create_proxy(ci),
            },
        }
    }

    fn create_channel(&mut self, ci: usize) -> Op {
        let ch = self.t.below(NCH);
        let claim = self.end();
        let cap = self.t.below(CAPS.len()) as u8;
        match claim {
            End::Snd => {
                self.cl[ci].snd[ch] = GEnd::Pending;
                self.cl[ci].rcv[ch] = GEnd::Unclaimed;
            }
            End::Rcv => {
                self.cl[ci].rcv[ch] = GEnd::Pending;
                self.cl[ci].snd[ch] = GEnd::Unclaimed;
            }
        }
        Op::CreateChannel { ch: ch as u8, claim, cap }
    }

    fn ends_in(&self, ci: usize, want: &[GEnd]) -> Vec<(u8, End)> {
        let mut v = vec![];
        for ch in 0..NCH {
            if want.contains(&self.cl[ci].snd[ch]) {
                v.push((ch as u8, End::Snd));
            }
            if want.contains(&self.cl[ci].rcv[ch]) {
                v.push((ch as u8, End::Rcv));
            }
        }
        v
    }

    fn set_end(&mut self, ci: usize, ch: u8, end: End, st: GEnd) {
        match end {
            End::Snd => self.cl[ci].snd[ch as usize] = st,
            End::Rcv => self.cl[ci].rcv[ch as usize] = st,
        }
    }

    fn channels(&mut self, ci: usize, allow_refused: bool) -> Op {
        match self.t.weighted(&[16, 12, 16, 12, 8, 12, 12, 4, 8]) {
            0 => self.create_channel(ci),
            1 => {
                let v = self.ends_in(ci, &[GEnd::Unclaimed]);
                if v.is_empty() {
                    return self.create_channel(ci);
                }
                let (ch, end) = v[self.t.below(v.len())];
                self.set_end(ci, ch, end, GEnd::None);
                self.unbound[end as usize] += 1;
                Op::Unbind { ch, end }
            }
            2 => {
                // bind an unbound end here (possibly a second time elsewhere: two claimants)
                let end = self.end();
                let end = if self.unbound[end as usize] > 0 {
                    end
                } else if self.unbound[1 - end as usize] > 0 {
                    if end == End::Snd {
                        End::Rcv
                    } else {
                        End::Snd
                    }
                } else {
                    return self.create_channel(ci);
                };
                let n = self.unbound[end as usize];
                // newest first: zero picks the most recently unbound end
                let k = (n - 1 - self.t.below(n)) as u8;
                let ch = self.t.below(NCH) as u8;
                self.set_end(ci, ch, end, GEnd::Unclaimed);
                let _ = allow_refused;
                Op::Bind { ch, end, k }
            }
            3 => {
                let v = self.ends_in(ci, &[GEnd::Unclaimed]);
                if v.is_empty() {
                    return self.create_channel(ci);
                }
                let (ch, end) = v[self.t.below(v.len())];
                self.set_end(ci, ch, end, GEnd::Est);
                Op::Claim { ch, end, cap: self.t.below(CAPS.len()) as u8 }
            }
            4 => {
                let v = self.ends_in(ci, &[GEnd::Pending]);
                if v.is_empty() {
                    return self.create_channel(ci);
                }
                let (ch, end) = v[self.t.below(v.len())];
                self.set_end(ci, ch, end, GEnd::Est);
                Op::Establish { ch, end }
            }
            5 => {
                let v: Vec<u8> = (0..NCH).filter(|&c| matches!(self.cl[ci].snd[c], GEnd::Est | GEnd::Pending)).map(|c| c as u8).collect();
                if v.is_empty() {
                    return self.create_channel(ci);
                }
                Op::Send { ch: v[self.t.below(v.len())], n: 1 + self.t.below(20) as u8 }
            }
            6 => {
                let v: Vec<u8> = (0..NCH).filter(|&c| matches!(self.cl[ci].rcv[c], GEnd::Est | GEnd::Pending)).map(|c| c as u8).collect();
                if v.is_empty() {
                    return self.create_channel(ci);
                }
                Op::Recv { ch: v[self.t.below(v.len())], n: 1 + self.t.below(20) as u8, wait: self.t.bool() }
            }
            7 => {
                let v = self.ends_in(ci, &[GEnd::Unclaimed, GEnd::Pending, GEnd::Est]);
                if v.is_empty() {
                    return self.create_channel(ci);
                }
                let (ch, end) = v[self.t.below(v.len())];
                Op::CloseEnd { ch, end }
            }
            _ => {
                let v = self.ends_in(ci, &[GEnd::Unclaimed, GEnd::Pending, GEnd::Est]);
                if v.is_empty() {
                    return self.create_channel(ci);
                }
                let (ch, end) = v[self.t.below(v.len())];
                self.set_end(ci, ch, end, GEnd::None);
                Op::DropEnd { ch, end }
            }
        }
    }

    fn listeners(&mut self, ci: usize) -> Op {
        let have: Vec<u8> = (0..NLIS).filter(|&l| self.cl[ci].lis[l] > 0).map(|l| l as u8).collect();
        if have.is_empty() {
            let l = self.t.below(NLIS) as u8;
            self.cl[ci].lis[l as usize] = 1;
            return Op::CreateListener { l };
        }
        let l = have[self.t.below(have.len())];
        match self.t.weighted(&[8, 30, 8, 4, 22, 8, 12, 3, 5]) {
            0 => {
                let l = self.t.below(NLIS) as u8;
                self.cl[ci].lis[l as usize] = 1;
                Op::CreateListener { l }
            }
            1 => Op::AddFilter { l, f: self.filter() },
            2 => Op::RemoveFilter { l, f: self.filter() },
            3 => Op::ClearFilters { l },
            4 => {
                self.cl[ci].lis[l as usize] = 2;
                Op::StartListener { l, scope: self.scope() }
            }
            5 => Op::StopListener { l },
            6 => Op::ListenerNext { l, n: 1 + self.t.below(4) as u8, wait: self.t.bool() },
            7 => Op::DestroyListener { l },
            _ => {
                self.cl[ci].lis[l as usize] = 0;
                Op::DropListener { l }
            }
        }
    }

    fn discovery(&mut self, ci: usize) -> Op {
        match self.t.weighted(&[20, 14, 8, 6, 10, 5, 12, 5, 4, 10, 4, 4]) {
            0 => {
                let d = self.t.below(NDISC) as u8;
                let n = 1 + self.t.below(3);
                let entries = (0..n).map(|_| self.entry()).collect();
                self.cl[ci].disc[d as usize] = true;
                Op::CreateDiscoverer { d, entries, current_only: self.t.chance(64) }
            }
            1 => match pick_true(self.t, &self.cl[ci].disc.clone()) {
                Some(d) => Op::DiscNext { d, n: 1 + self.t.below(3) as u8, wait: self.t.bool() },
                None => self.misc(ci),
            },
            2 => match pick_true(self.t, &self.cl[ci].disc.clone()) {
                Some(d) => Op::RestartDiscoverer { d, current_only: self.t.chance(64) },
                None => self.misc(ci),
            },
            3 => match pick_true(self.t, &self.cl[ci].disc.clone()) {
                Some(d) => {
                    self.cl[ci].disc[d as usize] = false;
                    Op::DropDiscoverer { d }
                }
                None => self.misc(ci),
            },
            4 => Op::FindObject { e: self.entry() },
            5 => Op::WaitForObject { e: self.entry() },
            6 => {
                let sc = self.t.below(NSCOPE) as u8;
                self.cl[ci].scope[sc as usize] = true;
                self.scopes += 1;
                Op::CreateScope { sc }
            }
            7 => match pick_true(self.t, &self.cl[ci].scope.clone()) {
                Some(sc) => Op::EndScope { sc },
                None => self.misc(ci),
            },
            8 => match pick_true(self.t, &self.cl[ci].scope.clone()) {
                Some(sc) => {
                    self.cl[ci].scope[sc as usize] = false;
                    Op::DropScope { sc }
                }
                None => self.misc(ci),
            },
            9 => {
                if self.scopes == 0 {
                    return self.misc(ci);
                }
                let lt = self.t.below(NLT) as u8;
                self.cl[ci].lt[lt as usize] = true;
                let k = (self.scopes - 1 - self.t.below(self.scopes)) as u8;
                Op::CreateLifetime { lt, k }
            }
            10 => match pick_true(self.t, &self.cl[ci].lt.clone()) {
                Some(lt) => Op::LifetimeEnded { lt },
                None => self.misc(ci),
            },
            _ => match pick_true(self.t, &self.cl[ci].lt.clone()) {
                Some(lt) => {
                    self.cl[ci].lt[lt as usize] = false;
                    Op::DropLifetime { lt }
                }
                None => self.misc(ci),
            },
        }
    }

    fn misc(&mut self, ci: usize) -> Op {
        let _ = self.cl[ci].proto;
        match self.t.weighted(&[30, 25, 20, 10, 10, 3]) {
            0 => Op::SyncBroker,
            1 => Op::SyncClient,
            2 => Op::Yield(1 + self.t.below(4) as u8),
            3 => {
                self.cl[ci].extra += 1;
                Op::CloneHandle
            }
            4 => {
                if self.cl[ci].extra > 0 {
                    self.cl[ci].extra -= 1;
                    Op::DropExtraHandle
                } else {
                    Op::SyncClient
                }
            }
            _ => Op::Shutdown,
        }
    }
}

pub fn render_program(p: &Program) -> String {
    let mut s = String::new();
    s.push_str(&format!(
        "det_seed={} sched_seed={} policy={:?} idle_early={} refused_claims={}\n",
        p.det_seed,
        p.sched_seed,
        simbus::Policy::from_u8(p.policy),
        p.idle_early,
        p.allow_refused_claims
    ));
    for (i, c) in p.clients.iter().enumerate() {
        s.push_str(&format!("client c{}: {:?} {:?} final={:?}\n", i, c.proto, c.tkind, c.final_mode));
    }
    for (i, t) in p.tasks.iter().enumerate() {
        s.push_str(&format!("task t{} on c{}:\n", i, t.client));
        for (j, op) in t.ops.iter().enumerate() {
            s.push_str(&format!("  {:2}: {:?}\n", j, op));
        }
    }
    s
}
