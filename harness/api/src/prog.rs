//! `apiprog`: a small DSL of client-API operations, and its tape decoder.
//!
//! A program is a set of application tasks (1..3 per client), each a list of operations that the
//! interpreter (interp.rs) executes in order against per-client slots holding the API's values.
//! The decoder keeps an abstract picture of which slots are probably filled so that most generated
//! operations find their operands; the interpreter skips (and counts) the rest.

use crate::net::{Proto, TKind};
use vcommon::Tape;

pub const NOBJ: usize = 2;
pub const NSVC: usize = 3;
pub const NPROXY: usize = 3;
pub const NCH: usize = 2;
pub const NLIS: usize = 2;
pub const NDISC: usize = 2;
pub const NSCOPE: usize = 2;
pub const NLT: usize = 2;
pub const OBJ_POOL: usize = 3;
pub const SVC_POOL: usize = 2;
pub const EVENTS: [u32; 3] = [0, 1, 7];
pub const CAPS: [u32; 5] = [1, 2, 4, 5, 16];

#[derive(Debug, Clone, Copy, PartialEq, Eq)]
pub enum End {
    Snd,
    Rcv,
}

#[derive(Debug, Clone, Copy, PartialEq, Eq)]
pub enum CallMode {
    /// call and await the reply
    Await,
    /// call and drop the pending reply at once (documented abort)
    Abort,
    /// call and keep the pending reply for a later AwaitReply/DropReply
    Stash,
}

#[derive(Debug, Clone, Copy, PartialEq, Eq)]
pub enum Scope {
    Current,
    New,
    All,
}

/// One of the six bus listener filter shapes over the UUID pools.
#[derive(Debug, Clone, Copy, PartialEq, Eq)]
pub struct Filter {
    pub shape: u8,
    pub obj: u8,
    pub svc: u8,
}

/// One discoverer entry: a specific object (pool index) or any, with a set of required services
/// (bit mask over the service pool).
#[derive(Debug, Clone, Copy, PartialEq, Eq)]
pub struct Entry {
    pub obj: Option<u8>,
    pub svcs: u8,
}

/// A value an operation needs; `WaitFor` blocks (harness-level wait) until it exists, its
/// producer failed, or the driver cancels all such waits at the end of the program.
#[derive(Debug, Clone, Copy, PartialEq, Eq, PartialOrd, Ord)]
pub enum Res {
    Obj(u8),
    Svc(u8),
    Proxy(u8),
    Snd(u8),
    Rcv(u8),
    /// established sender / receiver in channel slot ch
    SndEst(u8),
    RcvEst(u8),
    Lis(u8),
    Disc(u8),
    Scope(u8),
    Lt(u8),
    /// service published by (client, slot)
    BoardSvc(u8, u8),
    /// k-th unbound sender (0) / receiver (1)
    Unbound(u8, u8),
    /// k-th published lifetime id
    BoardScope(u8),
}

#[derive(Debug, Clone, PartialEq, Eq)]
pub enum Op {
    /// wait for the driver to open the next phase (it does so at quiescence)
    Barrier,
    /// wait until a value produced by another task exists
    WaitFor(Res),
    Yield(u8),
    SyncClient,
    SyncBroker,
    CloneHandle,
    DropExtraHandle,
    Shutdown,
    /// `BrokerHandle::shutdown()` in the middle of the program
    BrokerShutdown,

    CreateObject { o: u8, u: u8 },
    DestroyObject { o: u8 },
    DropObject { o: u8 },
    CreateService { o: u8, s: u8, u: u8, ver: u8 },
    DestroyService { s: u8 },
    DropService { s: u8 },
    /// server loop: serve n calls (0 = until the call stream ends); per call i the action is
    /// script digit i%8: 0..3 ok(g(nonce)), 4 err(h(nonce)), 5 abort, 6 drop promise, 7 hold promise
    Serve { s: u8, n: u8, script: u32 },
    /// answer (ok=true) or drop (ok=false) the oldest held promise
    ReleaseHeld { ok: bool },
    /// wait in `Promise::aborted()` on the oldest held promise, then drop it
    AwaitAborted,
    Emit { s: u8, ev: u8 },

    CreateProxy { p: u8, c: u8, s: u8 },
    DropProxy { p: u8 },
    Call { p: u8, f: u8, mode: CallMode },
    AwaitReply,
    DropReply,
    Subscribe { p: u8, ev: u8 },
    Unsubscribe { p: u8, ev: u8 },
    SubscribeAll { p: u8 },
    UnsubscribeAll { p: u8 },
    NextEvent { p: u8, n: u8, wait: bool },

    CreateChannel { ch: u8, claim: End, cap: u8 },
    Unbind { ch: u8, end: End },
    Bind { ch: u8, end: End, k: u8 },
    Claim { ch: u8, end: End, cap: u8 },
    /// start the claim, poll it `polls`+1 times (yielding in between), then drop the future
    ClaimCancel { ch: u8, end: End, cap: u8, polls: u8 },
    Establish { ch: u8, end: End },
    Send { ch: u8, n: u8 },
    /// like `Send`, but the producer polls `Sender::poll_receiver_closed` once before every
    /// `send_ready` (the shape of a `select!` loop that also watches for the receiver going away)
    SendWatch { ch: u8, n: u8 },
    Recv { ch: u8, n: u8, wait: bool },
    CloseEnd { ch: u8, end: End },
    DropEnd { ch: u8, end: End },

    CreateListener { l: u8 },
    AddFilter { l: u8, f: Filter },
    RemoveFilter { l: u8, f: Filter },
    ClearFilters { l: u8 },
    StartListener { l: u8, scope: Scope },
    StopListener { l: u8 },
    ListenerNext { l: u8, n: u8, wait: bool },
    DestroyListener { l: u8 },
    DropListener { l: u8 },

    CreateDiscoverer { d: u8, entries: Vec<Entry>, current_only: bool },
    DiscNext { d: u8, n: u8, wait: bool },
    RestartDiscoverer { d: u8, current_only: bool },
    DropDiscoverer { d: u8 },
    FindObject { e: Entry },
    WaitForObject { e: Entry },

    CreateScope { sc: u8 },
    EndScope { sc: u8 },
    DropScope { sc: u8 },
    CreateLifetime { lt: u8, k: u8 },
    LifetimeEnded { lt: u8 },
    DropLifetime { lt: u8 },
}

#[derive(Debug, Clone, Copy, PartialEq, Eq)]
pub enum FinalMode {
    /// `Handle::shutdown()`
    Shutdown,
    /// drop every value and handle the application holds (client stops on its last handle)
    DropAll,
    /// `BrokerHandle::shutdown_connection` for this client's connection
    BrokerKick,
}

#[derive(Debug, Clone)]
pub struct ClientSpec {
    pub proto: Proto,
    pub tkind: TKind,
    pub tasks: usize,
    pub final_mode: FinalMode,
}

#[derive(Debug, Clone)]
pub struct TaskProg {
    pub client: usize,
    pub ops: Vec<Op>,
}

#[derive(Debug, Clone)]
pub struct Program {
    pub det_seed: u64,
    pub sched_seed: u64,
    pub policy: u8,
    pub clients: Vec<ClientSpec>,
    pub tasks: Vec<TaskProg>,
    /// ask the broker to shut down when idle before the program starts (else at the very end)
    pub idle_early: bool,
    /// refused channel claims (second claimant, claim of a dead channel) may be generated
    pub allow_refused_claims: bool,
    /// pending replies may be dropped while their client is shutting down
    pub allow_late_abort: bool,
    /// a bus listener may be polled after `destroy()`
    pub allow_listener_after_destroy: bool,
    pub allow_broker_shutdown_in_flight: bool,
    pub allow_claim_cancel: bool,
    pub allow_client_vs_broker_shutdown: bool,
}

impl Program {
    pub fn allow(&self) -> Allow {
        Allow {
            refused_claims: self.allow_refused_claims,
            late_abort: self.allow_late_abort,
            listener_after_destroy: self.allow_listener_after_destroy,
            broker_shutdown_in_flight: self.allow_broker_shutdown_in_flight,
            claim_cancel: self.allow_claim_cancel,
            client_vs_broker_shutdown: self.allow_client_vs_broker_shutdown,
        }
    }
}

// ---------------------------------------------------------------------------------------------
// decoder
//
// The op stream is built from *fragments*: short idioms (service with its server loop, a batch of
// calls through a proxy, subscribe/emit/consume, a channel hand-over with producer and consumer,
// listener/discoverer/lifetime life cycles, tear-downs) whose operations are spread over the tasks
// of the clients involved. Operations whose operand does not exist yet wait for it (harness-level
// wait, see interp.rs), so a fragment's data flow orders its operations while everything else
// races under the schedule.

#[derive(Clone, Copy, PartialEq, Eq, Debug)]
enum GEnd {
    None,
    Unclaimed,
    Pending,
    Est,
}

#[derive(Clone)]
struct GClient {
    tasks: Vec<usize>,
    obj: [bool; NOBJ],
    svc: [bool; NSVC],
    proxy: [Option<(u8, u8)>; NPROXY],
    stash: usize,
    held: usize,
    snd: [GEnd; NCH],
    rcv: [GEnd; NCH],
    lis: [u8; NLIS], // 0 none, 1 created, 2 started
    disc: [bool; NDISC],
    scope: [bool; NSCOPE],
    lt: [bool; NLT],
    extra: usize,
}

struct Gen<'a, 'b> {
    t: &'a mut Tape<'b>,
    cl: Vec<GClient>,
    tasks: Vec<TaskProg>,
    parked: Vec<bool>,
    /// published services (client, slot)
    pub_svcs: Vec<(u8, u8)>,
    unbound: [usize; 2],
    scopes: usize,
    total: usize,
    /// which task produces a resource (client index, or usize::MAX for the shared board)
    producer: std::collections::BTreeMap<(usize, Res), usize>,
    allow: Allow,
    aim: Aim,
}

pub fn decode_header(t: &mut Tape) -> (u64, u64, u8, Vec<ClientSpec>, bool) {
    let det_seed = t.u32() as u64;
    let sched_seed = t.u32() as u64;
    let policy = t.u8();
    let n_clients = 1 + t.weighted(&[30, 100, 80, 46]);
    let mut clients = vec![];
    for _ in 0..n_clients {
        let proto = match t.weighted(&[6, 2, 2]) {
            0 => Proto::V20,
            1 => Proto::V14,
            _ => Proto::Capped(15 + t.below(5) as u8),
        };
        let tkind = if t.weighted(&[2, 3]) == 0 {
            TKind::Unbounded
        } else {
            TKind::Bounded(match t.below(4) {
                0 => 1,
                1 => 2,
                2 => t.range(3, 5),
                _ => t.range(6, 16),
            })
        };
        let tasks = 1 + t.weighted(&[2, 4, 3]);
        let final_mode = match t.weighted(&[3, 2, 1]) {
            0 => FinalMode::Shutdown,
            1 => FinalMode::DropAll,
            _ => FinalMode::BrokerKick,
        };
        clients.push(ClientSpec { proto, tkind, tasks, final_mode });
    }
    let idle_early = t.bool();
    (det_seed, sched_seed, policy, clients, idle_early)
}

/// Shapes that used to trigger defects F2/F5/F6/F7 (repaired since). Everything is allowed in
/// every class unless an opt-in `VAPI_EXCLUDE_Fn=1` switch takes a shape out again.
#[derive(Debug, Clone, Copy, PartialEq, Eq)]
pub struct Allow {
    pub refused_claims: bool,
    pub late_abort: bool,
    pub listener_after_destroy: bool,
    /// broker shutdown with client requests in flight, connection shutdown while the broker may
    /// stop on idle
    pub broker_shutdown_in_flight: bool,
    /// a claim future dropped before its reply arrives (open finding F8)
    pub claim_cancel: bool,
    /// a client-initiated shutdown racing with the broker's shutdown (open finding F9)
    pub client_vs_broker_shutdown: bool,
}

fn env_on(name: &str) -> bool {
    std::env::var(name).map(|v| v == "1").unwrap_or(false)
}

impl Allow {
    pub fn from_env() -> Self {
        Allow {
            refused_claims: !env_on("VAPI_EXCLUDE_F2"),
            late_abort: !env_on("VAPI_EXCLUDE_F5"),
            listener_after_destroy: !env_on("VAPI_EXCLUDE_F6"),
            broker_shutdown_in_flight: !env_on("VAPI_EXCLUDE_F7"),
            claim_cancel: !env_on("VAPI_EXCLUDE_F8"),
            client_vs_broker_shutdown: !env_on("VAPI_EXCLUDE_F9"),
        }
    }

    pub fn none() -> Self {
        Allow { refused_claims: false, late_abort: false, listener_after_destroy: false, broker_shutdown_in_flight: false, claim_cancel: false, client_vs_broker_shutdown: false }
    }
}

impl Default for Allow {
    fn default() -> Self {
        Allow::from_env()
    }
}

/// What a case class aims at (how often the dedicated fragments are chosen).
#[derive(Debug, Clone, Copy, PartialEq, Eq)]
pub enum Aim {
    /// a bit of everything
    Mixed,
    Claims,
    LateAbort,
    ListenerAfterDestroy,
    /// channel programs with capacities 1..4 on bounded transports <= 2
    SmallCredit,
    /// channel-heavy programs, every capacity and transport (C05's client-level half)
    Channels,
}

pub fn decode_program(tape: &[u8], allow: Allow, aim: Aim, max_ops: usize) -> Program {
    let mut t = Tape::new(tape);
    let (det_seed, sched_seed, policy, mut clients, idle_early) = decode_header(&mut t);
    if aim == Aim::SmallCredit {
        for c in clients.iter_mut() {
            let n = match c.tkind {
                TKind::Bounded(n) => 1 + (n % 2),
                TKind::Unbounded => 2,
            };
            c.tkind = TKind::Bounded(n);
        }
    }
    let mut tasks: Vec<TaskProg> = vec![];
    let mut cl = vec![];
    for (ci, c) in clients.iter().enumerate() {
        let mut mine = vec![];
        for _ in 0..c.tasks {
            mine.push(tasks.len());
            tasks.push(TaskProg { client: ci, ops: vec![] });
        }
        cl.push(GClient {
            tasks: mine,
            obj: [false; NOBJ],
            svc: [false; NSVC],
            proxy: [None; NPROXY],
            stash: 0,
            held: 0,
            snd: [GEnd::None; NCH],
            rcv: [GEnd::None; NCH],
            lis: [0; NLIS],
            disc: [false; NDISC],
            scope: [false; NSCOPE],
            lt: [false; NLT],
            extra: 0,
        });
    }
    let n = tasks.len();
    let mut g = Gen { t: &mut t, cl, tasks, parked: vec![false; n], pub_svcs: vec![], unbound: [0, 0], scopes: 0, total: 0, producer: Default::default(), allow, aim };
    while g.total < max_ops {
        let b = g.t.u8();
        if b == 0 {
            break;
        }
        g.fragment(b);
    }
    Program {
        det_seed,
        sched_seed,
        policy,
        clients,
        tasks: g.tasks,
        idle_early,
        allow_refused_claims: allow.refused_claims,
        allow_late_abort: allow.late_abort,
        allow_listener_after_destroy: allow.listener_after_destroy,
        allow_broker_shutdown_in_flight: allow.broker_shutdown_in_flight,
        allow_claim_cancel: allow.claim_cancel,
        allow_client_vs_broker_shutdown: allow.client_vs_broker_shutdown,
    }
}

fn pick_true(t: &mut Tape, flags: &[bool]) -> Option<u8> {
    let idx: Vec<u8> = flags.iter().enumerate().filter(|(_, f)| **f).map(|(i, _)| i as u8).collect();
    if idx.is_empty() {
        None
    } else {
        Some(idx[t.below(idx.len())])
    }
}

pub const BOARD: usize = usize::MAX;

fn end_res(end: End, ch: u8) -> Res {
    match end {
        End::Snd => Res::Snd(ch),
        End::Rcv => Res::Rcv(ch),
    }
}

/// Resources an operation needs: (client scope or BOARD, resource).
pub fn needs(ci: usize, op: &Op) -> Vec<(usize, Res)> {
    match op {
        Op::DestroyObject { o } | Op::DropObject { o } => vec![(ci, Res::Obj(*o))],
        Op::CreateService { o, .. } => vec![(ci, Res::Obj(*o))],
        Op::DestroyService { s } | Op::DropService { s } | Op::Serve { s, .. } | Op::Emit { s, .. } => vec![(ci, Res::Svc(*s))],
        Op::CreateProxy { c, s, .. } => vec![(BOARD, Res::BoardSvc(*c, *s))],
        Op::DropProxy { p }
        | Op::Call { p, .. }
        | Op::Subscribe { p, .. }
        | Op::Unsubscribe { p, .. }
        | Op::SubscribeAll { p }
        | Op::UnsubscribeAll { p }
        | Op::NextEvent { p, .. } => vec![(ci, Res::Proxy(*p))],
        Op::Unbind { ch, end } | Op::Claim { ch, end, .. } | Op::ClaimCancel { ch, end, .. } | Op::Establish { ch, end } | Op::CloseEnd { ch, end } | Op::DropEnd { ch, end } => {
            vec![(ci, end_res(*end, *ch))]
        }
        Op::Bind { end, k, .. } => vec![(BOARD, Res::Unbound(*end as u8, *k))],
        Op::Send { ch, .. } | Op::SendWatch { ch, .. } => vec![(ci, Res::SndEst(*ch))],
        Op::Recv { ch, .. } => vec![(ci, Res::RcvEst(*ch))],
        Op::AddFilter { l, .. }
        | Op::RemoveFilter { l, .. }
        | Op::ClearFilters { l }
        | Op::StartListener { l, .. }
        | Op::StopListener { l }
        | Op::ListenerNext { l, .. }
        | Op::DestroyListener { l }
        | Op::DropListener { l } => vec![(ci, Res::Lis(*l))],
        Op::DiscNext { d, .. } | Op::RestartDiscoverer { d, .. } | Op::DropDiscoverer { d } => vec![(ci, Res::Disc(*d))],
        Op::EndScope { sc } | Op::DropScope { sc } => vec![(ci, Res::Scope(*sc))],
        Op::CreateLifetime { k, .. } => vec![(BOARD, Res::BoardScope(*k))],
        Op::LifetimeEnded { lt } | Op::DropLifetime { lt } => vec![(ci, Res::Lt(*lt))],
        _ => vec![],
    }
}

fn est_res(end: End, ch: u8) -> Res {
    match end {
        End::Snd => Res::SndEst(ch),
        End::Rcv => Res::RcvEst(ch),
    }
}

pub fn produces(ci: usize, op: &Op, unbound: &[usize; 2], scopes: usize) -> Vec<(usize, Res)> {
    match op {
        Op::CreateObject { o, .. } => vec![(ci, Res::Obj(*o))],
        Op::CreateService { s, .. } => vec![(ci, Res::Svc(*s)), (BOARD, Res::BoardSvc(ci as u8, *s))],
        Op::CreateProxy { p, .. } => vec![(ci, Res::Proxy(*p))],
        Op::CreateChannel { ch, .. } => vec![(ci, Res::Snd(*ch)), (ci, Res::Rcv(*ch))],
        Op::Unbind { end, .. } => vec![(BOARD, Res::Unbound(*end as u8, unbound[*end as usize] as u8))],
        Op::Bind { ch, end, .. } => vec![(ci, end_res(*end, *ch))],
        Op::Claim { ch, end, .. } | Op::Establish { ch, end } => vec![(ci, est_res(*end, *ch))],
        Op::CreateListener { l } => vec![(ci, Res::Lis(*l))],
        Op::CreateDiscoverer { d, .. } => vec![(ci, Res::Disc(*d))],
        Op::CreateScope { sc } => vec![(ci, Res::Scope(*sc)), (BOARD, Res::BoardScope(scopes as u8))],
        Op::CreateLifetime { lt, .. } => vec![(ci, Res::Lt(*lt))],
        _ => vec![],
    }
}

fn other(e: End) -> End {
    match e {
        End::Snd => End::Rcv,
        End::Rcv => End::Snd,
    }
}

impl Gen<'_, '_> {
    fn push(&mut self, task: usize, op: Op) {
        let ci = self.tasks[task].client;
        for (scope, res) in needs(ci, &op) {
            if let Some(tp) = self.producer.get(&(scope, res)) {
                if *tp != task && self.tasks[task].ops.last() != Some(&Op::WaitFor(res)) {
                    self.tasks[task].ops.push(Op::WaitFor(res));
                }
            }
        }
        for (scope, res) in produces(ci, &op, &self.unbound, self.scopes) {
            self.producer.insert((scope, res), task);
        }
        if matches!(op, Op::Serve { n: 0, .. } | Op::WaitForObject { .. } | Op::LifetimeEnded { .. } | Op::AwaitAborted) {
            self.parked[task] = true;
        }
        self.tasks[task].ops.push(op);
        self.total += 1;
    }

    fn client(&mut self) -> usize {
        self.t.below(self.cl.len())
    }

    /// Another client if there is one.
    fn client_other_than(&mut self, a: usize) -> usize {
        if self.cl.len() == 1 {
            return a;
        }
        let k = self.t.below(self.cl.len() - 1);
        if k >= a {
            k + 1
        } else {
            k
        }
    }

    /// A task of client `ci`, preferably one that is not parked in an endless wait.
    fn task(&mut self, ci: usize) -> usize {
        let ts = self.cl[ci].tasks.clone();
        let mut k = self.t.below(ts.len());
        for _ in 0..ts.len() {
            if !self.parked[ts[k]] {
                break;
            }
            k = (k + 1) % ts.len();
        }
        ts[k]
    }

    /// A task of `ci` different from `not` if possible.
    fn task_other(&mut self, ci: usize, not: usize) -> usize {
        let ts: Vec<usize> = self.cl[ci].tasks.iter().copied().filter(|t| *t != not && !self.parked[*t]).collect();
        if ts.is_empty() {
            not
        } else {
            ts[self.t.below(ts.len())]
        }
    }

    fn end(&mut self) -> End {
        if self.t.bool() {
            End::Rcv
        } else {
            End::Snd
        }
    }

    fn filter(&mut self) -> Filter {
        Filter { shape: self.t.below(6) as u8, obj: self.t.below(OBJ_POOL) as u8, svc: self.t.below(SVC_POOL) as u8 }
    }

    fn entry(&mut self) -> Entry {
        let obj = if self.t.bool() { Some(self.t.below(OBJ_POOL) as u8) } else { None };
        let svcs = self.t.below(1 << SVC_POOL) as u8;
        Entry { obj, svcs }
    }

    fn scope(&mut self) -> Scope {
        match self.t.below(3) {
            0 => Scope::All,
            1 => Scope::Current,
            _ => Scope::New,
        }
    }

    fn fragment(&mut self, b: u8) {
        // dedicated fragments for the shapes around the repaired defects F2/F5/F6/F7: often in
        // the class that aims at them, now and then everywhere
        let (la, lad, rc, cc, sc) = match self.aim {
            Aim::Mixed => (b % 32 == 0, b % 32 == 1, b % 32 == 2 || b % 32 == 3, b % 32 == 4, false),
            Aim::LateAbort => (b % 4 == 0, false, false, false, false),
            Aim::ListenerAfterDestroy => (false, b % 4 == 0, false, false, false),
            Aim::Claims => (false, false, b % 6 == 0, b % 6 == 1, false),
            Aim::SmallCredit => (false, false, false, b % 32 == 4, b % 2 == 0),
            Aim::Channels => (false, false, b % 16 == 1, b % 16 == 3, b % 4 != 1 && b % 4 != 3),
        };
        if la && self.allow.late_abort {
            return self.frag_late_abort();
        }
        if lad && self.allow.listener_after_destroy {
            return self.frag_listener_after_destroy();
        }
        if rc && self.allow.refused_claims {
            return self.frag_refused_claim();
        }
        if cc && self.allow.refused_claims && self.allow.claim_cancel {
            return self.frag_claim_cancel();
        }
        if sc {
            return self.frag_channel();
        }
        if self.aim == Aim::Mixed && b % 32 == 5 {
            return self.frag_abort_watch();
        }
        if self.aim == Aim::Mixed && b % 64 == 6 && self.allow.broker_shutdown_in_flight {
            let a = self.client();
            let ta = self.task(a);
            return self.push(ta, Op::BrokerShutdown);
        }
        // the first byte doubles as fragment selector (1..=255)
        let x = ((b as usize - 1) * 110) / 255;
        let bounds = [18, 42, 52, 64, 82, 90, 96, 100, 105, 108, 111];
        let k = bounds.iter().position(|hi| x < *hi).unwrap_or(10);
        match k {
            0 => self.frag_service(),
            1 => self.frag_calls(),
            2 => self.frag_events(),
            3 => self.frag_teardown(),
            4 => self.frag_channel(),
            5 => self.frag_listener(),
            6 => self.frag_discovery(),
            7 => self.frag_lifetime(),
            8 => self.frag_misc(),
            9 => {
                for i in 0..self.tasks.len() {
                    self.tasks[i].ops.push(Op::Barrier);
                }
                self.total += 1;
            }
            _ => self.frag_noise(),
        }
    }

    // ---- services ---------------------------------------------------------------------------

    fn frag_service(&mut self) {
        let a = self.client();
        let ta = self.task(a);
        let have = pick_true(self.t, &self.cl[a].obj.clone());
        let o = match have {
            Some(o) if self.t.weighted(&[2, 1]) == 0 => o,
            _ => {
                let o = self.t.below(NOBJ) as u8;
                let u = self.t.below(OBJ_POOL) as u8;
                self.cl[a].obj[o as usize] = true;
                self.push(ta, Op::CreateObject { o, u });
                o
            }
        };
        let s = self.t.below(NSVC) as u8;
        let u = self.t.below(SVC_POOL) as u8;
        let ver = self.t.below(3) as u8;
        self.cl[a].svc[s as usize] = true;
        if !self.pub_svcs.contains(&(a as u8, s)) {
            self.pub_svcs.push((a as u8, s));
        }
        self.push(ta, Op::CreateService { o, s, u, ver });
        match self.t.weighted(&[7, 2, 1]) {
            0 => {
                let tb = self.task_other(a, ta);
                let n = if tb != ta && self.t.weighted(&[3, 1]) == 0 { 0 } else { 1 + self.t.below(3) as u8 };
                let script = self.script();
                self.push(tb, Op::Serve { s, n, script });
            }
            1 => {
                let n = 1 + self.t.below(2) as u8;
                let script = self.script();
                self.push(ta, Op::Serve { s, n, script });
            }
            _ => {}
        }
    }

    fn script(&mut self) -> u32 {
        if self.t.weighted(&[3, 2]) == 0 {
            0
        } else {
            self.t.u32() & 0x00ff_ffff
        }
    }

    fn call_mode(&mut self, b: usize) -> CallMode {
        match self.t.weighted(&[6, 2, 2]) {
            0 => CallMode::Await,
            1 => CallMode::Abort,
            _ => {
                self.cl[b].stash += 1;
                CallMode::Stash
            }
        }
    }

    /// A proxy slot of client b that targets a published service; creates the proxy if needed.
    fn proxy_for(&mut self, b: usize, tb: usize) -> Option<(u8, (u8, u8))> {
        if self.pub_svcs.is_empty() {
            return None;
        }
        let target = self.pub_svcs[self.pub_svcs.len() - 1 - self.t.below(self.pub_svcs.len())];
        let existing = self.cl[b].proxy.iter().position(|p| *p == Some(target));
        match existing {
            Some(p) if self.t.weighted(&[3, 1]) == 0 => Some((p as u8, target)),
            _ => {
                let p = self.t.below(NPROXY) as u8;
                self.cl[b].proxy[p as usize] = Some(target);
                self.push(tb, Op::CreateProxy { p, c: target.0, s: target.1 });
                Some((p, target))
            }
        }
    }

    fn frag_calls(&mut self) {
        if self.pub_svcs.is_empty() {
            return self.frag_service();
        }
        let b = self.client();
        let tb = self.task(b);
        let Some((p, _)) = self.proxy_for(b, tb) else { return };
        let k = 1 + self.t.below(4);
        for _ in 0..k {
            let f = self.t.below(4) as u8;
            let mode = self.call_mode(b);
            self.push(tb, Op::Call { p, f, mode });
        }
        while self.cl[b].stash > 0 && self.t.weighted(&[1, 2]) == 1 {
            self.cl[b].stash -= 1;
            let op = if self.t.weighted(&[2, 1]) == 0 { Op::AwaitReply } else { Op::DropReply };
            let t2 = if self.t.bool() { self.task(b) } else { tb };
            self.push(t2, op);
        }
        if self.t.chance(50) {
            let t2 = if self.t.bool() { self.task(b) } else { tb };
            self.cl[b].proxy[p as usize] = None;
            self.push(t2, Op::DropProxy { p });
        }
    }

    /// A callee holds the promise of an unanswered call and waits in `Promise::aborted()`; the
    /// caller aborts the call (by dropping the pending reply, now or later), answers never come.
    fn frag_abort_watch(&mut self) {
        if self.pub_svcs.is_empty() {
            return self.frag_service();
        }
        let (a, s) = self.pub_svcs[self.pub_svcs.len() - 1 - self.t.below(self.pub_svcs.len())];
        let a = a as usize;
        if !self.cl[a].svc[s as usize] {
            return self.frag_calls();
        }
        // the callee side: serve one call, hold its promise (script digit 7), wait for the abort
        let ta = self.task(a);
        if self.parked[ta] {
            return self.frag_calls();
        }
        self.push(ta, Op::Serve { s, n: 1, script: 7 });
        self.push(ta, Op::AwaitAborted);
        // the caller side
        let b = self.client_other_than(a);
        let tb = self.task(b);
        let p = match self.cl[b].proxy.iter().position(|p| *p == Some((a as u8, s))) {
            Some(p) => p as u8,
            None => {
                let p = self.t.below(NPROXY) as u8;
                self.cl[b].proxy[p as usize] = Some((a as u8, s));
                self.push(tb, Op::CreateProxy { p, c: a as u8, s });
                p
            }
        };
        let f = self.t.below(4) as u8;
        match self.t.weighted(&[3, 2, 1]) {
            0 => self.push(tb, Op::Call { p, f, mode: CallMode::Abort }),
            1 => {
                self.push(tb, Op::Call { p, f, mode: CallMode::Stash });
                if self.t.bool() {
                    self.push(tb, Op::SyncBroker);
                }
                self.push(tb, Op::DropReply);
            }
            _ => {
                // never aborted: the wait ends when the callee's client stops
                self.cl[b].stash += 1;
                self.push(tb, Op::Call { p, f, mode: CallMode::Stash });
            }
        }
    }

    fn frag_events(&mut self) {
        if self.pub_svcs.is_empty() {
            return self.frag_service();
        }
        let b = self.client();
        let tb = self.task(b);
        let Some((p, (a, s))) = self.proxy_for(b, tb) else { return };
        let ev = self.t.below(EVENTS.len()) as u8;
        match self.t.weighted(&[5, 2]) {
            0 => self.push(tb, Op::Subscribe { p, ev }),
            _ => self.push(tb, Op::SubscribeAll { p }),
        }
        if self.t.weighted(&[1, 1]) == 1 {
            self.push(tb, Op::SyncBroker);
        }
        let ta = self.task(a as usize);
        let k = 1 + self.t.below(4);
        for _ in 0..k {
            let e = if self.t.weighted(&[3, 1]) == 0 { ev } else { self.t.below(EVENTS.len()) as u8 };
            self.push(ta, Op::Emit { s, ev: e });
        }
        let wait = self.t.weighted(&[2, 1]) == 1;
        let n = 1 + self.t.below(k) as u8;
        let t2 = if self.t.bool() { self.task(b) } else { tb };
        self.push(t2, Op::NextEvent { p, n, wait });
        match self.t.weighted(&[4, 1, 1, 1]) {
            0 => {}
            1 => self.push(tb, Op::Unsubscribe { p, ev }),
            2 => self.push(tb, Op::UnsubscribeAll { p }),
            _ => {
                self.cl[b].proxy[p as usize] = None;
                self.push(tb, Op::DropProxy { p });
            }
        }
    }

    fn frag_teardown(&mut self) {
        let a = self.client();
        let ta = self.task(a);
        let objs = self.cl[a].obj;
        let svcs = self.cl[a].svc;
        let proxies: Vec<bool> = self.cl[a].proxy.iter().map(|p| p.is_some()).collect();
        match self.t.weighted(&[25, 12, 25, 12, 14, 6, 6]) {
            0 => {
                if let Some(s) = pick_true(self.t, &svcs) {
                    self.cl[a].svc[s as usize] = false;
                    self.push(ta, Op::DropService { s });
                }
            }
            1 => {
                if let Some(s) = pick_true(self.t, &svcs) {
                    self.push(ta, Op::DestroyService { s });
                }
            }
            2 => {
                if let Some(o) = pick_true(self.t, &objs) {
                    self.cl[a].obj[o as usize] = false;
                    self.push(ta, Op::DropObject { o });
                }
            }
            3 => {
                if let Some(o) = pick_true(self.t, &objs) {
                    self.push(ta, Op::DestroyObject { o });
                }
            }
            4 => {
                if let Some(p) = pick_true(self.t, &proxies) {
                    self.cl[a].proxy[p as usize] = None;
                    self.push(ta, Op::DropProxy { p });
                }
            }
            5 => {
                if self.t.weighted(&[2, 1]) == 1 {
                    // blocks until the caller aborts or the client stops: on a task of its own
                    // when there is one
                    let tb = self.task_other(a, ta);
                    self.push(tb, Op::AwaitAborted);
                } else {
                    let ok = self.t.bool();
                    self.push(ta, Op::ReleaseHeld { ok });
                }
            }
            _ => {
                if self.cl[a].stash > 0 {
                    self.cl[a].stash -= 1;
                    self.push(ta, Op::DropReply);
                }
            }
        }
    }

    /// F5 trigger: a pending reply dropped while its client shuts down.
    fn frag_late_abort(&mut self) {
        if self.pub_svcs.is_empty() {
            return self.frag_service();
        }
        let b = self.client();
        let tb = self.task(b);
        let Some((p, _)) = self.proxy_for(b, tb) else { return };
        let f = self.t.below(4) as u8;
        self.push(tb, Op::Call { p, f, mode: CallMode::Stash });
        if self.t.bool() {
            self.push(tb, Op::SyncClient);
        }
        if self.t.weighted(&[2, 1]) == 0 {
            self.push(tb, Op::Shutdown);
            // give the client a chance to start shutting down before the reply is dropped
            match self.t.weighted(&[1, 1, 1]) {
                0 => {}
                1 => self.push(tb, Op::SyncClient),
                _ => self.push(tb, Op::Yield(2)),
            }
        }
        self.push(tb, Op::DropReply);
    }

    /// F6 trigger: a bus listener polled after destroy().
    fn frag_listener_after_destroy(&mut self) {
        let a = self.client();
        let ta = self.task(a);
        let l = self.t.below(NLIS) as u8;
        self.push(ta, Op::CreateListener { l });
        self.cl[a].lis[l as usize] = 1;
        let f = self.filter();
        self.push(ta, Op::AddFilter { l, f });
        let scope = self.scope();
        self.push(ta, Op::StartListener { l, scope });
        if self.t.bool() {
            let n = 1 + self.t.below(2) as u8;
            self.push(ta, Op::ListenerNext { l, n, wait: false });
        }
        if self.t.bool() {
            self.push(ta, Op::StopListener { l });
        }
        self.push(ta, Op::DestroyListener { l });
        self.push(ta, Op::ListenerNext { l, n: 2, wait: false });
    }

    /// A claim whose future is dropped before the reply arrives, racing with whatever makes the
    /// broker refuse it (a competing claimant, the creator closing its end) or not.
    fn frag_claim_cancel(&mut self) {
        let a = self.client();
        let ta = self.task(a);
        let ch = self.t.below(NCH) as u8;
        let claim = self.end();
        let oth = other(claim);
        let cap = self.t.below(CAPS.len()) as u8;
        self.push(ta, Op::CreateChannel { ch, claim, cap });
        self.set_end(a, ch, claim, GEnd::Pending);
        let polls = self.t.below(4) as u8;
        match self.t.weighted(&[2, 3, 2]) {
            0 => {
                // the creator cancels the claim of its own other end
                self.push(ta, Op::ClaimCancel { ch, end: oth, cap, polls });
                self.set_end(a, ch, oth, GEnd::None);
            }
            1 => {
                // another client cancels its claim, a third one may claim for real
                self.push(ta, Op::Unbind { ch, end: oth });
                self.set_end(a, ch, oth, GEnd::None);
                let k = self.unbound[oth as usize] as u8;
                self.unbound[oth as usize] += 1;
                let b = self.client();
                let tb = self.task(b);
                let chb = self.t.below(NCH) as u8;
                self.push(tb, Op::Bind { ch: chb, end: oth, k });
                self.push(tb, Op::ClaimCancel { ch: chb, end: oth, cap, polls });
                if self.t.bool() {
                    let c = self.client();
                    let tc = self.task(c);
                    let chc = self.t.below(NCH) as u8;
                    self.push(tc, Op::Bind { ch: chc, end: oth, k });
                    self.push(tc, Op::Claim { ch: chc, end: oth, cap });
                }
            }
            _ => {
                // the creator kills its end while the other one is being claimed and cancelled
                let ta2 = self.task_other(a, ta);
                if self.t.bool() {
                    self.push(ta2, Op::DropEnd { ch, end: claim });
                } else {
                    self.push(ta2, Op::CloseEnd { ch, end: claim });
                }
                self.push(ta, Op::ClaimCancel { ch, end: oth, cap, polls });
                self.set_end(a, ch, oth, GEnd::None);
            }
        }
    }

    /// F2 trigger: a claim the broker refuses (second claimant, or the channel is gone).
    fn frag_refused_claim(&mut self) {
        let a = self.client();
        let ta = self.task(a);
        let ch = self.t.below(NCH) as u8;
        let claim = self.end();
        let oth = other(claim);
        let cap = self.t.below(CAPS.len()) as u8;
        self.push(ta, Op::CreateChannel { ch, claim, cap });
        self.set_end(a, ch, claim, GEnd::Pending);
        match self.t.weighted(&[3, 3, 2, 2, 2]) {
            0 => {
                // the creator closes its end, then claims the other one
                if self.t.bool() {
                    self.push(ta, Op::CloseEnd { ch, end: claim });
                } else {
                    self.push(ta, Op::DropEnd { ch, end: claim });
                }
                self.push(ta, Op::Claim { ch, end: oth, cap });
                self.set_end(a, ch, oth, GEnd::None);
            }
            1 => {
                // two claimants for the unbound end
                self.push(ta, Op::Unbind { ch, end: oth });
                self.set_end(a, ch, oth, GEnd::None);
                let k = self.unbound[oth as usize] as u8;
                self.unbound[oth as usize] += 1;
                for _ in 0..2 {
                    let c = self.client();
                    let tc = self.task(c);
                    let chc = self.t.below(NCH) as u8;
                    self.push(tc, Op::Bind { ch: chc, end: oth, k });
                    self.push(tc, Op::Claim { ch: chc, end: oth, cap });
                }
            }
            2 => {
                // one client binds the same end twice and claims both
                self.push(ta, Op::Unbind { ch, end: oth });
                self.set_end(a, ch, oth, GEnd::None);
                let k = self.unbound[oth as usize] as u8;
                self.unbound[oth as usize] += 1;
                let c = self.client();
                let tc = self.task(c);
                self.push(tc, Op::Bind { ch: 0, end: oth, k });
                self.push(tc, Op::Bind { ch: 1, end: oth, k });
                self.push(tc, Op::Claim { ch: 0, end: oth, cap });
                let tc2 = if self.t.bool() { self.task(c) } else { tc };
                self.push(tc2, Op::Claim { ch: 1, end: oth, cap });
                // and uses the one that went through
                let tc3 = self.task(c);
                if oth == End::Snd {
                    self.push(tc3, Op::Send { ch: 0, n: 3 });
                } else {
                    self.push(tc3, Op::Recv { ch: 0, n: 2, wait: false });
                }
            }
            3 => {
                // the creator end is killed while the claim of the other end is in flight
                self.push(ta, Op::Unbind { ch, end: oth });
                self.set_end(a, ch, oth, GEnd::None);
                let k = self.unbound[oth as usize] as u8;
                self.unbound[oth as usize] += 1;
                let c = self.client_other_than(a);
                let tc = self.task(c);
                let chc = self.t.below(NCH) as u8;
                self.push(tc, Op::Bind { ch: chc, end: oth, k });
                let ta2 = if self.t.bool() { self.task(a) } else { ta };
                if self.t.bool() {
                    self.push(ta2, Op::DropEnd { ch, end: claim });
                } else {
                    self.push(ta2, Op::CloseEnd { ch, end: claim });
                }
                self.push(tc, Op::Claim { ch: chc, end: oth, cap });
            }
            _ => {
                // a claim of an end that was closed unclaimed elsewhere
                self.push(ta, Op::Unbind { ch, end: oth });
                self.set_end(a, ch, oth, GEnd::None);
                let k = self.unbound[oth as usize] as u8;
                self.unbound[oth as usize] += 1;
                let c = self.client();
                let tc = self.task(c);
                let chc = self.t.below(NCH) as u8;
                self.push(tc, Op::Bind { ch: chc, end: oth, k });
                if self.t.bool() {
                    self.push(tc, Op::CloseEnd { ch: chc, end: oth });
                } else {
                    self.push(tc, Op::DropEnd { ch: chc, end: oth });
                }
                let d = self.client();
                let td = self.task(d);
                let chd = self.t.below(NCH) as u8;
                self.push(td, Op::Bind { ch: chd, end: oth, k });
                self.push(td, Op::Claim { ch: chd, end: oth, cap });
            }
        }
    }

    // ---- channels ---------------------------------------------------------------------------

    fn set_end(&mut self, ci: usize, ch: u8, end: End, st: GEnd) {
        match end {
            End::Snd => self.cl[ci].snd[ch as usize] = st,
            End::Rcv => self.cl[ci].rcv[ch as usize] = st,
        }
    }

    fn frag_channel(&mut self) {
        let a = self.client();
        let ta = self.task(a);
        let ch = self.t.below(NCH) as u8;
        let claim = self.end();
        // capacities 1, 2, 4 only when the class aims at the credit top-up paths
        let ncaps = if self.aim == Aim::SmallCredit { 3 } else { CAPS.len() };
        let cap = self.t.below(ncaps) as u8;
        let oth = other(claim);
        self.push(ta, Op::CreateChannel { ch, claim, cap });
        self.set_end(a, ch, claim, GEnd::Pending);
        self.set_end(a, ch, oth, GEnd::Unclaimed);
        // where does the other end go?
        let (b, chb, tb);
        if self.t.weighted(&[4, 1]) == 0 {
            self.push(ta, Op::Unbind { ch, end: oth });
            self.set_end(a, ch, oth, GEnd::None);
            let k = self.unbound[oth as usize] as u8;
            self.unbound[oth as usize] += 1;
            b = self.client_other_than(a);
            tb = self.task(b);
            chb = if b == a { ch } else { self.t.below(NCH) as u8 };
            let cap2 = self.t.below(ncaps) as u8;
            self.push(tb, Op::Bind { ch: chb, end: oth, k });
            self.push(tb, Op::Claim { ch: chb, end: oth, cap: cap2 });
            self.set_end(b, chb, oth, GEnd::Est);
            if self.t.chance(30) {
                // a second claimant for the same end
                let c = self.client();
                let tc = self.task(c);
                let chc = self.t.below(NCH) as u8;
                self.push(tc, Op::Bind { ch: chc, end: oth, k });
                self.push(tc, Op::Claim { ch: chc, end: oth, cap: cap2 });
            }
        } else {
            b = a;
            chb = ch;
            tb = self.task(a);
            let cap2 = self.t.below(ncaps) as u8;
            self.push(tb, Op::Claim { ch, end: oth, cap: cap2 });
            self.set_end(a, ch, oth, GEnd::Est);
        }
        let ta2 = if self.t.bool() { self.task(a) } else { ta };
        self.push(ta2, Op::Establish { ch, end: claim });
        self.set_end(a, ch, claim, GEnd::Est);
        // producer and consumer
        let (sc, sch, st, rc, rch, rt) = if claim == End::Snd { (a, ch, ta2, b, chb, tb) } else { (b, chb, tb, a, ch, ta2) };
        let n = match self.t.below(4) {
            0 => 1 + self.t.below(3),
            1 => 4 + self.t.below(6),
            _ => 6 + self.t.below(30),
        } as u8;
        let st2 = if self.t.bool() { self.task(sc) } else { st };
        if self.t.weighted(&[2, 1]) == 1 {
            self.push(st2, Op::SendWatch { ch: sch, n });
        } else {
            self.push(st2, Op::Send { ch: sch, n });
        }
        let m = match self.t.below(3) {
            0 => n,
            1 => 1 + self.t.below(n as usize) as u8,
            _ => n.saturating_add(2),
        };
        let wait = self.t.weighted(&[1, 3]) == 1;
        let rt2 = if self.t.bool() { self.task(rc) } else { rt };
        self.push(rt2, Op::Recv { ch: rch, n: m, wait });
        // endings
        for _ in 0..self.t.below(3) {
            let (c, chx, e) = if self.t.bool() { (sc, sch, End::Snd) } else { (rc, rch, End::Rcv) };
            let tx = self.task(c);
            if self.t.bool() {
                self.push(tx, Op::CloseEnd { ch: chx, end: e });
            } else {
                self.set_end(c, chx, e, GEnd::None);
                self.push(tx, Op::DropEnd { ch: chx, end: e });
            }
        }
    }

    // ---- listeners, discoverers, lifetimes ----------------------------------------------------

    fn frag_listener(&mut self) {
        let a = self.client();
        let ta = self.task(a);
        let l = self.t.below(NLIS) as u8;
        if self.cl[a].lis[l as usize] == 0 || self.t.chance(64) {
            self.push(ta, Op::CreateListener { l });
            self.cl[a].lis[l as usize] = 1;
        }
        for _ in 0..1 + self.t.below(3) {
            let f = self.filter();
            self.push(ta, Op::AddFilter { l, f });
        }
        let scope = self.scope();
        self.push(ta, Op::StartListener { l, scope });
        self.cl[a].lis[l as usize] = 2;
        for _ in 0..self.t.below(4) {
            let tx = if self.t.bool() { self.task(a) } else { ta };
            let op = match self.t.weighted(&[30, 10, 8, 4, 10, 4, 6]) {
                0 => Op::ListenerNext { l, n: 1 + self.t.below(4) as u8, wait: self.t.weighted(&[2, 1]) == 1 },
                1 => Op::StopListener { l },
                2 => Op::RemoveFilter { l, f: self.filter() },
                3 => Op::ClearFilters { l },
                4 => Op::StartListener { l, scope: self.scope() },
                5 => Op::DestroyListener { l },
                _ => {
                    self.cl[a].lis[l as usize] = 0;
                    Op::DropListener { l }
                }
            };
            self.push(tx, op);
        }
    }

    fn frag_discovery(&mut self) {
        let a = self.client();
        let ta = self.task(a);
        match self.t.weighted(&[6, 2, 1]) {
            0 => {
                let d = self.t.below(NDISC) as u8;
                let n = 1 + self.t.below(3);
                let entries = (0..n).map(|_| self.entry()).collect();
                let current_only = self.t.chance(64);
                self.cl[a].disc[d as usize] = true;
                self.push(ta, Op::CreateDiscoverer { d, entries, current_only });
                for _ in 0..self.t.below(4) {
                    let tx = if self.t.bool() { self.task(a) } else { ta };
                    let op = match self.t.weighted(&[6, 2, 1]) {
                        0 => Op::DiscNext { d, n: 1 + self.t.below(3) as u8, wait: self.t.weighted(&[2, 1]) == 1 },
                        1 => Op::RestartDiscoverer { d, current_only: self.t.chance(64) },
                        _ => {
                            self.cl[a].disc[d as usize] = false;
                            Op::DropDiscoverer { d }
                        }
                    };
                    self.push(tx, op);
                }
            }
            1 => {
                let e = self.entry();
                self.push(ta, Op::FindObject { e });
            }
            _ => {
                let e = self.entry();
                let tx = self.task_other(a, ta);
                self.push(tx, Op::WaitForObject { e });
            }
        }
    }

    fn frag_lifetime(&mut self) {
        let a = self.client();
        let ta = self.task(a);
        let sc = self.t.below(NSCOPE) as u8;
        self.cl[a].scope[sc as usize] = true;
        let k = self.scopes as u8;
        self.push(ta, Op::CreateScope { sc });
        self.scopes += 1;
        let b = self.client();
        let tb = self.task(b);
        let lt = self.t.below(NLT) as u8;
        self.cl[b].lt[lt as usize] = true;
        self.push(tb, Op::CreateLifetime { lt, k });
        if self.t.bool() {
            let tx = self.task_other(b, tb);
            self.push(tx, Op::LifetimeEnded { lt });
        }
        let ta2 = if self.t.bool() { self.task(a) } else { ta };
        match self.t.weighted(&[3, 3, 2]) {
            0 => self.push(ta2, Op::EndScope { sc }),
            1 => {
                self.cl[a].scope[sc as usize] = false;
                self.push(ta2, Op::DropScope { sc });
            }
            _ => {}
        }
        if self.t.chance(64) {
            self.cl[b].lt[lt as usize] = false;
            self.push(tb, Op::DropLifetime { lt });
        }
    }

    fn frag_misc(&mut self) {
        let a = self.client();
        let ta = self.task(a);
        let op = match self.t.weighted(&[30, 25, 20, 10, 10, 4]) {
            0 => Op::SyncBroker,
            1 => Op::SyncClient,
            2 => Op::Yield(1 + self.t.below(4) as u8),
            3 => {
                self.cl[a].extra += 1;
                Op::CloneHandle
            }
            4 => {
                if self.cl[a].extra > 0 {
                    self.cl[a].extra -= 1;
                    Op::DropExtraHandle
                } else {
                    Op::SyncClient
                }
            }
            _ => Op::Shutdown,
        };
        self.push(ta, op);
    }

    /// One free-standing operation on whatever the client probably has.
    fn frag_noise(&mut self) {
        let a = self.client();
        let ta = self.task(a);
        let svcs = self.cl[a].svc;
        let proxies: Vec<bool> = self.cl[a].proxy.iter().map(|p| p.is_some()).collect();
        let op = match self.t.weighted(&[10, 10, 10, 10, 10, 10, 10, 10]) {
            0 => pick_true(self.t, &svcs).map(|s| Op::Emit { s, ev: 0 }),
            1 => pick_true(self.t, &proxies).map(|p| Op::Call { p, f: 0, mode: CallMode::Await }),
            2 => pick_true(self.t, &proxies).map(|p| Op::NextEvent { p, n: 2, wait: false }),
            3 => {
                let ch = self.t.below(NCH) as u8;
                if self.t.weighted(&[2, 1]) == 1 {
                    Some(Op::SendWatch { ch, n: 1 + self.t.below(8) as u8 })
                } else {
                    Some(Op::Send { ch, n: 1 + self.t.below(8) as u8 })
                }
            }
            4 => {
                let ch = self.t.below(NCH) as u8;
                Some(Op::Recv { ch, n: 1 + self.t.below(8) as u8, wait: false })
            }
            5 => {
                let ch = self.t.below(NCH) as u8;
                let end = self.end();
                Some(Op::DropEnd { ch, end })
            }
            6 => {
                let ch = self.t.below(NCH) as u8;
                let end = self.end();
                Some(Op::CloseEnd { ch, end })
            }
            _ => {
                let l = self.t.below(NLIS) as u8;
                Some(Op::ListenerNext { l, n: 2, wait: false })
            }
        };
        if let Some(op) = op {
            self.push(ta, op);
        }
    }
}

/// Hand-written programs (C15 scenarios, C19 set-ups): operations are appended to tasks and the
/// operand waits between tasks are inserted exactly as the decoder does.
pub struct Builder {
    pub tasks: Vec<TaskProg>,
    producer: std::collections::BTreeMap<(usize, Res), usize>,
    unbound: [usize; 2],
    scopes: usize,
}

impl Builder {
    /// `task_clients[i]` is the client of task i.
    pub fn new(task_clients: &[usize]) -> Self {
        Builder {
            tasks: task_clients.iter().map(|c| TaskProg { client: *c, ops: vec![] }).collect(),
            producer: Default::default(),
            unbound: [0, 0],
            scopes: 0,
        }
    }

    pub fn op(&mut self, task: usize, op: Op) -> &mut Self {
        let ci = self.tasks[task].client;
        for (scope, res) in needs(ci, &op) {
            if let Some(tp) = self.producer.get(&(scope, res)) {
                if *tp != task && self.tasks[task].ops.last() != Some(&Op::WaitFor(res)) {
                    self.tasks[task].ops.push(Op::WaitFor(res));
                }
            }
        }
        for (scope, res) in produces(ci, &op, &self.unbound, self.scopes) {
            self.producer.insert((scope, res), task);
        }
        match &op {
            Op::Unbind { end, .. } => self.unbound[*end as usize] += 1,
            Op::CreateScope { .. } => self.scopes += 1,
            _ => {}
        }
        self.tasks[task].ops.push(op);
        self
    }

    pub fn ops(&mut self, task: usize, ops: Vec<Op>) -> &mut Self {
        for op in ops {
            self.op(task, op);
        }
        self
    }
}

pub fn render_program(p: &Program) -> String {
    let mut s = String::new();
    s.push_str(&format!(
        "det_seed={} sched_seed={} policy={:?} idle_early={} refused_claims={} late_abort={} listener_after_destroy={}\n",
        p.det_seed,
        p.sched_seed,
        simbus::Policy::from_u8(p.policy),
        p.idle_early,
        p.allow_refused_claims,
        p.allow_late_abort,
        p.allow_listener_after_destroy
    ));
    for (i, c) in p.clients.iter().enumerate() {
        s.push_str(&format!("client c{}: {:?} {:?} final={:?}\n", i, c.proto, c.tkind, c.final_mode));
    }
    for (i, t) in p.tasks.iter().enumerate() {
        s.push_str(&format!("task t{} on c{}:\n", i, t.client));
        for (j, op) in t.ops.iter().enumerate() {
            s.push_str(&format!("  {:2}: {:?}\n", j, op));
        }
    }
    s
}
