//! C06 Clients and broker agree on the protocol under every schedule.

use crate::driver::*;
use crate::net::*;
use crate::prog::*;
use vcommon::{fingerprint, CheckDef, ClassPlan, Outcome, PassInfo, Tier};

pub static DEF: CheckDef = CheckDef {
    id: "C06",
    level: "exploration",
    rule: "Cases: random programs (<=48 operations in 1..3 application tasks per client, 1..4 real clients of protocol 1.20/1.14) over objects, services with server loops, low-level proxies, calls (awaited / aborted by drop / stashed), events, low-level channels (both ends, unbind/bind/claim on other clients, capacities {1,2,4,5,16}), bus listeners (six filter shapes, three scopes), discoverers, lifetimes, syncs, handle clones and shutdown, run against a real broker on the deterministic simulator under a tape-chosen schedule policy/seed, HashMap/cookie seed and transports (unbounded or bounded 1..16). Non-trivial: >=2 clients, >=1 value dropped/destroyed with operations in flight on it (service with unanswered calls or subscribers, proxy with pending replies or subscriptions, channel end with a live peer, started listener/discoverer) and >=1 of those drops racing with a counterpart on another client. Distinct = program + schedule + transports.",
    assumptions: &[
        "interleavings are explored at poll granularity of a single-threaded executor (exact for this code base's concurrency model)",
        "request futures are always awaited to completion; only values are dropped at arbitrary points",
        "a call is request-class only if its service is gone or has a server loop waiting in next_call that does not deliberately hold the call's promise",
        "every class may contain refused and cancelled channel claims, replies dropped around a shutdown, listeners polled after destroy, BrokerHandle::shutdown() with requests in flight and client-initiated shutdowns racing with it; the classes claims / late-abort / listener-after-destroy / small-credit only aim at one shape more often; VAPI_EXCLUDE_F2..F9 take a shape out again (opt-in, the corresponding floors then fail)",
        "cancelling an in-flight request is generated for claim() only (its early set_claimed exists for that case); all other request futures are awaited to completion",
    ],
    plan,
    case,
    render,
    crashy: false,
    floors: &[
        ("clients>=2", 0.55),
        ("bounded-transport", 0.50),
        ("drop-with-inflight", 0.25),
        ("cross-client-race", 0.18),
        ("proto-1.14", 0.20),
        ("proto-1.15", 0.03),
        ("proto-1.16", 0.03),
        ("proto-1.17", 0.03),
        ("proto-1.18", 0.03),
        ("proto-1.19", 0.03),
        ("final:drop-all", 0.25),
        ("final:broker-shutdown-connection", 0.10),
        ("chan:items-flowed", 0.15),
        ("call:answered", 0.12),
        ("cross-client-channel", 0.20),
        ("event:received", 0.01),
        ("bus-event:received", 0.03),
        // shapes around the repaired findings F2/F5/F6/F7 and the open ones F8/F9/F10
        ("claim-refused", 0.12),
        ("two-claimants", 0.06),
        ("claim-cancelled", 0.03),
        ("reply-dropped-during-shutdown", 0.04),
        ("listener-polled-after-destroy", 0.05),
        ("kick+idle-early", 0.06),
        ("broker-shutdown", 0.03),
        ("broker-shutdown-in-flight", 0.015),
        ("client-shutdown-races-broker-shutdown", 0.008),
        // client-level half of C05: credit top-up paths of Sender/Receiver
        ("credit-topup:cap<=4", 0.05),
        ("credit-topup:cap<=4:bounded<=2", 0.03),
        ("credit:cap=1", 0.04),
    ],
    extra: None,
    extra_coverage: None,
};

fn plan(t: Tier) -> Vec<ClassPlan> {
    let k = match t {
        Tier::Quick => 1,
        Tier::Thorough => 20,
    };
    vec![
        ClassPlan { class: "prog", cases: 45_000 * k, min_len: 24, max_len: 420 },
        ClassPlan { class: "claims", cases: 8_000 * k, min_len: 24, max_len: 300 },
        ClassPlan { class: "late-abort", cases: 4_000 * k, min_len: 24, max_len: 300 },
        ClassPlan { class: "listener-after-destroy", cases: 3_000 * k, min_len: 24, max_len: 300 },
        ClassPlan { class: "small-credit", cases: 8_000 * k, min_len: 24, max_len: 300 },
    ]
}

pub fn exclude_f2() -> bool {
    std::env::var("VAPI_EXCLUDE_F2").map(|v| v == "1").unwrap_or(false)
}

pub fn exclude_f5() -> bool {
    std::env::var("VAPI_EXCLUDE_F5").map(|v| v == "1").unwrap_or(false)
}

pub fn exclude_f6() -> bool {
    std::env::var("VAPI_EXCLUDE_F6").map(|v| v == "1").unwrap_or(false)
}

fn decode(class: &str, tape: &[u8]) -> Program {
    let aim = match class {
        "claims" => Aim::Claims,
        "late-abort" => Aim::LateAbort,
        "listener-after-destroy" => Aim::ListenerAfterDestroy,
        "small-credit" => Aim::SmallCredit,
        _ => Aim::Mixed,
    };
    decode_program(tape, Allow::from_env(), aim, 48)
}

fn render(class: &str, tape: &[u8]) -> String {
    render_program(&decode(class, tape))
}

fn case(class: &str, tape: &[u8], _strict: bool) -> Outcome {
    let p = decode(class, tape);
    case_of(p, class, tape)
}

pub fn case_of(p: Program, class: &str, tape: &[u8]) -> Outcome {
    let det = p.det_seed;
    let debug = std::env::var_os("VAPI_DEBUG").is_some();
    let start = std::time::Instant::now();
    if std::env::var_os("VAPI_DEBUG_TAPES").is_some() {
        eprintln!("[tape] {} {}", class, vcommon::hex(tape));
    }
    let res = vcommon::with_det_seed(det, 1 << 21, move || run(&p));
    if debug {
        let ms = start.elapsed().as_millis();
        match &res {
            Ok(Outcome::Fail(f)) => eprintln!("[debug] {} ms FAIL {} tape={}", ms, f.signature, vcommon::hex(tape)),
            Ok(_) if ms > 100 => eprintln!("[debug] {} ms pass tape={}", ms, vcommon::hex(tape)),
            _ => {}
        }
    }
    match res {
        Ok(o) => o,
        Err(_) => {
            let p = vcommon::last_panic_any_thread();
            let loc = norm_location(&p.location());
            let sig = if in_sut(&loc) { format!("panic:case-thread:{}", loc) } else { format!("harness:panic:case-thread:{}", loc) };
            Outcome::fail(sig, format!("panic outside of a simulator task: {}", p.0))
        }
    }
}

pub fn run(p: &Program) -> Outcome {
    match run_inner(p) {
        Ok(o) => o,
        Err(o) => o,
    }
}

fn run_inner(p: &Program) -> Result<Outcome, Outcome> {
    let mut rig = Rig::connect(p.sched_seed, p.policy, &p.clients, p.allow())?;
    let mut idle_slot = None;
    // Repaired finding F7: a broker-initiated connection shutdown while the broker may stop on
    // idle used to lose the Shutdown message of a connection that was still forwarding.
    let kick = p.clients.iter().any(|c| c.final_mode == FinalMode::BrokerKick);
    let idle_early = p.idle_early && (!kick || p.allow_broker_shutdown_in_flight);
    if p.idle_early && kick {
        rig.world.count(if idle_early { "kick+idle-early" } else { "excluded:f7" });
    }
    if idle_early {
        let mut bh = rig.net.broker.clone();
        let (_, s) = rig.net.sim.spawn_out("driver:shutdown_idle", counted(async move { bh.shutdown_idle().await }));
        idle_slot = Some(s);
    }
    rig.spawn_tasks(&p.tasks);

    // phases: run to quiescence, check, open the gate for tasks waiting at a barrier
    let mut phases = 0;
    for round in 0..2 {
        loop {
            rig.settle("program")?;
            rig.check_runs(false)?;
            rig.check_no_request_pending()?;
            rig.world.board.borrow_mut().bus_mutators.clear();
            if rig.tasks_at_gate() == 0 {
                break;
            }
            phases += 1;
            if phases > 200 {
                return Err(fail("harness:too-many-phases", rig.detail("more than 200 phases")));
            }
            rig.world.gate.open_next();
        }
        if round == 0 {
            // nobody produces anything new: tasks still waiting for an operand give up
            rig.world.cancel_all_waits();
        }
    }

    // shutdown of every client
    for (i, c) in p.clients.iter().enumerate() {
        let cc = rig.world.clients[i].clone();
        if cc.shutdown_requested.get() {
            // already stopped by the program; its values are still dropped below
            cc.drop_all();
            continue;
        }
        cc.shutdown_requested.set(true);
        match c.final_mode {
            FinalMode::Shutdown => {
                cc.self_shutdown.set(true);
                if let Some(h) = cc.h() {
                    h.shutdown();
                }
            }
            FinalMode::BrokerKick => {
                let mut bh = rig.net.broker.clone();
                let ch = rig.net.clients[i].conn_handle.borrow().clone();
                if let Some(ch) = ch {
                    rig.net.sim.spawn(&format!("driver:kick:c{}", i), counted(async move {
                        let _ = bh.shutdown_connection(&ch).await;
                    }));
                }
            }
            FinalMode::DropAll => {
                // F5 exclusion: let the client process the aborts before it loses its last handle
                if !p.allow_late_abort && cc.drop_replies() > 0 {
                    rig.world.count("excluded:f5");
                    rig.settle("shutdown")?;
                }
                if !cc.stash.borrow().is_empty() {
                    rig.world.count("late-abort");
                }
                cc.drop_all()
            }
        }
        rig.world.log(format!("driver: stop c{} by {:?}", i, c.final_mode));
        // clients are stopped one after the other on odd policies, all at once otherwise
        if p.policy & 0x10 != 0 {
            loop {
                rig.settle("shutdown")?;
                if rig.tasks_at_gate() == 0 {
                    break;
                }
                rig.world.gate.open_next();
            }
        }
    }
    let mut rounds = 0;
    loop {
        rig.settle("shutdown")?;
        if rig.tasks_at_gate() == 0 {
            break;
        }
        rounds += 1;
        if rounds > 200 {
            return Err(fail("harness:too-many-phases", rig.detail("more than 200 gate rounds during shutdown")));
        }
        rig.world.gate.open_next();
    }
    rig.check_runs(true)?;
    let unfinished = rig.tasks_unfinished();
    if !unfinished.is_empty() {
        return Err(fail("pending-after-shutdown:app-task", rig.detail(&format!("after all clients were shut down these application tasks are still blocked: {:?}", unfinished))));
    }
    // values the tasks still hold in slots are dropped now (clients are gone)
    for cc in rig.world.clients.iter() {
        cc.drop_all();
    }
    if idle_slot.is_none() {
        let mut bh = rig.net.broker.clone();
        let (_, s) = rig.net.sim.spawn_out("driver:shutdown_idle", counted(async move { bh.shutdown_idle().await }));
        idle_slot = Some(s);
    }
    rig.settle("idle-shutdown")?;
    if idle_slot.as_ref().unwrap().borrow().is_none() {
        return Err(fail("idle-shutdown:request-stuck", rig.detail("BrokerHandle::shutdown_idle() did not return")));
    }
    if rig.net.broker_done.borrow().is_none() {
        return Err(fail("idle-shutdown:broker-still-running", rig.detail("all clients have shut down and the broker was asked to shut down when idle, but Broker::run() has not returned")));
    }
    let left = rig.net.sim.pending();
    if !left.is_empty() {
        return Err(fail("pending-after-shutdown:task", rig.detail(&format!("tasks left after everything was shut down: {:?}", left))));
    }

    // classification
    let w = &rig.world;
    let mut classes: Vec<&'static str> = vec![];
    let n_clients = p.clients.len();
    if n_clients >= 2 {
        classes.push("clients>=2");
    }
    if p.clients.iter().any(|c| matches!(c.tkind, TKind::Bounded(_))) {
        classes.push("bounded-transport");
    }
    if p.clients.iter().any(|c| matches!(c.tkind, TKind::Bounded(n) if n <= 2)) {
        classes.push("bounded-transport<=2");
    }
    if p.clients.iter().any(|c| c.proto == Proto::V14) {
        classes.push("proto-1.14");
    }
    for (m, label) in [(15u8, "proto-1.15"), (16, "proto-1.16"), (17, "proto-1.17"), (18, "proto-1.18"), (19, "proto-1.19")] {
        if p.clients.iter().any(|c| c.proto == Proto::Capped(m)) {
            classes.push(label);
        }
    }
    if p.clients.iter().any(|c| c.final_mode == FinalMode::DropAll) {
        classes.push("final:drop-all");
    }
    if p.clients.iter().any(|c| c.final_mode == FinalMode::BrokerKick) {
        classes.push("final:broker-shutdown-connection");
    }
    for (label, stat) in [
        ("drop-with-inflight", "drop-with-inflight"),
        ("cross-client-race", "cross-client-race"),
        ("two-claimants", "two-claimants"),
        ("claim-refused", "claim-refused"),
        ("excluded:f2", "excluded:f2"),
        ("excluded:f5", "excluded:f5"),
        ("excluded:f6", "excluded:f6"),
        ("excluded:f7", "excluded:f7"),
        ("excluded:f8", "excluded:f8"),
        ("excluded:f9", "excluded:f9"),
        ("listener-polled-after-destroy", "listener-polled-after-destroy"),
        ("reply-dropped-during-shutdown", "late-abort"),
        ("claim-cancelled", "claim-cancelled"),
        ("broker-shutdown", "op:broker-shutdown"),
        ("broker-shutdown-in-flight", "broker-shutdown-in-flight"),
        ("client-shutdown-races-broker-shutdown", "client-shutdown-races-broker-shutdown"),
        ("kick+idle-early", "kick+idle-early"),
        ("call:answered", "call:ok"),
        ("call:legitimately-pending", "call:legitimately-pending"),
        ("call:aborted-by-drop", "call:aborted-by-drop"),
        ("promise-held", "promise-held"),
        ("promise:aborted-awaited", "promise:aborted-awaited"),
        ("promise:aborted-resolved", "promise:aborted-resolved"),
        ("event:received", "event:received"),
        ("event:order-checked", "event:order-checked"),
        ("chan:items-flowed", "item:received"),
        ("chan:item-order-checked>=2", "item:order-checked>=2"),
        ("chan:receiver-closed-polled-while-sending", "chan:receiver-closed-polled"),
        ("bus-event:received", "bus-event:received"),
        ("discoverer-event:received", "discoverer-event:received"),
        ("cross-client-proxy", "cross-client-proxy"),
        ("cross-client-channel", "cross-client-channel"),
        ("shutdown-mid-program", "op:shutdown-mid-program"),
    ] {
        if w.stat(stat) > 0 {
            classes.push(label);
        }
    }
    if phases >= 1 {
        classes.push("phases>=2");
    }
    // credit top-up paths of the client-level Sender/Receiver: more items than the receiver's
    // capacity went through a channel of capacity <= 4
    {
        let b = w.board.borrow();
        let topup = b.chans.iter().any(|(c, i)| i.rcv_cap >= 1 && i.rcv_cap <= 4 && b.received.get(c).copied().unwrap_or(0) > i.rcv_cap as u64);
        if topup {
            classes.push("credit-topup:cap<=4");
            if p.clients.iter().any(|c| matches!(c.tkind, TKind::Bounded(n) if n <= 2)) {
                classes.push("credit-topup:cap<=4:bounded<=2");
            }
        }
        if b.chans.values().any(|i| i.rcv_cap == 1) && b.received.values().any(|n| *n >= 2) {
            classes.push("credit:cap=1");
        }
    }
    let nontrivial = n_clients >= 2 && w.stat("drop-with-inflight") > 0 && w.stat("cross-client-race") > 0;
    let key = format!("{:?}|{:?}|{}|{}|{}", p.tasks, p.clients, p.sched_seed, p.policy % 8, p.det_seed);
    Ok(Outcome::Pass(PassInfo { nontrivial, fp: fingerprint(key.as_bytes()), classes }))
}
