//! Interpreter of `apiprog` programs: application tasks over per-client value slots.
//!
//! Blocking operations are tagged request-class (the protocol guarantees an answer) or
//! stream-class (next call/event/item/bus event, send_ready, establish, lifetime end, wait_for).
//! Request futures are always awaited to completion. Stream-class operations are poll-style
//! functions of the API; they borrow their value only for one poll so that another task can drop
//! the value meanwhile (= cancel the wait and drop the value).

use crate::net::Proto;
use crate::prog::*;
use crate::util::{slot_op, yield_now, Gate, Slot};
use aldrin::core::{
    BusListenerFilter, BusListenerScope, ChannelCookie, ObjectUuid, ServiceId, ServiceUuid,
};
use aldrin::low_level::{
    PendingReceiver, PendingReply, PendingSender, Promise, Proxy, Receiver, Sender, Service,
    ServiceInfo, UnboundReceiver, UnboundSender, UnclaimedReceiver, UnclaimedSender,
};
use aldrin::{BusListener, Discoverer, Error, Handle, Lifetime, LifetimeId, LifetimeScope, Object};
use std::cell::{Cell, RefCell};
use std::collections::{BTreeMap, BTreeSet, VecDeque};
use std::future::Future;
use std::pin::Pin;
use std::rc::Rc;
use std::task::{Context, Poll, Waker};
use uuid::Uuid;

pub fn g(n: u64) -> u64 {
    n.wrapping_mul(0x9E37_79B9_7F4A_7C15) ^ 0x5bd1_e995
}

pub fn h(n: u64) -> u64 {
    !g(n)
}

pub fn obj_uuid(i: u8) -> ObjectUuid {
    ObjectUuid(Uuid::from_u128(0x0b1ec7_0000 + i as u128))
}

pub fn svc_uuid(i: u8) -> ServiceUuid {
    ServiceUuid(Uuid::from_u128(0x5e871ce_0000 + i as u128))
}

pub fn entry_services(e: &Entry) -> Vec<ServiceUuid> {
    (0..SVC_POOL as u8).filter(|i| e.svcs & (1 << i) != 0).map(svc_uuid).collect()
}

pub fn make_filter(f: &Filter) -> BusListenerFilter {
    let o = obj_uuid(f.obj);
    let s = svc_uuid(f.svc);
    match f.shape {
        0 => BusListenerFilter::any_object(),
        1 => BusListenerFilter::object(o),
        2 => BusListenerFilter::any_object_any_service(),
        3 => BusListenerFilter::specific_object_any_service(o),
        4 => BusListenerFilter::any_object_specific_service(s),
        _ => BusListenerFilter::specific_object_and_service(o, s),
    }
}

pub fn make_scope(s: Scope) -> BusListenerScope {
    match s {
        Scope::Current => BusListenerScope::Current,
        Scope::New => BusListenerScope::New,
        Scope::All => BusListenerScope::All,
    }
}

#[derive(Clone, Copy, PartialEq, Eq, Debug)]
pub enum Class {
    Request,
    Stream,
    Gate,
    /// harness-level wait for a value another task is about to produce
    Operand,
}

/// What a stream-class wait is waiting on (slot indices of the task's client), so that the
/// quiescence check can tell whether the peer has already acted.
#[derive(Clone, Copy, Debug, PartialEq, Eq)]
pub enum Aux {
    None,
    /// waiting for the other end of the channel in slot (end, ch) to be claimed
    Establish(End, u8),
    /// waiting for the next item on the receiver in channel slot ch
    NextItem(u8),
    /// waiting for the end of the lifetime in slot lt
    Lifetime(u8),
    /// a callee waiting in `Promise::aborted()` for the call with this nonce
    Aborted(u64),
    /// a producer waiting in `send_ready` on the sender in channel slot ch
    SendReady(u8),
}

#[derive(Clone, Debug)]
pub struct Blocked {
    pub op_idx: usize,
    pub what: &'static str,
    pub class: Class,
    /// pending call: (service cookie, nonce)
    pub call: Option<(Uuid, u64)>,
    /// server loop waiting in next_call on service slot s of its client
    pub serving: Option<u8>,
    pub aux: Aux,
}

pub struct TaskCtx {
    pub id: usize,
    pub client: usize,
    pub blocked: RefCell<Option<Blocked>>,
    pub cur: Cell<usize>,
    pub done: Cell<bool>,
}

impl TaskCtx {
    pub fn new(id: usize, client: usize) -> Rc<Self> {
        Rc::new(TaskCtx { id, client, blocked: RefCell::new(None), cur: Cell::new(0), done: Cell::new(false) })
    }

    pub async fn block<F: Future>(
        &self,
        class: Class,
        what: &'static str,
        call: Option<(Uuid, u64)>,
        serving: Option<u8>,
        fut: F,
    ) -> F::Output {
        *self.blocked.borrow_mut() = Some(Blocked { op_idx: self.cur.get(), what, class, call, serving, aux: Aux::None });
        let r = fut.await;
        *self.blocked.borrow_mut() = None;
        r
    }

    pub async fn stream_aux<F: Future>(&self, what: &'static str, aux: Aux, fut: F) -> F::Output {
        *self.blocked.borrow_mut() = Some(Blocked { op_idx: self.cur.get(), what, class: Class::Stream, call: None, serving: None, aux });
        let r = fut.await;
        *self.blocked.borrow_mut() = None;
        r
    }

    pub async fn req<F: Future>(&self, what: &'static str, fut: F) -> F::Output {
        self.block(Class::Request, what, None, None, fut).await
    }

    pub async fn stream<F: Future>(&self, what: &'static str, fut: F) -> F::Output {
        self.block(Class::Stream, what, None, None, fut).await
    }
}

/// An `Object` whose real drop (the last `Rc` going away, possibly at the end of an operation of
/// another task that still uses it) is recorded in the history.
pub struct Tracked<T> {
    pub val: T,
    cookie: Uuid,
    w: std::rc::Weak<World>,
}

impl<T> Tracked<T> {
    pub fn new(val: T, cookie: Uuid, w: &Rc<World>) -> Rc<Self> {
        Rc::new(Tracked { val, cookie, w: Rc::downgrade(w) })
    }
}

impl<T> std::ops::Deref for Tracked<T> {
    type Target = T;
    fn deref(&self) -> &T {
        &self.val
    }
}

impl<T> Drop for Tracked<T> {
    fn drop(&mut self) {
        if let Some(w) = self.w.upgrade() {
            w.hist_teardown_start_obj(self.cookie);
        }
    }
}

pub enum SndEnd {
    Unclaimed(UnclaimedSender),
    Pending(PendingSender),
    Est(Sender),
}

pub enum RcvEnd {
    Unclaimed(UnclaimedReceiver),
    Pending(PendingReceiver),
    Est(Receiver),
}

impl SndEnd {
    pub fn cookie(&self) -> ChannelCookie {
        match self {
            SndEnd::Unclaimed(x) => x.cookie(),
            SndEnd::Pending(x) => x.cookie(),
            SndEnd::Est(x) => x.cookie(),
        }
    }
}

impl RcvEnd {
    pub fn cookie(&self) -> ChannelCookie {
        match self {
            RcvEnd::Unclaimed(x) => x.cookie(),
            RcvEnd::Pending(x) => x.cookie(),
            RcvEnd::Est(x) => x.cookie(),
        }
    }
}

/// A bus listener together with what the harness knows about it (travels with the value when
/// operations of several tasks take it out of and put it back into the slot).
pub struct LisBox {
    pub bl: BusListener,
    pub started: bool,
    /// `destroy()` has succeeded on this listener
    pub destroyed: bool,
}

/// Harness-side cancellation of a stream-class wait that owns a handle (wait_for_object).
#[derive(Default)]
pub struct Cancel {
    flag: Cell<bool>,
    wakers: RefCell<Vec<Waker>>,
}

impl Cancel {
    pub fn set(&self) {
        self.flag.set(true);
        for w in std::mem::take(&mut *self.wakers.borrow_mut()) {
            w.wake();
        }
    }

    pub fn is_set(&self) -> bool {
        self.flag.get()
    }
}

/// Polls `fut`; resolves to None when the cancel flag is raised first.
pub async fn until_cancelled<F: Future>(cancel: &Cancel, fut: F) -> Option<F::Output> {
    let mut fut = Box::pin(fut);
    std::future::poll_fn(move |cx| {
        if let Poll::Ready(v) = fut.as_mut().poll(cx) {
            return Poll::Ready(Some(v));
        }
        if cancel.flag.get() {
            return Poll::Ready(None);
        }
        cancel.wakers.borrow_mut().push(cx.waker().clone());
        Poll::Pending
    })
    .await
}

pub struct ClientCtx {
    pub idx: usize,
    pub proto: Proto,
    pub handle: RefCell<Option<Rc<Handle>>>,
    pub extra: RefCell<Vec<Handle>>,
    pub objs: Vec<Slot<Rc<Tracked<Object>>>>,
    pub svcs: Vec<Slot<Service>>,
    pub proxies: Vec<Slot<Proxy>>,
    pub stash: RefCell<VecDeque<(PendingReply, u64, Uuid)>>,
    pub held: RefCell<VecDeque<(Promise, u64)>>,
    /// nonces of held promises whose `aborted()` a task is currently awaiting
    pub awaiting_aborted: RefCell<Vec<u64>>,
    /// the promises those tasks wait on (in slots, so that `drop_all` can take them away)
    pub aborted_slots: RefCell<Vec<Slot<Promise>>>,
    pub snd: Vec<Slot<SndEnd>>,
    pub rcv: Vec<Slot<RcvEnd>>,
    pub lis: Vec<Slot<LisBox>>,
    pub disc: Vec<Slot<Discoverer<u8>>>,
    pub scopes: Vec<Slot<Rc<Tracked<LifetimeScope>>>>,
    pub lts: Vec<Slot<Lifetime>>,
    pub shutdown_requested: Cell<bool>,
    /// the driver has seen `Client::run()` return
    pub stopped: Cell<bool>,
    /// the application itself asked for the shutdown (Handle::shutdown or dropping everything)
    pub self_shutdown: Cell<bool>,
    /// a pending reply was dropped and the client has not verifiably processed the abort yet
    pub abort_dirty: Cell<bool>,
    pub cancel: Cancel,
}

impl ClientCtx {
    pub fn new(idx: usize, proto: Proto, handle: Handle) -> Rc<Self> {
        fn slots<T>(n: usize) -> Vec<Slot<T>> {
            (0..n).map(|_| Slot::new()).collect()
        }
        Rc::new(ClientCtx {
            idx,
            proto,
            handle: RefCell::new(Some(Rc::new(handle))),
            extra: RefCell::new(vec![]),
            objs: slots(NOBJ),
            svcs: slots(NSVC),
            proxies: slots(NPROXY),
            stash: RefCell::new(VecDeque::new()),
            held: RefCell::new(VecDeque::new()),
            awaiting_aborted: RefCell::new(vec![]),
            aborted_slots: RefCell::new(vec![]),
            snd: slots(NCH),
            rcv: slots(NCH),
            lis: slots(NLIS),
            disc: slots(NDISC),
            scopes: slots(NSCOPE),
            lts: slots(NLT),
            shutdown_requested: Cell::new(false),
            stopped: Cell::new(false),
            self_shutdown: Cell::new(false),
            abort_dirty: Cell::new(false),
            cancel: Cancel::default(),
        })
    }

    pub fn h(&self) -> Option<Rc<Handle>> {
        self.handle.borrow().clone()
    }

    /// Drops the stashed pending replies (each drop aborts its call).
    pub fn drop_replies(&self) -> usize {
        let stash = std::mem::take(&mut *self.stash.borrow_mut());
        let n = stash.len();
        if n > 0 {
            self.abort_dirty.set(true);
        }
        drop(stash);
        n
    }

    /// Drops every value and handle the application holds on this client.
    pub fn drop_all(&self) {
        self.self_shutdown.set(true);
        self.cancel.set();
        self.drop_replies();
        let held = std::mem::take(&mut *self.held.borrow_mut());
        drop(held);
        let slots: Vec<Slot<Promise>> = self.aborted_slots.borrow().clone();
        for s in slots {
            drop(s.take());
        }
        for s in &self.proxies {
            drop(s.take());
        }
        for s in &self.lts {
            drop(s.take());
        }
        for s in &self.disc {
            drop(s.take());
        }
        for s in &self.lis {
            drop(s.take());
        }
        for s in &self.snd {
            drop(s.take());
        }
        for s in &self.rcv {
            drop(s.take());
        }
        for s in &self.svcs {
            drop(s.take());
        }
        for s in &self.objs {
            drop(s.take());
        }
        for s in &self.scopes {
            drop(s.take());
        }
        let extra = std::mem::take(&mut *self.extra.borrow_mut());
        drop(extra);
        let h = self.handle.borrow_mut().take();
        drop(h);
    }

    /// Whether the application still holds any value of this client.
    pub fn holds_anything(&self) -> bool {
        self.handle.borrow().is_some()
            || !self.extra.borrow().is_empty()
            || !self.stash.borrow().is_empty()
            || !self.held.borrow().is_empty()
            || self.aborted_slots.borrow().iter().any(|s| s.is_some())
            || self.objs.iter().any(|s| s.is_some())
            || self.svcs.iter().any(|s| s.is_some())
            || self.proxies.iter().any(|s| s.is_some())
            || self.snd.iter().any(|s| s.is_some())
            || self.rcv.iter().any(|s| s.is_some())
            || self.lis.iter().any(|s| s.is_some())
            || self.disc.iter().any(|s| s.is_some())
            || self.scopes.iter().any(|s| s.is_some())
            || self.lts.iter().any(|s| s.is_some())
    }

    /// Cookies of the services whose values sit in the slots.
    pub fn live_service_slots(&self) -> Vec<(u8, ServiceId)> {
        let mut v = vec![];
        for (i, s) in self.svcs.iter().enumerate() {
            if let Some(id) = s.with(|svc| svc.id()) {
                v.push((i as u8, id));
            }
        }
        v
    }

    pub fn live_object_cookies(&self) -> BTreeSet<Uuid> {
        let mut v = BTreeSet::new();
        for s in &self.objs {
            if let Some(id) = s.with(|o| o.id()) {
                v.insert(id.cookie.0);
            }
        }
        v
    }
}

#[derive(Debug, Clone)]
pub struct ChanInfo {
    pub creator: usize,
    pub creator_end: End,
    /// the creator still holds its (pending/established) end open, as far as the harness knows
    pub creator_alive: bool,
    /// the unclaimed end has been bound somewhere already
    pub bound: bool,
    pub claim_inflight: bool,
    /// a claim of the other end has succeeded
    pub claim_ok: bool,
    /// how often the unclaimed end has been bound
    pub binds: u32,
    /// capacity the receiver was created / claimed with
    pub rcv_cap: u32,
    pub claim_attempts: u32,
    /// clients that hold (or held) an end
    pub parties: BTreeSet<usize>,
}

#[derive(Default)]
pub struct Board {
    /// latest service published per (client, slot)
    pub services: BTreeMap<(usize, u8), ServiceId>,
    /// service cookie -> (owner client, object cookie)
    pub svc_owner: BTreeMap<Uuid, (usize, Uuid)>,
    pub destroyed_svcs: BTreeSet<Uuid>,
    pub destroyed_objs: BTreeSet<Uuid>,
    /// calls whose reply has not been consumed: nonce -> (service cookie, caller client)
    pub inflight: BTreeMap<u64, (Uuid, usize)>,
    /// proxies' subscriptions: (client, proxy slot) -> service cookie with >=1 subscription
    pub subscribed: BTreeMap<(usize, u8), Uuid>,
    /// unbound ends by publication index; None = the unbind did not happen
    pub unbound: [Vec<Option<ChannelCookie>>; 2],
    pub chans: BTreeMap<Uuid, ChanInfo>,
    pub scopes: Vec<Option<LifetimeId>>,
    /// clients that created/destroyed objects or services in the current phase
    pub bus_mutators: BTreeSet<usize>,
    /// items handed to `start_send_item` / returned by `next_item`, per channel cookie
    pub sent: BTreeMap<Uuid, u64>,
    pub received: BTreeMap<Uuid, u64>,
    /// the values handed to `start_send_item`, in order, per channel cookie (a channel has one
    /// sender end, so this is the send order)
    pub sent_vals: BTreeMap<Uuid, Vec<u64>>,
    /// calls whose pending reply the caller's application dropped: nonce -> caller client
    pub aborted_by_caller: BTreeMap<u64, (usize, Uuid)>,
    /// events the owners emitted: nonce -> (service cookie, event id)
    pub emitted: BTreeMap<u64, (Uuid, u32)>,
    /// last event nonce a proxy instance returned: (client, proxy slot, slot generation) -> nonce
    pub last_event: BTreeMap<(usize, u8, u64), u64>,
    /// clients that sent on a channel
    pub senders_of: BTreeMap<Uuid, BTreeSet<usize>>,
    /// lifetime scopes that have been ended or dropped
    pub ended_scopes: BTreeSet<LifetimeId>,
    /// lifetime scopes by owning client
    pub scope_owner: BTreeMap<LifetimeId, usize>,
}

/// Possibly-live interval of an object or service in harness logical time: from the start of
/// the creating operation to the end of the tearing-down one (None = not known to have ended).
#[derive(Debug, Clone)]
pub struct Life {
    pub owner: usize,
    pub start: u64,
    pub acked: u64,
    pub teardown_start: Option<u64>,
    pub teardown_end: Option<u64>,
}

#[derive(Default)]
pub struct Hist {
    pub clock: u64,
    /// by object cookie / service cookie
    pub objs: BTreeMap<Uuid, Life>,
    pub svcs: BTreeMap<Uuid, Life>,
    /// acknowledged object ids in acknowledgement order
    pub obj_ids: Vec<aldrin::core::ObjectId>,
    pub svc_ids: BTreeMap<Uuid, ServiceId>,
}

impl Hist {
    pub fn tick(&mut self) -> u64 {
        self.clock += 1;
        self.clock
    }
}

pub struct World {
    pub hist: RefCell<Hist>,
    pub clients: Vec<Rc<ClientCtx>>,
    pub tasks: RefCell<Vec<Rc<TaskCtx>>>,
    pub board: RefCell<Board>,
    pub gate: Gate,
    pub trace: RefCell<VecDeque<String>>,
    pub failures: RefCell<Vec<(String, String)>>,
    pub stats: RefCell<BTreeMap<&'static str, u32>>,
    pub nonce: Cell<u64>,
    pub allow_refused_claims: bool,
    pub allow_late_abort: bool,
    pub allow_listener_after_destroy: bool,
    pub allow_broker_shutdown_in_flight: bool,
    pub allow_claim_cancel: bool,
    pub allow_client_vs_broker_shutdown: bool,
    /// for `Op::BrokerShutdown`
    pub broker: RefCell<Option<aldrin_broker::BrokerHandle>>,
    pub broker_shutdown_requested: Cell<bool>,
    pub trace_on: bool,
    /// resources whose producer failed or was skipped: (client or BOARD, resource)
    pub res_failed: RefCell<BTreeSet<(usize, Res)>>,
    pub res_wakers: RefCell<Vec<Waker>>,
    /// set by the driver at the end of the program: nobody waits for operands any more
    pub cancel_waits: Cell<bool>,
}

impl World {
    pub fn new(clients: Vec<Rc<ClientCtx>>, allow: Allow) -> Rc<Self> {
        Rc::new(World {
            hist: RefCell::new(Hist::default()),
            clients,
            tasks: RefCell::new(vec![]),
            board: RefCell::new(Board::default()),
            gate: Gate::default(),
            trace: RefCell::new(VecDeque::new()),
            failures: RefCell::new(vec![]),
            stats: RefCell::new(BTreeMap::new()),
            nonce: Cell::new(0),
            allow_refused_claims: allow.refused_claims,
            allow_late_abort: allow.late_abort,
            allow_listener_after_destroy: allow.listener_after_destroy,
            allow_broker_shutdown_in_flight: allow.broker_shutdown_in_flight,
            allow_claim_cancel: allow.claim_cancel,
            allow_client_vs_broker_shutdown: allow.client_vs_broker_shutdown,
            broker: RefCell::new(None),
            broker_shutdown_requested: Cell::new(false),
            trace_on: true,
            res_failed: RefCell::new(BTreeSet::new()),
            res_wakers: RefCell::new(vec![]),
            cancel_waits: Cell::new(false),
        })
    }

    pub fn wake_res_waiters(&self) {
        for w in std::mem::take(&mut *self.res_wakers.borrow_mut()) {
            w.wake();
        }
    }

    pub fn cancel_all_waits(&self) {
        self.cancel_waits.set(true);
        self.wake_res_waiters();
    }

    /// Some(true) present, Some(false) producer failed, None not yet.
    pub fn res_state(&self, ci: usize, res: Res) -> Option<bool> {
        let cc = &self.clients[ci];
        let (present, scope) = match res {
            Res::Obj(i) => (cc.objs[i as usize].is_some(), ci),
            Res::Svc(i) => (cc.svcs[i as usize].is_some(), ci),
            Res::Proxy(i) => (cc.proxies[i as usize].is_some(), ci),
            Res::Snd(i) => (cc.snd[i as usize].is_some(), ci),
            Res::Rcv(i) => (cc.rcv[i as usize].is_some(), ci),
            Res::SndEst(i) => (cc.snd[i as usize].with(|e| matches!(e, SndEnd::Est(_))) == Some(true), ci),
            Res::RcvEst(i) => (cc.rcv[i as usize].with(|e| matches!(e, RcvEnd::Est(_))) == Some(true), ci),
            Res::Lis(i) => (cc.lis[i as usize].is_some(), ci),
            Res::Disc(i) => (cc.disc[i as usize].is_some(), ci),
            Res::Scope(i) => (cc.scopes[i as usize].is_some(), ci),
            Res::Lt(i) => (cc.lts[i as usize].is_some(), ci),
            Res::BoardSvc(c, s) => (self.board.borrow().services.contains_key(&(c as usize, s)), BOARD),
            Res::Unbound(e, k) => match self.board.borrow().unbound[e as usize].get(k as usize) {
                Some(Some(_)) => return Some(true),
                Some(None) => return Some(false),
                None => (false, BOARD),
            },
            Res::BoardScope(k) => match self.board.borrow().scopes.get(k as usize) {
                Some(Some(_)) => return Some(true),
                Some(None) => return Some(false),
                None => (false, BOARD),
            },
        };
        if present {
            Some(true)
        } else if self.res_failed.borrow().contains(&(scope, res)) {
            Some(false)
        } else {
            None
        }
    }

    pub fn log(&self, s: String) {
        if !self.trace_on {
            return;
        }
        let mut t = self.trace.borrow_mut();
        if t.len() >= 300 {
            t.pop_front();
        }
        t.push_back(s);
    }

    pub fn count(&self, label: &'static str) {
        *self.stats.borrow_mut().entry(label).or_insert(0) += 1;
    }

    pub fn stat(&self, label: &'static str) -> u32 {
        self.stats.borrow().get(label).copied().unwrap_or(0)
    }

    pub fn fail(&self, sig: &str, detail: String) {
        self.failures.borrow_mut().push((sig.to_string(), detail));
    }

    pub fn next_nonce(&self) -> u64 {
        let n = self.nonce.get() + 1;
        self.nonce.set(n);
        n
    }

    pub fn trace_tail(&self, n: usize) -> String {
        let t = self.trace.borrow();
        let skip = t.len().saturating_sub(n);
        t.iter().skip(skip).cloned().collect::<Vec<_>>().join("\n")
    }

    fn bus_mutation(&self, ci: usize) {
        self.board.borrow_mut().bus_mutators.insert(ci);
    }

    /// Accounting for the non-triviality rule: a service is being torn down (dropped, destroyed,
    /// its object dropped/destroyed, its client shut down) while calls to it are unanswered.
    pub fn now(&self) -> u64 {
        self.hist.borrow_mut().tick()
    }

    /// The tear-down of an object (and with it of its services) begins: an explicit destroy is
    /// about to be requested, or the last reference to the value is being dropped.
    pub fn hist_teardown_start_obj(&self, obj_cookie: Uuid) {
        let svcs: Vec<Uuid> = self.board.borrow().svc_owner.iter().filter(|(_, (_, oc))| *oc == obj_cookie).map(|(c, _)| *c).collect();
        let mut h = self.hist.borrow_mut();
        let t = h.tick();
        if let Some(l) = h.objs.get_mut(&obj_cookie) {
            l.teardown_start.get_or_insert(t);
        }
        for c in svcs {
            if let Some(l) = h.svcs.get_mut(&c) {
                l.teardown_start.get_or_insert(t);
            }
        }
    }

    fn hist_teardown_end_obj(&self, obj_cookie: Uuid) {
        let svcs: Vec<Uuid> = self.board.borrow().svc_owner.iter().filter(|(_, (_, oc))| *oc == obj_cookie).map(|(c, _)| *c).collect();
        let mut h = self.hist.borrow_mut();
        let t = h.tick();
        if let Some(l) = h.objs.get_mut(&obj_cookie) {
            l.teardown_end.get_or_insert(t);
        }
        for c in svcs {
            if let Some(l) = h.svcs.get_mut(&c) {
                l.teardown_end.get_or_insert(t);
            }
        }
    }

    fn hist_teardown_end_svc(&self, cookie: Uuid) {
        let mut h = self.hist.borrow_mut();
        let t = h.tick();
        if let Some(l) = h.svcs.get_mut(&cookie) {
            l.teardown_end.get_or_insert(t);
        }
    }

    /// A completed sync_broker of client `ci` that started at `t_start` bounds every tear-down
    /// the client had issued before.
    fn hist_synced(&self, ci: usize, t_start: u64) {
        let mut h = self.hist.borrow_mut();
        let t = h.tick();
        let Hist { objs, svcs, .. } = &mut *h;
        for l in objs.values_mut().chain(svcs.values_mut()) {
            if l.owner == ci && l.teardown_end.is_none() && matches!(l.teardown_start, Some(ts) if ts < t_start) {
                l.teardown_end = Some(t);
            }
        }
    }

    pub fn hist_teardown_start_svc(&self, cookie: Uuid) {
        let mut h = self.hist.borrow_mut();
        let t = h.tick();
        if let Some(l) = h.svcs.get_mut(&cookie) {
            l.teardown_start.get_or_insert(t);
        }
    }

    fn note_service_teardown(&self, owner: usize, cookie: Uuid) {
        let b = self.board.borrow();
        let mut inflight = false;
        let mut cross = false;
        for (svc, caller) in b.inflight.values() {
            if *svc == cookie {
                inflight = true;
                if *caller != owner {
                    cross = true;
                }
            }
        }
        for ((c, _), svc) in b.subscribed.iter() {
            if *svc == cookie {
                inflight = true;
                if *c != owner {
                    cross = true;
                }
            }
        }
        drop(b);
        if inflight {
            self.count("drop-with-inflight");
        }
        if cross {
            self.count("cross-client-race");
        }
    }

    fn note_object_teardown(&self, owner: usize, obj_cookie: Uuid) {
        let svcs: Vec<Uuid> = self.board.borrow().svc_owner.iter().filter(|(_, (o, oc))| *o == owner && *oc == obj_cookie).map(|(c, _)| *c).collect();
        for c in svcs {
            self.note_service_teardown(owner, c);
        }
    }

    fn note_client_teardown(&self, owner: usize) {
        let svcs: Vec<Uuid> = self.board.borrow().svc_owner.iter().filter(|(_, (o, _))| *o == owner).map(|(c, _)| *c).collect();
        for c in svcs {
            self.note_service_teardown(owner, c);
        }
        let chans: Vec<Uuid> = self.board.borrow().chans.iter().filter(|(_, i)| i.parties.contains(&owner)).map(|(c, _)| *c).collect();
        for c in chans {
            self.note_end_teardown(owner, c, true);
        }
    }

    fn note_end_teardown(&self, ci: usize, cookie: Uuid, active: bool) {
        let b = self.board.borrow();
        let Some(info) = b.chans.get(&cookie) else { return };
        let cross = info.parties.iter().any(|p| *p != ci);
        let inflight = active && (info.parties.len() >= 2 || info.claim_inflight || info.bound);
        drop(b);
        if inflight {
            self.count("drop-with-inflight");
            if cross {
                self.count("cross-client-race");
            }
        }
    }
}

fn err_name(e: &Error) -> String {
    format!("{:?}", e)
}

/// Runs one application task.
pub async fn run_task(w: Rc<World>, t: Rc<TaskCtx>, ops: Vec<Op>) {
    let cc = w.clients[t.client].clone();
    for (i, op) in ops.iter().enumerate() {
        t.cur.set(i);
        let unbound_len = {
            let b = w.board.borrow();
            [b.unbound[0].len(), b.unbound[1].len()]
        };
        let scopes_len = w.board.borrow().scopes.len();
        let prod = produces(t.client, op, &unbound_len, scopes_len);
        for key in &prod {
            w.res_failed.borrow_mut().remove(key);
        }
        let res = exec(&w, &t, &cc, op).await;
        if res != "Ok" && res != "bound" && res != "unbound" {
            // the producer did not deliver: whoever waits for its product gives up
            let mut f = w.res_failed.borrow_mut();
            for key in &prod {
                f.insert(*key);
            }
        }
        w.wake_res_waiters();
        w.log(format!("t{} c{} #{} {:?} -> {}", t.id, t.client, i, op, res));
    }
    t.cur.set(ops.len());
    t.done.set(true);
}

const SKIP: &str = "skipped";

fn skip(w: &World) -> String {
    w.count("op:skipped");
    SKIP.to_string()
}

/// Reply check of C06: the value is the one computed for that very call.
fn check_reply(w: &World, nonce: u64, r: &Result<aldrin::low_level::Reply, Error>) -> String {
    match r {
        Ok(reply) => match reply.deserialize::<u64, u64>() {
            Ok(Ok(v)) => {
                if v != g(nonce) {
                    w.fail("call-reply:wrong-value", format!("call with nonce {} returned Ok({}) but g(nonce) = {}", nonce, v, g(nonce)));
                }
                w.count("call:ok");
                "Ok(value)".into()
            }
            Ok(Err(v)) => {
                if v != h(nonce) {
                    w.fail("call-reply:wrong-value", format!("call with nonce {} returned Err({}) but h(nonce) = {}", nonce, v, h(nonce)));
                }
                w.count("call:err");
                "Err(value)".into()
            }
            Err(e) => {
                w.fail("call-reply:undecodable", format!("reply of call {} does not decode: {:?}", nonce, e));
                "undecodable".into()
            }
        },
        Err(e) => {
            w.count("call:failed");
            err_name(e)
        }
    }
}

async fn await_reply(w: &World, t: &TaskCtx, reply: PendingReply, nonce: u64, cookie: Uuid) -> String {
    let r = t.block(Class::Request, "call", Some((cookie, nonce)), None, reply).await;
    w.board.borrow_mut().inflight.remove(&nonce);
    check_reply(w, nonce, &r)
}

fn res_name<T>(r: &Result<T, Error>) -> String {
    match r {
        Ok(_) => "Ok".into(),
        Err(e) => err_name(e),
    }
}

/// F2 exclusion: may the creator's claimed end of this channel be torn down now?
fn may_kill_creator_end(w: &World, cookie: Uuid) -> bool {
    if w.allow_refused_claims {
        return true;
    }
    match w.board.borrow().chans.get(&cookie) {
        Some(i) => !i.claim_inflight,
        None => true,
    }
}

fn creator_end_killed(w: &World, ci: usize, cookie: Uuid, end: End) {
    if let Some(i) = w.board.borrow_mut().chans.get_mut(&cookie) {
        if i.creator == ci && i.creator_end == end {
            i.creator_alive = false;
        }
    }
}

/// F2 exclusion for operations that end the whole client.
fn may_stop_client(w: &World, ci: usize) -> bool {
    if w.allow_refused_claims {
        return true;
    }
    !w.board.borrow().chans.values().any(|i| i.creator == ci && i.claim_inflight)
}

async fn exec(w: &Rc<World>, t: &Rc<TaskCtx>, cc: &Rc<ClientCtx>, op: &Op) -> String {
    let ci = cc.idx;
    match op {
        Op::Barrier => {
            let seen = w.gate.phase();
            t.block(Class::Gate, "barrier", None, None, w.gate.wait_after(seen)).await;
            "opened".into()
        }
        Op::WaitFor(res) => {
            let res = *res;
            let r = t
                .block(Class::Operand, "wait_for_operand", None, None, std::future::poll_fn(|cx| {
                    if let Some(present) = w.res_state(ci, res) {
                        return Poll::Ready(if present { "present" } else { "producer-failed" });
                    }
                    if w.cancel_waits.get() {
                        return Poll::Ready("cancelled");
                    }
                    w.res_wakers.borrow_mut().push(cx.waker().clone());
                    Poll::Pending
                }))
                .await;
            if r != "present" {
                w.count("wait:gave-up");
            }
            r.into()
        }
        Op::Yield(n) => {
            for _ in 0..*n {
                yield_now().await;
            }
            "ok".into()
        }
        Op::SyncClient => {
            let Some(h) = cc.h() else { return skip(w) };
            let dirty_before = cc.abort_dirty.replace(false);
            let r = t.req("sync_client", h.sync_client()).await;
            if r.is_err() && dirty_before {
                cc.abort_dirty.set(true);
            }
            res_name(&r)
        }
        Op::SyncBroker => {
            let Some(h) = cc.h() else { return skip(w) };
            let t0 = w.now();
            let r = t.req("sync_broker", h.sync_broker()).await;
            if r.is_ok() {
                w.hist_synced(ci, t0);
            }
            res_name(&r)
        }
        Op::CloneHandle => {
            let Some(h) = cc.h() else { return skip(w) };
            cc.extra.borrow_mut().push((*h).clone());
            "ok".into()
        }
        Op::DropExtraHandle => {
            let h = cc.extra.borrow_mut().pop();
            match h {
                Some(h) => {
                    drop(h);
                    "ok".into()
                }
                None => skip(w),
            }
        }
        Op::Shutdown => {
            let Some(h) = cc.h() else { return skip(w) };
            if !may_stop_client(w, ci) {
                w.count("excluded:f2");
                return "excluded:f2".into();
            }
            if w.broker_shutdown_requested.get() && !cc.stopped.get() {
                if !w.allow_client_vs_broker_shutdown {
                    w.count("excluded:f9");
                    return "excluded:f9".into();
                }
                w.count("client-shutdown-races-broker-shutdown");
            }
            if cc.abort_dirty.get() {
                if w.allow_late_abort {
                    // a reply was dropped just before: the client may meet the abort while it
                    // is already shutting down (F5 trigger)
                    w.count("late-abort");
                } else {
                    // F5 exclusion: let the client process the abort first
                    w.count("excluded:f5");
                    cc.abort_dirty.set(false);
                    let _ = t.req("sync_client", h.sync_client()).await;
                    if cc.abort_dirty.get() || cc.shutdown_requested.get() {
                        return "excluded:f5".into();
                    }
                }
            }
            w.note_client_teardown(ci);
            cc.shutdown_requested.set(true);
            cc.self_shutdown.set(true);
            h.shutdown();
            w.count("op:shutdown-mid-program");
            "ok".into()
        }

        Op::BrokerShutdown => {
            if w.broker_shutdown_requested.get() {
                return skip(w);
            }
            let bh = w.broker.borrow().clone();
            let Some(mut bh) = bh else { return skip(w) };
            if !w.allow_broker_shutdown_in_flight {
                w.count("excluded:f7");
                return "excluded:f7".into();
            }
            if !w.allow_client_vs_broker_shutdown && w.clients.iter().any(|c| c.shutdown_requested.get() && !c.stopped.get()) {
                w.count("excluded:f9");
                return "excluded:f9".into();
            }
            w.broker_shutdown_requested.set(true);
            let in_flight = w.tasks.borrow().iter().filter(|x| matches!(&*x.blocked.borrow(), Some(b) if b.class == Class::Request)).count();
            if in_flight > 0 {
                w.count("broker-shutdown-in-flight");
            }
            if w.clients.iter().any(|c| c.shutdown_requested.get() && !c.stopped.get()) {
                w.count("client-shutdown-races-broker-shutdown");
            }
            for c in w.clients.iter() {
                w.note_client_teardown(c.idx);
                c.shutdown_requested.set(true);
            }
            t.block(Class::Request, "broker_shutdown", None, None, bh.shutdown()).await;
            w.count("op:broker-shutdown");
            "ok".into()
        }

        Op::CreateObject { o, u } => {
            let Some(h) = cc.h() else { return skip(w) };
            let t0 = w.now();
            let r = t.req("create_object", h.create_object(obj_uuid(*u))).await;
            let s = res_name(&r);
            if let Ok(obj) = r {
                let cookie_of_obj = obj.id().cookie.0;
                {
                    let mut hist = w.hist.borrow_mut();
                    let t1 = hist.tick();
                    hist.objs.insert(obj.id().cookie.0, Life { owner: ci, start: t0, acked: t1, teardown_start: None, teardown_end: None });
                    hist.obj_ids.push(obj.id());
                }
                w.bus_mutation(ci);
                if let Some(old) = cc.objs[*o as usize].put(Tracked::new(obj, cookie_of_obj, w)) {
                    w.note_object_teardown(ci, old.id().cookie.0);
                    drop(old);
                }
            }
            s
        }
        Op::DestroyObject { o } => {
            let Some(obj) = cc.objs[*o as usize].get() else { return skip(w) };
            w.note_object_teardown(ci, obj.id().cookie.0);
            w.hist_teardown_start_obj(obj.id().cookie.0);
            let r = t.req("destroy_object", obj.destroy()).await;
            if matches!(r, Ok(()) | Err(Error::InvalidObject)) {
                w.board.borrow_mut().destroyed_objs.insert(obj.id().cookie.0);
                w.bus_mutation(ci);
                w.hist_teardown_end_obj(obj.id().cookie.0);
            }
            res_name(&r)
        }
        Op::DropObject { o } => match cc.objs[*o as usize].take() {
            Some(obj) => {
                w.note_object_teardown(ci, obj.id().cookie.0);
                w.bus_mutation(ci);
                drop(obj);
                "dropped".into()
            }
            None => skip(w),
        },
        Op::CreateService { o, s, u, ver } => {
            let Some(obj) = cc.objs[*o as usize].get() else { return skip(w) };
            let t0 = w.now();
            let r = t.req("create_service", obj.create_service(svc_uuid(*u), ServiceInfo::new(*ver as u32))).await;
            let txt = res_name(&r);
            if let Ok(svc) = r {
                let id = svc.id();
                {
                    let mut hist = w.hist.borrow_mut();
                    let t1 = hist.tick();
                    hist.svcs.insert(id.cookie.0, Life { owner: ci, start: t0, acked: t1, teardown_start: None, teardown_end: None });
                    hist.svc_ids.insert(id.cookie.0, id);
                }
                {
                    let mut b = w.board.borrow_mut();
                    b.services.insert((ci, *s), id);
                    b.svc_owner.insert(id.cookie.0, (ci, id.object_id.cookie.0));
                    b.bus_mutators.insert(ci);
                }
                if let Some(old) = cc.svcs[*s as usize].put(svc) {
                    w.note_service_teardown(ci, old.id().cookie.0);
                    w.hist_teardown_start_svc(old.id().cookie.0);
                    drop(old);
                }
            }
            txt
        }
        Op::DestroyService { s } => {
            let Some(svc) = cc.svcs[*s as usize].take() else { return skip(w) };
            let cookie = svc.id().cookie.0;
            w.note_service_teardown(ci, cookie);
            w.hist_teardown_start_svc(cookie);
            let r = t.req("destroy_service", svc.destroy()).await;
            if matches!(r, Ok(()) | Err(Error::InvalidService)) {
                w.board.borrow_mut().destroyed_svcs.insert(cookie);
                w.bus_mutation(ci);
                w.hist_teardown_end_svc(cookie);
            }
            drop(cc.svcs[*s as usize].put_back(svc));
            res_name(&r)
        }
        Op::DropService { s } => match cc.svcs[*s as usize].take() {
            Some(svc) => {
                w.note_service_teardown(ci, svc.id().cookie.0);
                w.hist_teardown_start_svc(svc.id().cookie.0);
                w.bus_mutation(ci);
                drop(svc);
                "dropped".into()
            }
            None => skip(w),
        },
        Op::Serve { s, n, script } => {
            let slot = &cc.svcs[*s as usize];
            if !slot.is_some() {
                return skip(w);
            }
            let mut served: u32 = 0;
            loop {
                if *n > 0 && served >= *n as u32 {
                    break;
                }
                let r = t.block(Class::Stream, "next_call", None, Some(*s), slot_op(slot, |svc, cx| svc.poll_next_call(cx))).await;
                let Some(Some(call)) = r else { break };
                let nonce = match call.deserialize::<u64>() {
                    Ok(n) => n,
                    Err(_) => {
                        let _ = call.invalid_args();
                        continue;
                    }
                };
                let digit = (script >> (3 * (served % 8))) & 7;
                match digit {
                    0..=3 => {
                        let _ = call.ok(g(nonce));
                    }
                    4 => {
                        let _ = call.err(h(nonce));
                    }
                    5 => {
                        let _ = call.abort();
                    }
                    6 => drop(call),
                    _ => {
                        w.count("promise-held");
                        cc.held.borrow_mut().push_back((call.into_promise(), nonce));
                    }
                }
                served += 1;
                w.count("call:served");
            }
            format!("served {}", served)
        }
        Op::ReleaseHeld { ok } => {
            let p = cc.held.borrow_mut().pop_front();
            match p {
                Some((promise, nonce)) => {
                    if *ok {
                        let _ = promise.ok(g(nonce));
                    } else {
                        drop(promise);
                    }
                    "released".into()
                }
                None => skip(w),
            }
        }
        Op::AwaitAborted => {
            // a callee that holds a call's promise waits for the caller to abort it; resolves when
            // the caller aborts (>= 1.16 on both sides) or when the callee's client stops
            let p = cc.held.borrow_mut().pop_front();
            match p {
                Some((promise, nonce)) => {
                    cc.awaiting_aborted.borrow_mut().push(nonce);
                    w.count("promise:aborted-awaited");
                    let slot: Slot<Promise> = Slot::new();
                    drop(slot.put(promise));
                    cc.aborted_slots.borrow_mut().push(slot.clone());
                    let r = t.stream_aux("promise_aborted", Aux::Aborted(nonce), slot_op(&slot, |p, cx| p.poll_aborted(cx))).await;
                    cc.awaiting_aborted.borrow_mut().retain(|n| *n != nonce);
                    let promise = slot.take();
                    if r.is_none() {
                        // the application let go of the promise while waiting
                        return "promise dropped".into();
                    }
                    if let Some(mut promise) = promise {
                        let ab = promise.is_aborted();
                        drop(promise);
                        if !ab {
                            w.fail("promise:aborted-resolved-but-is_aborted-false", format!("Promise::aborted() of call {} resolved but is_aborted() says false", nonce));
                        }
                    }
                    w.count("promise:aborted-resolved");
                    "aborted seen".into()
                }
                None => skip(w),
            }
        }
        Op::Emit { s, ev } => {
            let nonce = w.next_nonce();
            match cc.svcs[*s as usize].with(|svc| (svc.emit(EVENTS[*ev as usize], nonce), svc.id().cookie.0)) {
                Some((r, cookie)) => {
                    if r.is_ok() {
                        w.board.borrow_mut().emitted.insert(nonce, (cookie, EVENTS[*ev as usize]));
                    }
                    res_name(&r)
                }
                None => skip(w),
            }
        }

        Op::CreateProxy { p, c, s } => {
            let Some(h) = cc.h() else { return skip(w) };
            let id = w.board.borrow().services.get(&(*c as usize, *s)).copied();
            let Some(id) = id else { return skip(w) };
            let r = t.req("create_proxy", h.create_proxy(id)).await;
            let txt = res_name(&r);
            if let Ok(px) = r {
                if *c as usize != ci {
                    w.count("cross-client-proxy");
                }
                w.board.borrow_mut().subscribed.remove(&(ci, *p));
                drop(cc.proxies[*p as usize].put(px));
            }
            txt
        }
        Op::DropProxy { p } => match cc.proxies[*p as usize].take() {
            Some(px) => {
                let cookie = px.id().cookie.0;
                let (sub, owner, inflight) = {
                    let mut b = w.board.borrow_mut();
                    let sub = b.subscribed.remove(&(ci, *p)).is_some();
                    let owner = b.svc_owner.get(&cookie).map(|x| x.0);
                    let inflight = b.inflight.values().any(|(svc, caller)| *svc == cookie && *caller == ci);
                    (sub, owner, inflight)
                };
                if sub || inflight {
                    w.count("drop-with-inflight");
                    if owner.is_some() && owner != Some(ci) {
                        w.count("cross-client-race");
                    }
                }
                drop(px);
                "dropped".into()
            }
            None => skip(w),
        },
        Op::Call { p, f, mode } => {
            let nonce = w.next_nonce();
            let r = cc.proxies[*p as usize].with(|px| (px.call(*f as u32, nonce, None), px.id().cookie.0));
            let Some((reply, cookie)) = r else { return skip(w) };
            w.board.borrow_mut().inflight.insert(nonce, (cookie, ci));
            w.count("call:issued");
            match mode {
                CallMode::Await => await_reply(w, t, reply, nonce, cookie).await,
                CallMode::Abort => {
                    cc.abort_dirty.set(true);
                    drop(reply);
                    w.board.borrow_mut().inflight.remove(&nonce);
                    w.board.borrow_mut().aborted_by_caller.insert(nonce, (ci, cookie));
                    w.count("call:aborted-by-drop");
                    "aborted".into()
                }
                CallMode::Stash => {
                    cc.stash.borrow_mut().push_back((reply, nonce, cookie));
                    "stashed".into()
                }
            }
        }
        Op::AwaitReply => {
            let x = cc.stash.borrow_mut().pop_front();
            match x {
                Some((reply, nonce, cookie)) => await_reply(w, t, reply, nonce, cookie).await,
                None => skip(w),
            }
        }
        Op::DropReply => {
            if cc.shutdown_requested.get() && !cc.stash.borrow().is_empty() {
                if !w.allow_late_abort {
                    w.count("excluded:f5");
                    return "excluded:f5".into();
                }
                w.count("late-abort");
            }
            let x = cc.stash.borrow_mut().pop_front();
            match x {
                Some((reply, nonce, cookie)) => {
                    cc.abort_dirty.set(true);
                    drop(reply);
                    w.board.borrow_mut().inflight.remove(&nonce);
                    w.board.borrow_mut().aborted_by_caller.insert(nonce, (ci, cookie));
                    w.count("call:aborted-by-drop");
                    "aborted".into()
                }
                None => skip(w),
            }
        }
        Op::Subscribe { p, ev } => {
            let Some(px) = cc.proxies[*p as usize].take() else { return skip(w) };
            let r = t.req("subscribe", px.subscribe(EVENTS[*ev as usize])).await;
            if r.is_ok() {
                w.board.borrow_mut().subscribed.insert((ci, *p), px.id().cookie.0);
            }
            drop(cc.proxies[*p as usize].put_back(px));
            res_name(&r)
        }
        Op::Unsubscribe { p, ev } => {
            let Some(px) = cc.proxies[*p as usize].take() else { return skip(w) };
            let r = t.req("unsubscribe", px.unsubscribe(EVENTS[*ev as usize])).await;
            drop(cc.proxies[*p as usize].put_back(px));
            res_name(&r)
        }
        Op::SubscribeAll { p } => {
            let Some(px) = cc.proxies[*p as usize].take() else { return skip(w) };
            let r = t.req("subscribe_all", px.subscribe_all()).await;
            if r.is_ok() {
                w.board.borrow_mut().subscribed.insert((ci, *p), px.id().cookie.0);
            }
            drop(cc.proxies[*p as usize].put_back(px));
            res_name(&r)
        }
        Op::UnsubscribeAll { p } => {
            let Some(px) = cc.proxies[*p as usize].take() else { return skip(w) };
            let r = t.req("unsubscribe_all", px.unsubscribe_all()).await;
            if r.is_ok() {
                w.board.borrow_mut().subscribed.remove(&(ci, *p));
            }
            drop(cc.proxies[*p as usize].put_back(px));
            res_name(&r)
        }
        Op::NextEvent { p, n, wait } => {
            let slot = &cc.proxies[*p as usize];
            if !slot.is_some() {
                return skip(w);
            }
            let mut got = 0;
            for _ in 0..*n {
                let r = t
                    .stream("next_event", slot_op(slot, |px, cx| match px.poll_next_event(cx) {
                        Poll::Pending if !*wait => Poll::Ready(None),
                        Poll::Pending => Poll::Pending,
                        Poll::Ready(x) => Poll::Ready(x),
                    }))
                    .await;
                match r {
                    Some(Some(ev)) => {
                        got += 1;
                        w.count("event:received");
                        // payload unchanged, exactly once and in emission order per proxy: the
                        // value is the nonce of an emit of this very service and event id, and the
                        // nonces one proxy returns grow strictly (a service's emits are ordered)
                        let cookie = slot.with(|px| px.id().cookie.0);
                        match (ev.deserialize::<u64>(), cookie) {
                            (Ok(nonce), Some(cookie)) => {
                                let known = w.board.borrow().emitted.get(&nonce).copied();
                                if known != Some((cookie, ev.id())) {
                                    w.fail("event:not-what-was-emitted", format!("proxy of service {} returned event id {} with value {} but the emit with that value was {:?}", cookie, ev.id(), nonce, known));
                                }
                                let key = (ci, *p, slot.generation());
                                let prev = w.board.borrow_mut().last_event.insert(key, nonce);
                                if let Some(prev) = prev {
                                    if prev >= nonce {
                                        w.fail("event:duplicated-or-out-of-order", format!("proxy of service {} returned the event with value {} after the one with value {}", cookie, nonce, prev));
                                    } else {
                                        w.count("event:order-checked");
                                    }
                                }
                            }
                            (Err(e), _) => w.fail("event:undecodable", format!("event payload does not decode: {:?}", e)),
                            _ => {}
                        }
                    }
                    _ => break,
                }
            }
            format!("{} events", got)
        }

        Op::CreateChannel { ch, claim, cap } => {
            let Some(h) = cc.h() else { return skip(w) };
            // the slots are overwritten: the previous ends are dropped
            for (slot_cookie, end) in [(cc.snd[*ch as usize].with(|e| e.cookie().0), End::Snd), (cc.rcv[*ch as usize].with(|e| e.cookie().0), End::Rcv)] {
                if let Some(c) = slot_cookie {
                    if !may_kill_creator_end(w, c) {
                        w.count("excluded:f2");
                        return "excluded:f2".into();
                    }
                    let _ = end;
                }
            }
            match claim {
                End::Snd => {
                    let r = t.req("create_channel", h.create_low_level_channel().claim_sender()).await;
                    let txt = res_name(&r);
                    if let Ok((snd, rcv)) = r {
                        let cookie = snd.cookie().0;
                        w.board.borrow_mut().chans.insert(cookie, ChanInfo { creator: ci, creator_end: End::Snd, creator_alive: true, bound: false, claim_inflight: false, claim_ok: false, binds: 0, rcv_cap: 0, claim_attempts: 0, parties: [ci].into_iter().collect() });
                        replace_end_snd(w, cc, *ch, Some(SndEnd::Pending(snd)));
                        replace_end_rcv(w, cc, *ch, Some(RcvEnd::Unclaimed(rcv)));
                    }
                    txt
                }
                End::Rcv => {
                    let r = t.req("create_channel", h.create_low_level_channel().claim_receiver(CAPS[*cap as usize])).await;
                    let txt = res_name(&r);
                    if let Ok((snd, rcv)) = r {
                        let cookie = snd.cookie().0;
                        w.board.borrow_mut().chans.insert(cookie, ChanInfo { creator: ci, creator_end: End::Rcv, creator_alive: true, bound: false, claim_inflight: false, claim_ok: false, binds: 0, rcv_cap: CAPS[*cap as usize], claim_attempts: 0, parties: [ci].into_iter().collect() });
                        replace_end_snd(w, cc, *ch, Some(SndEnd::Unclaimed(snd)));
                        replace_end_rcv(w, cc, *ch, Some(RcvEnd::Pending(rcv)));
                    }
                    txt
                }
            }
        }
        Op::Unbind { ch, end } => match end {
            End::Snd => match cc.snd[*ch as usize].take() {
                Some(SndEnd::Unclaimed(u)) => {
                    let ub: UnboundSender = u.unbind();
                    w.board.borrow_mut().unbound[0].push(Some(ub.cookie()));
                    "unbound".into()
                }
                Some(other) => {
                    drop(cc.snd[*ch as usize].put_back(other));
                    w.board.borrow_mut().unbound[0].push(None);
                    skip(w)
                }
                None => {
                    w.board.borrow_mut().unbound[0].push(None);
                    skip(w)
                }
            },
            End::Rcv => match cc.rcv[*ch as usize].take() {
                Some(RcvEnd::Unclaimed(u)) => {
                    let ub: UnboundReceiver = u.unbind();
                    w.board.borrow_mut().unbound[1].push(Some(ub.cookie()));
                    "unbound".into()
                }
                Some(other) => {
                    drop(cc.rcv[*ch as usize].put_back(other));
                    w.board.borrow_mut().unbound[1].push(None);
                    skip(w)
                }
                None => {
                    w.board.borrow_mut().unbound[1].push(None);
                    skip(w)
                }
            },
        },
        Op::Bind { ch, end, k } => {
            let Some(h) = cc.h() else { return skip(w) };
            let cookie = w.board.borrow().unbound[*end as usize].get(*k as usize).copied().flatten();
            let Some(cookie) = cookie else { return skip(w) };
            let already_bound = w.board.borrow().chans.get(&cookie.0).map(|i| i.bound).unwrap_or(false);
            if already_bound {
                if !w.allow_refused_claims {
                    w.count("excluded:f2");
                    return "excluded:f2".into();
                }
                w.count("two-claimants");
            }
            if let Some(i) = w.board.borrow_mut().chans.get_mut(&cookie.0) {
                i.bound = true;
                i.binds += 1;
            }
            // the slot is overwritten: the previous end is dropped
            let old_cookie = match end {
                End::Snd => cc.snd[*ch as usize].with(|e| e.cookie().0),
                End::Rcv => cc.rcv[*ch as usize].with(|e| e.cookie().0),
            };
            if let Some(c) = old_cookie {
                if !may_kill_creator_end(w, c) {
                    w.count("excluded:f2");
                    return "excluded:f2".into();
                }
            }
            if let Some(i) = w.board.borrow_mut().chans.get_mut(&cookie.0) {
                i.parties.insert(ci);
                if i.creator != ci {
                    w.count("cross-client-channel");
                }
            }
            match end {
                End::Snd => replace_end_snd(w, cc, *ch, Some(SndEnd::Unclaimed(UnboundSender::new(cookie).bind((*h).clone())))),
                End::Rcv => replace_end_rcv(w, cc, *ch, Some(RcvEnd::Unclaimed(UnboundReceiver::new(cookie).bind((*h).clone())))),
            }
            "bound".into()
        }
        Op::Claim { ch, end, cap } => {
            let cookie = match end {
                End::Snd => cc.snd[*ch as usize].with(|e| (matches!(e, SndEnd::Unclaimed(_)), e.cookie().0)),
                End::Rcv => cc.rcv[*ch as usize].with(|e| (matches!(e, RcvEnd::Unclaimed(_)), e.cookie().0)),
            };
            let Some((true, cookie)) = cookie else { return skip(w) };
            {
                let mut b = w.board.borrow_mut();
                let creator_stopped = b.chans.get(&cookie).map(|i| w.clients[i.creator].shutdown_requested.get()).unwrap_or(false);
                if let Some(i) = b.chans.get_mut(&cookie) {
                    if !w.allow_refused_claims && (!i.creator_alive || i.claim_attempts > 0 || creator_stopped) {
                        drop(b);
                        w.count("excluded:f2");
                        return "excluded:f2".into();
                    }
                    i.claim_attempts += 1;
                    i.claim_inflight = true;
                }
            }
            let txt = match end {
                End::Snd => {
                    let Some(SndEnd::Unclaimed(u)) = cc.snd[*ch as usize].take() else { return skip(w) };
                    let r = t.req("claim_sender", u.claim()).await;
                    let txt = res_name(&r);
                    match r {
                        Ok(s) => {
                            if let Some(i) = w.board.borrow_mut().chans.get_mut(&cookie) {
                                i.claim_ok = true;
                            }
                            drop(cc.snd[*ch as usize].put_back(SndEnd::Est(s)))
                        }
                        Err(_) => w.count("claim-refused"),
                    }
                    txt
                }
                End::Rcv => {
                    let Some(RcvEnd::Unclaimed(u)) = cc.rcv[*ch as usize].take() else { return skip(w) };
                    let r = t.req("claim_receiver", u.claim(CAPS[*cap as usize])).await;
                    let txt = res_name(&r);
                    match r {
                        Ok(s) => {
                            if let Some(i) = w.board.borrow_mut().chans.get_mut(&cookie) {
                                i.claim_ok = true;
                                i.rcv_cap = CAPS[*cap as usize];
                            }
                            drop(cc.rcv[*ch as usize].put_back(RcvEnd::Est(s)))
                        }
                        Err(_) => w.count("claim-refused"),
                    }
                    txt
                }
            };
            if let Some(i) = w.board.borrow_mut().chans.get_mut(&cookie) {
                i.claim_inflight = false;
            }
            txt
        }
        Op::ClaimCancel { ch, end, cap, polls } => {
            let cookie = match end {
                End::Snd => cc.snd[*ch as usize].with(|e| (matches!(e, SndEnd::Unclaimed(_)), e.cookie().0)),
                End::Rcv => cc.rcv[*ch as usize].with(|e| (matches!(e, RcvEnd::Unclaimed(_)), e.cookie().0)),
            };
            let Some((true, cookie)) = cookie else { return skip(w) };
            if !w.allow_refused_claims {
                w.count("excluded:f2");
                return "excluded:f2".into();
            }
            if !w.allow_claim_cancel {
                w.count("excluded:f8");
                return "excluded:f8".into();
            }
            if let Some(i) = w.board.borrow_mut().chans.get_mut(&cookie) {
                i.claim_attempts += 1;
            }
            // poll the claim a few times, then drop the future (and with it the channel end)
            async fn poll_some<F: Future>(fut: F, polls: u8) -> Option<F::Output> {
                let mut fut = Box::pin(fut);
                let mut n = 0;
                std::future::poll_fn(move |cx| match fut.as_mut().poll(cx) {
                    Poll::Ready(v) => Poll::Ready(Some(v)),
                    Poll::Pending => {
                        if n >= polls {
                            Poll::Ready(None)
                        } else {
                            n += 1;
                            cx.waker().wake_by_ref();
                            Poll::Pending
                        }
                    }
                })
                .await
            }
            let done = match end {
                End::Snd => {
                    let Some(SndEnd::Unclaimed(u)) = cc.snd[*ch as usize].take() else { return skip(w) };
                    match t.req("claim_sender(cancelled)", poll_some(u.claim(), *polls)).await {
                        Some(Ok(s)) => {
                            if let Some(i) = w.board.borrow_mut().chans.get_mut(&cookie) {
                                i.claim_ok = true;
                            }
                            drop(cc.snd[*ch as usize].put_back(SndEnd::Est(s)));
                            Some("Ok".to_string())
                        }
                        Some(Err(e)) => {
                            w.count("claim-refused");
                            Some(err_name(&e))
                        }
                        None => None,
                    }
                }
                End::Rcv => {
                    let Some(RcvEnd::Unclaimed(u)) = cc.rcv[*ch as usize].take() else { return skip(w) };
                    match t.req("claim_receiver(cancelled)", poll_some(u.claim(CAPS[*cap as usize]), *polls)).await {
                        Some(Ok(s)) => {
                            if let Some(i) = w.board.borrow_mut().chans.get_mut(&cookie) {
                                i.claim_ok = true;
                            }
                            drop(cc.rcv[*ch as usize].put_back(RcvEnd::Est(s)));
                            Some("Ok".to_string())
                        }
                        Some(Err(e)) => {
                            w.count("claim-refused");
                            Some(err_name(&e))
                        }
                        None => None,
                    }
                }
            };
            match done {
                Some(txt) => txt,
                None => {
                    w.count("claim-cancelled");
                    w.note_end_teardown(ci, cookie, true);
                    "cancelled".into()
                }
            }
        }
        Op::Establish { ch, end } => match end {
            End::Snd => {
                let slot = &cc.snd[*ch as usize];
                let r = t
                    .stream_aux("establish", Aux::Establish(End::Snd, *ch), slot_op(slot, |e, cx| match e {
                        SndEnd::Pending(p) => p.poll_wait_established(cx).map(|_| true),
                        _ => Poll::Ready(false),
                    }))
                    .await;
                if r != Some(true) {
                    return skip(w);
                }
                match slot.take() {
                    Some(SndEnd::Pending(p)) => {
                        let cookie = p.cookie().0;
                        let r = t.req("establish", p.establish()).await;
                        let txt = res_name(&r);
                        match r {
                            Ok(s) => drop(slot.put_back(SndEnd::Est(s))),
                            Err(_) => creator_end_killed(w, ci, cookie, End::Snd),
                        }
                        txt
                    }
                    Some(other) => {
                        drop(slot.put_back(other));
                        skip(w)
                    }
                    None => skip(w),
                }
            }
            End::Rcv => {
                let slot = &cc.rcv[*ch as usize];
                let r = t
                    .stream_aux("establish", Aux::Establish(End::Rcv, *ch), slot_op(slot, |e, cx| match e {
                        RcvEnd::Pending(p) => p.poll_wait_established(cx).map(|_| true),
                        _ => Poll::Ready(false),
                    }))
                    .await;
                if r != Some(true) {
                    return skip(w);
                }
                match slot.take() {
                    Some(RcvEnd::Pending(p)) => {
                        let cookie = p.cookie().0;
                        let r = t.req("establish", p.establish()).await;
                        let txt = res_name(&r);
                        match r {
                            Ok(s) => drop(slot.put_back(RcvEnd::Est(s))),
                            Err(_) => creator_end_killed(w, ci, cookie, End::Rcv),
                        }
                        txt
                    }
                    Some(other) => {
                        drop(slot.put_back(other));
                        skip(w)
                    }
                    None => skip(w),
                }
            }
        },
        Op::Send { ch, n } | Op::SendWatch { ch, n } => {
            let watch = matches!(op, Op::SendWatch { .. });
            let slot = &cc.snd[*ch as usize];
            if !slot.is_some() {
                return skip(w);
            }
            let mut sent = 0;
            for _ in 0..*n {
                if watch {
                    // one poll of receiver_closed(), as a select! loop would do, then on to sending
                    let closed = std::future::poll_fn(|cx| {
                        Poll::Ready(slot.with(|e| match e {
                            SndEnd::Est(s) => s.poll_receiver_closed(cx).is_ready(),
                            _ => false,
                        }))
                    })
                    .await;
                    w.count("chan:receiver-closed-polled");
                    if closed == Some(true) {
                        break;
                    }
                }
                let r = t
                    .stream_aux("send_ready", Aux::SendReady(*ch), slot_op(slot, |e, cx| match e {
                        SndEnd::Est(s) => s.poll_send_ready(cx).map(Some),
                        _ => Poll::Ready(None),
                    }))
                    .await;
                match r {
                    Some(Some(Ok(()))) => {
                        let nonce = w.next_nonce();
                        let r = slot.with(|e| match e {
                            SndEnd::Est(s) => (s.start_send_item(nonce).is_ok(), s.cookie().0),
                            _ => (false, Uuid::nil()),
                        });
                        if let Some((true, c)) = r {
                            sent += 1;
                            w.count("item:sent");
                            let mut b = w.board.borrow_mut();
                            *b.sent.entry(c).or_insert(0) += 1;
                            b.sent_vals.entry(c).or_default().push(nonce);
                            b.senders_of.entry(c).or_default().insert(ci);
                        } else {
                            break;
                        }
                    }
                    _ => break,
                }
            }
            format!("{} sent", sent)
        }
        Op::Recv { ch, n, wait } => {
            let slot = &cc.rcv[*ch as usize];
            if !slot.is_some() {
                return skip(w);
            }
            let mut got = 0;
            for _ in 0..*n {
                let r = t
                    .stream_aux("next_item", Aux::NextItem(*ch), slot_op(slot, |e, cx| match e {
                        RcvEnd::Est(r) => match r.poll_next_item::<u64>(cx) {
                            Poll::Pending if !*wait => Poll::Ready(None),
                            Poll::Pending => Poll::Pending,
                            Poll::Ready(x) => Poll::Ready(Some(x)),
                        },
                        _ => Poll::Ready(None),
                    }))
                    .await;
                match r {
                    Some(Some(Ok(Some(v)))) => {
                        got += 1;
                        w.count("item:received");
                        if let Some(c) = slot.with(|e| e.cookie().0) {
                            // in order, exactly once: the k-th item the receiver returns is the
                            // k-th item the sender's start_send_item accepted
                            let (k, want) = {
                                let mut b = w.board.borrow_mut();
                                let k = *b.received.get(&c).unwrap_or(&0);
                                *b.received.entry(c).or_insert(0) += 1;
                                (k, b.sent_vals.get(&c).and_then(|l| l.get(k as usize).copied()))
                            };
                            if want != Some(v) {
                                w.fail(
                                    "channel-item:out-of-order-or-duplicated",
                                    format!("item #{} returned by next_item on channel {} is {} but item #{} accepted by start_send_item was {:?}", k, c, v, k, want),
                                );
                            } else if k >= 1 {
                                w.count("item:order-checked>=2");
                            }
                        }
                    }
                    _ => break,
                }
            }
            format!("{} received", got)
        }
        Op::CloseEnd { ch, end } => {
            let cookie = match end {
                End::Snd => cc.snd[*ch as usize].with(|e| e.cookie().0),
                End::Rcv => cc.rcv[*ch as usize].with(|e| e.cookie().0),
            };
            let Some(cookie) = cookie else { return skip(w) };
            if !may_kill_creator_end(w, cookie) {
                w.count("excluded:f2");
                return "excluded:f2".into();
            }
            creator_end_killed(w, ci, cookie, *end);
            match end {
                End::Snd => {
                    let Some(mut e) = cc.snd[*ch as usize].take() else { return skip(w) };
                    w.note_end_teardown(ci, cookie, !matches!(e, SndEnd::Unclaimed(_)));
                    let r = match &mut e {
                        SndEnd::Unclaimed(x) => t.req("close", x.close()).await,
                        SndEnd::Pending(x) => t.req("close", x.close()).await,
                        SndEnd::Est(x) => t.req("close", x.close()).await,
                    };
                    drop(cc.snd[*ch as usize].put_back(e));
                    res_name(&r)
                }
                End::Rcv => {
                    let Some(mut e) = cc.rcv[*ch as usize].take() else { return skip(w) };
                    w.note_end_teardown(ci, cookie, !matches!(e, RcvEnd::Unclaimed(_)));
                    let r = match &mut e {
                        RcvEnd::Unclaimed(x) => t.req("close", x.close()).await,
                        RcvEnd::Pending(x) => t.req("close", x.close()).await,
                        RcvEnd::Est(x) => t.req("close", x.close()).await,
                    };
                    drop(cc.rcv[*ch as usize].put_back(e));
                    res_name(&r)
                }
            }
        }
        Op::DropEnd { ch, end } => {
            let cookie = match end {
                End::Snd => cc.snd[*ch as usize].with(|e| e.cookie().0),
                End::Rcv => cc.rcv[*ch as usize].with(|e| e.cookie().0),
            };
            let Some(cookie) = cookie else { return skip(w) };
            if !may_kill_creator_end(w, cookie) {
                w.count("excluded:f2");
                return "excluded:f2".into();
            }
            match end {
                End::Snd => replace_end_snd(w, cc, *ch, None),
                End::Rcv => replace_end_rcv(w, cc, *ch, None),
            }
            "dropped".into()
        }

        Op::CreateListener { l } => {
            let Some(h) = cc.h() else { return skip(w) };
            let r = t.req("create_bus_listener", h.create_bus_listener()).await;
            let txt = res_name(&r);
            if let Ok(bl) = r {
                if let Some(old) = cc.lis[*l as usize].put(LisBox { bl, started: false, destroyed: false }) {
                    drop_listener_accounting(w, cc, &old);
                    drop(old);
                }
            }
            txt
        }
        Op::AddFilter { l, f } => match cc.lis[*l as usize].with(|b| b.bl.add_filter(make_filter(f))) {
            Some(r) => res_name(&r),
            None => skip(w),
        },
        Op::RemoveFilter { l, f } => match cc.lis[*l as usize].with(|b| b.bl.remove_filter(make_filter(f))) {
            Some(r) => res_name(&r),
            None => skip(w),
        },
        Op::ClearFilters { l } => match cc.lis[*l as usize].with(|b| b.bl.clear_filters()) {
            Some(r) => res_name(&r),
            None => skip(w),
        },
        Op::StartListener { l, scope } => {
            let Some(mut b) = cc.lis[*l as usize].take() else { return skip(w) };
            let r = t.req("start_bus_listener", b.bl.start(make_scope(*scope))).await;
            if r.is_ok() {
                b.started = true;
            }
            drop(cc.lis[*l as usize].put_back(b));
            res_name(&r)
        }
        Op::StopListener { l } => {
            let Some(mut b) = cc.lis[*l as usize].take() else { return skip(w) };
            let r = t.req("stop_bus_listener", b.bl.stop()).await;
            if r.is_ok() {
                b.started = false;
            }
            drop(cc.lis[*l as usize].put_back(b));
            res_name(&r)
        }
        Op::ListenerNext { l, n, wait } => {
            let slot = &cc.lis[*l as usize];
            let mut got = 0;
            for _ in 0..*n {
                // a listener that has been destroyed is not polled again unless the class allows
                // the trigger of known finding F6
                match slot.with(|b| b.destroyed) {
                    None => return if got == 0 { skip(w) } else { format!("{} bus events", got) },
                    Some(true) => {
                        if !w.allow_listener_after_destroy {
                            w.count("excluded:f6");
                            return "excluded:f6".into();
                        }
                        w.count("listener-polled-after-destroy");
                    }
                    Some(false) => {}
                }
                let allow = w.allow_listener_after_destroy;
                let r = t
                    .stream("bus_listener_next", slot_op(slot, |b, cx| {
                        if b.destroyed && !allow {
                            return Poll::Ready(None);
                        }
                        match b.bl.poll_next_event(cx) {
                            Poll::Pending if !*wait => Poll::Ready(None),
                            Poll::Pending => Poll::Pending,
                            Poll::Ready(x) => Poll::Ready(x),
                        }
                    }))
                    .await;
                match r {
                    Some(Some(_)) => {
                        got += 1;
                        w.count("bus-event:received");
                    }
                    _ => break,
                }
            }
            format!("{} bus events", got)
        }
        Op::DestroyListener { l } => {
            let Some(mut b) = cc.lis[*l as usize].take() else { return skip(w) };
            drop_listener_accounting(w, cc, &b);
            let r = t.req("destroy_bus_listener", b.bl.destroy()).await;
            if r.is_ok() {
                b.destroyed = true;
                b.started = false;
            }
            drop(cc.lis[*l as usize].put_back(b));
            res_name(&r)
        }
        Op::DropListener { l } => match cc.lis[*l as usize].take() {
            Some(b) => {
                drop_listener_accounting(w, cc, &b);
                drop(b);
                "dropped".into()
            }
            None => skip(w),
        },

        Op::CreateDiscoverer { d, entries, current_only } => {
            let Some(h) = cc.h() else { return skip(w) };
            let mut b = h.create_discoverer::<u8>();
            for (i, e) in entries.iter().enumerate() {
                b = b.add(i as u8, e.obj.map(obj_uuid), entry_services(e));
            }
            let r = if *current_only { t.req("build_discoverer", b.build_current_only()).await } else { t.req("build_discoverer", b.build()).await };
            let txt = res_name(&r);
            if let Ok(disc) = r {
                drop(cc.disc[*d as usize].put(disc));
            }
            txt
        }
        Op::DiscNext { d, n, wait } => {
            let slot = &cc.disc[*d as usize];
            if !slot.is_some() {
                return skip(w);
            }
            let mut got = 0;
            for _ in 0..*n {
                let r = t
                    .stream("discoverer_next", slot_op(slot, |dd, cx| match dd.poll_next_event(cx) {
                        Poll::Pending if !*wait => Poll::Ready(None),
                        Poll::Pending => Poll::Pending,
                        Poll::Ready(x) => Poll::Ready(x),
                    }))
                    .await;
                match r {
                    Some(Some(_)) => {
                        got += 1;
                        w.count("discoverer-event:received");
                    }
                    _ => break,
                }
            }
            format!("{} discoverer events", got)
        }
        Op::RestartDiscoverer { d, current_only } => {
            let Some(mut disc) = cc.disc[*d as usize].take() else { return skip(w) };
            let r = if *current_only { t.req("restart_discoverer", disc.restart_current_only()).await } else { t.req("restart_discoverer", disc.restart()).await };
            drop(cc.disc[*d as usize].put_back(disc));
            res_name(&r)
        }
        Op::DropDiscoverer { d } => match cc.disc[*d as usize].take() {
            Some(x) => {
                if !w.board.borrow().bus_mutators.iter().all(|c| *c == ci) {
                    w.count("drop-with-inflight");
                    w.count("cross-client-race");
                }
                drop(x);
                "dropped".into()
            }
            None => skip(w),
        },
        Op::FindObject { e } => {
            let Some(h) = cc.h() else { return skip(w) };
            let r = t.req("find_object", h.find_object(e.obj.map(obj_uuid), entry_services(e))).await;
            match &r {
                Ok(Some(_)) => "found".into(),
                Ok(None) => "none".into(),
                Err(e) => err_name(e),
            }
        }
        Op::WaitForObject { e } => {
            let Some(h) = cc.h() else { return skip(w) };
            let fut = async {
                let r = h.wait_for_object(e.obj.map(obj_uuid), entry_services(e)).await;
                r.map(|_| ())
            };
            let r = t.stream("wait_for_object", until_cancelled(&cc.cancel, fut)).await;
            match r {
                Some(r) => res_name(&r),
                None => "cancelled".into(),
            }
        }

        Op::CreateScope { sc } => {
            let Some(h) = cc.h() else {
                w.board.borrow_mut().scopes.push(None);
                return skip(w);
            };
            let t0 = w.now();
            let r = t.req("create_lifetime_scope", h.create_lifetime_scope()).await;
            let txt = res_name(&r);
            match r {
                Ok(scope) => {
                    let cookie_of_scope = scope.id().0.cookie.0;
                    {
                        let mut hist = w.hist.borrow_mut();
                        let t1 = hist.tick();
                        hist.objs.insert(scope.id().0.cookie.0, Life { owner: ci, start: t0, acked: t1, teardown_start: None, teardown_end: None });
                        hist.obj_ids.push(scope.id().0);
                    }
                    {
                        let mut b = w.board.borrow_mut();
                        b.scopes.push(Some(scope.id()));
                        b.scope_owner.insert(scope.id(), ci);
                    }
                    if let Some(old) = cc.scopes[*sc as usize].put(Tracked::new(scope, cookie_of_scope, w)) {
                        w.board.borrow_mut().ended_scopes.insert(old.id());
                        w.note_object_teardown(ci, old.id().0.cookie.0);
                        drop(old);
                    }
                }
                Err(_) => w.board.borrow_mut().scopes.push(None),
            }
            txt
        }
        Op::EndScope { sc } => {
            let Some(scope) = cc.scopes[*sc as usize].get() else { return skip(w) };
            w.note_object_teardown(ci, scope.id().0.cookie.0);
            w.hist_teardown_start_obj(scope.id().0.cookie.0);
            let r = t.req("end_lifetime_scope", scope.end()).await;
            if matches!(r, Ok(()) | Err(Error::InvalidLifetime)) {
                w.board.borrow_mut().ended_scopes.insert(scope.id());
                w.hist_teardown_end_obj(scope.id().0.cookie.0);
            }
            res_name(&r)
        }
        Op::DropScope { sc } => match cc.scopes[*sc as usize].take() {
            Some(x) => {
                w.board.borrow_mut().ended_scopes.insert(x.id());
                w.note_object_teardown(ci, x.id().0.cookie.0);
                drop(x);
                "dropped".into()
            }
            None => skip(w),
        },
        Op::CreateLifetime { lt, k } => {
            let Some(h) = cc.h() else { return skip(w) };
            let id = w.board.borrow().scopes.get(*k as usize).copied().flatten();
            let Some(id) = id else { return skip(w) };
            let r = t.req("create_lifetime", h.create_lifetime(id)).await;
            let txt = res_name(&r);
            if let Ok(x) = r {
                drop(cc.lts[*lt as usize].put(x));
            }
            txt
        }
        Op::LifetimeEnded { lt } => {
            let slot = &cc.lts[*lt as usize];
            if !slot.is_some() {
                return skip(w);
            }
            let r = t.stream_aux("lifetime_ended", Aux::Lifetime(*lt), slot_op(slot, |l, cx| l.poll_ended(cx))).await;
            match r {
                Some(()) => "ended".into(),
                None => "gone".into(),
            }
        }
        Op::DropLifetime { lt } => match cc.lts[*lt as usize].take() {
            Some(x) => {
                drop(x);
                "dropped".into()
            }
            None => skip(w),
        },
    }
}

fn drop_listener_accounting(w: &World, cc: &ClientCtx, b: &LisBox) {
    if b.started {
        w.count("drop-with-inflight");
        if !w.board.borrow().bus_mutators.iter().all(|c| *c == cc.idx) {
            w.count("cross-client-race");
        }
    }
}

fn replace_end_snd(w: &World, cc: &ClientCtx, ch: u8, new: Option<SndEnd>) {
    let old = match new {
        Some(v) => cc.snd[ch as usize].put(v),
        None => cc.snd[ch as usize].take(),
    };
    if let Some(old) = old {
        let cookie = old.cookie().0;
        w.note_end_teardown(cc.idx, cookie, !matches!(old, SndEnd::Unclaimed(_)));
        creator_end_killed(w, cc.idx, cookie, End::Snd);
        drop(old);
    }
}

fn replace_end_rcv(w: &World, cc: &ClientCtx, ch: u8, new: Option<RcvEnd>) {
    let old = match new {
        Some(v) => cc.rcv[ch as usize].put(v),
        None => cc.rcv[ch as usize].take(),
    };
    if let Some(old) = old {
        let cookie = old.cookie().0;
        w.note_end_teardown(cc.idx, cookie, !matches!(old, RcvEnd::Unclaimed(_)));
        creator_end_killed(w, cc.idx, cookie, End::Rcv);
        drop(old);
    }
}

/// Boxed future type for driver-side helper tasks.
pub type LocalFuture = Pin<Box<dyn Future<Output = ()>>>;

pub fn poll_ready_now<T>(p: Poll<T>) -> Option<T> {
    match p {
        Poll::Ready(v) => Some(v),
        Poll::Pending => None,
    }
}

#[allow(dead_code)]
pub fn noop_cx() -> Context<'static> {
    Context::from_waker(Waker::noop())
}
