//! C05, client-level half: the real `Sender`/`Receiver` (low-level channel API) of two or more
//! clients against a real broker under generated schedules, transports and capacities. The
//! broker-level half (raw peers against the credit model) lives in `vbus`; `./check C05` runs both
//! and the evidence of this half is merged into `evidence/C05.json` as `coverage.parts.client`.
//!
//! The programs and the machinery are C06's (`prog`, `interp`, `driver`); this check narrows the
//! verdict to what C05 states: items reach the receiver exactly once and in send order, a producer
//! and a consumer both run to completion for every capacity (no credit deadlock), claim / close /
//! establish complete, and nothing inside `aldrin/src/channel` panics. A failure of any other
//! oracle of the shared machinery is C06's business and is only counted here.

use crate::c06;
use crate::prog::*;
use vcommon::{CheckDef, ClassPlan, Outcome, Tier};

pub static DEF: CheckDef = CheckDef {
    id: "C05",
    level: "exploration",
    rule: "Client level: channel-heavy programs of 1..4 real clients (protocol 1.14..1.20) over the low-level channel API - create with either end claimed, capacities {1,2,4,5,16} (class client:small-credit: 1..4 on bounded transports <= 2), unbind / pass the cookie / bind / claim on another client, two claimants, cancelled claims, send n items (one producer in three polls Sender::poll_receiver_closed before every send_ready, like a select! loop), receive, close and drop of ends in every state - against a real broker on the deterministic simulator under a tape-chosen schedule policy/seed and transports (unbounded or bounded 1..16). Oracle: the k-th item returned by next_item is the k-th item accepted by start_send_item on that channel (exactly once, in order); at quiescence no task waits in next_item while more items were sent than received and the sender is alive, none waits in send_ready while the consumer has taken every item sent (credit deadlock), none waits in claim / close / establish / create_channel; no panic in the channel code. Non-trivial: as C06 (>= 2 clients, a drop racing with a counterpart).",
    assumptions: &[
        "shares programs, interpreter and quiescence oracles with C06; only channel-related verdicts are reported under C05 (others are counted as other-oracle:*)",
        "interleavings are explored at poll granularity of a single-threaded executor",
    ],
    plan,
    case,
    render,
    crashy: false,
    floors: &[
        ("chan:items-flowed", 0.40),
        ("chan:item-order-checked>=2", 0.30),
        ("chan:receiver-closed-polled-while-sending", 0.10),
        ("credit-topup:cap<=4", 0.15),
        ("credit:cap=1", 0.05),
        ("cross-client-channel", 0.40),
        ("bounded-transport", 0.40),
    ],
    extra: None,
    extra_coverage: None,
};

fn plan(t: Tier) -> Vec<ClassPlan> {
    let k = match t {
        Tier::Quick => 1,
        Tier::Thorough => 20,
    };
    vec![
        ClassPlan { class: "client:small-credit", cases: 10_000 * k, min_len: 24, max_len: 300 },
        ClassPlan { class: "client:channels", cases: 14_000 * k, min_len: 24, max_len: 360 },
    ]
}

fn decode(class: &str, tape: &[u8]) -> Program {
    let aim = match class {
        "client:small-credit" => Aim::SmallCredit,
        _ => Aim::Channels,
    };
    decode_program(tape, Allow::from_env(), aim, 48)
}

fn render(class: &str, tape: &[u8]) -> String {
    render_program(&decode(class, tape))
}

/// Is this verdict about channels (C05) rather than about the rest of the client protocol (C06)?
pub fn channel_related(sig: &str) -> bool {
    const KEYS: &[&str] = &[
        "channel",
        "item",
        "send_ready",
        "claim",
        "establish",
        "pending-request:close",
        "Sender::",
        "Receiver::",
        "ChannelBuilder::",
        "UnclaimedSender::",
        "UnclaimedReceiver::",
        "PendingSender::",
        "PendingReceiver::",
    ];
    KEYS.iter().any(|k| sig.contains(k))
}

fn case(class: &str, tape: &[u8], _strict: bool) -> Outcome {
    let p = decode(class, tape);
    match c06::case_of(p, class, tape) {
        Outcome::Fail(f) if !channel_related(&f.signature) => {
            // not C05's statement; C06 reports it
            Outcome::Pass(vcommon::PassInfo { nontrivial: false, fp: vcommon::fingerprint(tape), classes: vec!["other-oracle:failed-not-channel-related"] })
        }
        o => o,
    }
}
