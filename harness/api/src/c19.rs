//! C19 Client-side discovery and lifetime views converge to the bus state.
//!
//! World clients churn objects and services over a tiny UUID pool (re-creation under the same
//! UUID, partial service sets, lifetime scopes) while an observer client owns discoverers with
//! entries of all four kinds, lifetimes, and find/wait calls, consuming events at generated
//! moments. A harness bus listener on a connection of its own records the order in which the
//! broker processed creations and destructions.

use crate::driver::*;
use crate::interp::*;
use crate::net::*;
use crate::prog::*;
use crate::util::{slot_op, yield_now, Slot};
use aldrin::core::{BusEvent, BusListenerFilter, BusListenerScope, ObjectId, ObjectUuid, ServiceId, ServiceUuid};
use aldrin::{Discoverer, Handle, Lifetime, LifetimeId};
use std::cell::{Cell, RefCell};
use std::collections::{BTreeMap, BTreeSet};
use std::rc::Rc;
use std::task::Poll;
use uuid::Uuid;
use vcommon::{fingerprint, CheckDef, ClassPlan, Outcome, PassInfo, Tape, Tier};

pub static DEF: CheckDef = CheckDef {
    id: "C19",
    level: "exploration",
    rule: "Cases: 1..2 world clients create/destroy/drop objects (pool of 3 UUIDs), services (pool of 2 UUIDs) and lifetime scopes in 1..2 tasks each, while an observer client (protocol 1.20 or 1.14) runs 1..3 tasks that build discoverers (1..3 entries of the kinds any/specific x with/without services, overlapping), consume events in generated portions, restart (all / current-only), drop them, bind lifetimes to acknowledged object ids, observe has_ended, and call find_object / wait_for_object; schedule, transports (unbounded / bounded 1..16) and HashMap seed come from the tape. Ground truth: acknowledged create/destroy replies plus a harness bus listener on its own connection. Non-trivial: a same-UUID re-creation, a partial service set, and a discoverer (re)start while the world is changing. Distinct = world program + observer program + schedule.",
    assumptions: &[
        "convergence is demanded of discoverers whose scope includes new events; current-only discoverers are snapshots and only have to report objects that existed with all required services at some moment",
        "'existed at some point during the call' is decided on possibly-live intervals in harness logical time (start of the creating operation .. end of the tearing-down operation or of a later sync_broker of the owner), an over-approximation that cannot raise a false alarm",
        "a lifetime observed as ended is wrong only if no operation tearing its object down had even started at that moment",
    ],
    plan,
    case,
    render,
    crashy: false,
    floors: &[("same-uuid-recreation", 0.30), ("partial-service-set", 0.40), ("start-while-changing", 0.40), ("restart", 0.20), ("lifetime:ended", 0.10), ("lifetime:alive", 0.08), ("find:some", 0.05), ("wait:returned", 0.04), ("events>=4", 0.12), ("destroyed-event", 0.10), ("current-only-view", 0.06), ("converged-nonempty-view", 0.20), ("bounded-transport", 0.50)],
    extra: None,
    extra_coverage: None,
};

fn plan(t: Tier) -> Vec<ClassPlan> {
    let k = match t {
        Tier::Quick => 1,
        Tier::Thorough => 20,
    };
    vec![ClassPlan { class: "churn", cases: 50_000 * k, min_len: 30, max_len: 360 }]
}

// ---------------------------------------------------------------------------------------------
// case

#[derive(Debug, Clone, PartialEq)]
pub enum ObsOp {
    Start { d: u8, entries: Vec<Entry>, current_only: bool },
    Consume { d: u8, n: u8, wait: bool },
    Restart { d: u8, current_only: bool },
    DropDisc { d: u8 },
    /// bind a lifetime to the k-th latest acknowledged object id
    Bind { lt: u8, k: u8 },
    Check { lt: u8 },
    AwaitEnd { lt: u8 },
    DropLt { lt: u8 },
    Find { e: Entry },
    WaitFor { e: Entry },
    Yield(u8),
    Sync,
    Barrier,
}

const NOD: usize = 2;
const NOL: usize = 3;

#[derive(Debug, Clone)]
pub struct Case19 {
    pub det_seed: u64,
    pub sched_seed: u64,
    pub policy: u8,
    /// world clients first, then the observer, then the truth listener
    pub clients: Vec<ClientSpec>,
    pub n_world: usize,
    pub world: Vec<TaskProg>,
    pub observer: Vec<Vec<ObsOp>>,
}

fn gen_entry(t: &mut Tape) -> Entry {
    let obj = if t.weighted(&[1, 1]) == 1 { Some(t.below(OBJ_POOL) as u8) } else { None };
    let svcs = match t.weighted(&[2, 3, 3]) {
        0 => 0,
        1 => 1 + t.below(2) as u8,
        _ => 3,
    };
    Entry { obj, svcs }
}

fn gen_tkind(t: &mut Tape) -> TKind {
    if t.weighted(&[2, 3]) == 0 {
        TKind::Unbounded
    } else {
        TKind::Bounded(match t.below(4) {
            0 => 1,
            1 => 2,
            2 => t.range(3, 5),
            _ => t.range(6, 16),
        })
    }
}

fn decode(tape: &[u8]) -> Case19 {
    let mut t = Tape::new(tape);
    let det_seed = t.u32() as u64;
    let sched_seed = t.u32() as u64;
    let policy = t.u8();
    let n_world = 1 + t.weighted(&[1, 2]);
    let mut clients = vec![];
    let mut task_clients = vec![];
    for ci in 0..n_world {
        let tkind = gen_tkind(&mut t);
        let tasks = 1 + t.weighted(&[1, 1]);
        clients.push(ClientSpec { proto: if t.weighted(&[3, 1]) == 0 { Proto::V20 } else { Proto::V14 }, tkind, tasks, final_mode: FinalMode::Shutdown });
        for _ in 0..tasks {
            task_clients.push(ci);
        }
    }
    // observer
    let obs_tkind = gen_tkind(&mut t);
    let obs_proto = match t.weighted(&[6, 2, 2]) {
        0 => Proto::V20,
        1 => Proto::V14,
        _ => Proto::Capped(15 + t.below(5) as u8),
    };
    let obs_tasks = 1 + t.weighted(&[1, 2, 1]);
    clients.push(ClientSpec { proto: obs_proto, tkind: obs_tkind, tasks: obs_tasks, final_mode: FinalMode::Shutdown });
    // truth listener
    clients.push(ClientSpec { proto: Proto::V20, tkind: TKind::Unbounded, tasks: 1, final_mode: FinalMode::Shutdown });

    let mut b = Builder::new(&task_clients);
    let mut observer: Vec<Vec<ObsOp>> = vec![vec![]; obs_tasks];
    // abstract world state per client: object slots / service slots probably filled
    let mut obj = vec![[false; NOBJ]; n_world];
    let mut svc = vec![[false; NSVC]; n_world];
    let mut scope = vec![[false; NSCOPE]; n_world];
    let mut disc = [false; NOD];
    let mut lts = [false; NOL];
    let mut created = 0usize;
    let mut total = 0;
    while total < 60 {
        let sel = t.u8();
        if sel == 0 {
            break;
        }
        total += 1;
        if (sel as usize - 1) % 5 < 3 {
            // a world operation
            let ti = t.below(task_clients.len());
            let ci = task_clients[ti];
            let pick = |t: &mut Tape, flags: &[bool]| -> Option<u8> {
                let idx: Vec<u8> = flags.iter().enumerate().filter(|(_, f)| **f).map(|(i, _)| i as u8).collect();
                if idx.is_empty() {
                    None
                } else {
                    Some(idx[t.below(idx.len())])
                }
            };
            let create_obj = |t: &mut Tape, obj: &mut Vec<[bool; NOBJ]>, b: &mut Builder, created: &mut usize| {
                let o = t.below(NOBJ) as u8;
                let u = t.below(OBJ_POOL) as u8;
                obj[ci][o as usize] = true;
                *created += 1;
                b.op(ti, Op::CreateObject { o, u });
            };
            match t.weighted(&[24, 30, 7, 10, 7, 9, 4, 2, 3, 6, 4, 2]) {
                0 => create_obj(&mut t, &mut obj, &mut b, &mut created),
                1 => match pick(&mut t, &obj[ci]) {
                    Some(o) => {
                        let s = t.below(NSVC) as u8;
                        let u = t.below(SVC_POOL) as u8;
                        svc[ci][s as usize] = true;
                        b.op(ti, Op::CreateService { o, s, u, ver: 0 });
                    }
                    None => create_obj(&mut t, &mut obj, &mut b, &mut created),
                },
                2 => {
                    if let Some(o) = pick(&mut t, &obj[ci]) {
                        b.op(ti, Op::DestroyObject { o });
                    }
                }
                3 => {
                    if let Some(o) = pick(&mut t, &obj[ci]) {
                        obj[ci][o as usize] = false;
                        b.op(ti, Op::DropObject { o });
                    }
                }
                4 => {
                    if let Some(s) = pick(&mut t, &svc[ci]) {
                        b.op(ti, Op::DestroyService { s });
                    }
                }
                5 => {
                    if let Some(s) = pick(&mut t, &svc[ci]) {
                        svc[ci][s as usize] = false;
                        b.op(ti, Op::DropService { s });
                    }
                }
                6 => {
                    let sc = t.below(NSCOPE) as u8;
                    scope[ci][sc as usize] = true;
                    created += 1;
                    b.op(ti, Op::CreateScope { sc });
                }
                7 => {
                    if let Some(sc) = pick(&mut t, &scope[ci]) {
                        b.op(ti, Op::EndScope { sc });
                    }
                }
                8 => {
                    if let Some(sc) = pick(&mut t, &scope[ci]) {
                        scope[ci][sc as usize] = false;
                        b.op(ti, Op::DropScope { sc });
                    }
                }
                9 => {
                    b.op(ti, Op::SyncBroker);
                }
                10 => {
                    b.op(ti, Op::Yield(1 + t.below(4) as u8));
                }
                _ => {
                    for i in 0..task_clients.len() {
                        b.tasks[i].ops.push(Op::Barrier);
                    }
                    for o in observer.iter_mut() {
                        o.push(ObsOp::Barrier);
                    }
                }
            }
        } else {
            // an observer operation
            let ti = t.below(obs_tasks);
            let have_d: Vec<u8> = (0..NOD as u8).filter(|d| disc[*d as usize]).collect();
            let have_l: Vec<u8> = (0..NOL as u8).filter(|l| lts[*l as usize]).collect();
            let op = match t.weighted(&[22, 24, 10, 4, 10, 8, 3, 3, 6, 3, 4, 3]) {
                0 => {
                    let d = t.below(NOD) as u8;
                    let n = 1 + t.weighted(&[2, 3, 2]);
                    let entries = (0..n).map(|_| gen_entry(&mut t)).collect();
                    disc[d as usize] = true;
                    ObsOp::Start { d, entries, current_only: t.chance(50) }
                }
                1 if !have_d.is_empty() => ObsOp::Consume { d: have_d[t.below(have_d.len())], n: 1 + t.below(4) as u8, wait: t.weighted(&[3, 1]) == 1 },
                2 if !have_d.is_empty() => ObsOp::Restart { d: have_d[t.below(have_d.len())], current_only: t.chance(50) },
                3 if !have_d.is_empty() => {
                    let d = have_d[t.below(have_d.len())];
                    disc[d as usize] = false;
                    ObsOp::DropDisc { d }
                }
                4 if created > 0 => {
                    let lt = t.below(NOL) as u8;
                    lts[lt as usize] = true;
                    ObsOp::Bind { lt, k: t.below(created.min(4)) as u8 }
                }
                5 if !have_l.is_empty() => ObsOp::Check { lt: have_l[t.below(have_l.len())] },
                6 if !have_l.is_empty() => ObsOp::AwaitEnd { lt: have_l[t.below(have_l.len())] },
                7 if !have_l.is_empty() => {
                    let lt = have_l[t.below(have_l.len())];
                    lts[lt as usize] = false;
                    ObsOp::DropLt { lt }
                }
                8 => ObsOp::Find { e: gen_entry(&mut t) },
                9 => ObsOp::WaitFor { e: gen_entry(&mut t) },
                10 => ObsOp::Yield(1 + t.below(4) as u8),
                11 => ObsOp::Sync,
                _ => {
                    let d = t.below(NOD) as u8;
                    let entries = vec![gen_entry(&mut t)];
                    disc[d as usize] = true;
                    ObsOp::Start { d, entries, current_only: false }
                }
            };
            observer[ti].push(op);
        }
    }
    Case19 { det_seed, sched_seed, policy, clients, n_world, world: b.tasks, observer }
}

fn render(_class: &str, tape: &[u8]) -> String {
    let c = decode(tape);
    let mut s = format!("det_seed={} sched_seed={} policy={:?}\n", c.det_seed, c.sched_seed, simbus::Policy::from_u8(c.policy));
    for (i, cl) in c.clients.iter().enumerate() {
        let role = if i < c.n_world {
            "world"
        } else if i == c.n_world {
            "observer"
        } else {
            "truth listener"
        };
        s.push_str(&format!("client c{} ({}): {:?} {:?}\n", i, role, cl.proto, cl.tkind));
    }
    for (i, t) in c.world.iter().enumerate() {
        s.push_str(&format!("world task w{} on c{}:\n", i, t.client));
        for (j, op) in t.ops.iter().enumerate() {
            s.push_str(&format!("  {:2}: {:?}\n", j, op));
        }
    }
    for (i, t) in c.observer.iter().enumerate() {
        s.push_str(&format!("observer task o{}:\n", i));
        for (j, op) in t.iter().enumerate() {
            s.push_str(&format!("  {:2}: {:?}\n", j, op));
        }
    }
    s
}

fn case(_class: &str, tape: &[u8], _strict: bool) -> Outcome {
    let c = decode(tape);
    let det = c.det_seed;
    match vcommon::with_det_seed(det, 1 << 21, move || match run(&c) {
        Ok(o) => o,
        Err(o) => o,
    }) {
        Ok(o) => o,
        Err(_) => {
            let p = vcommon::last_panic_any_thread();
            let loc = norm_location(&p.location());
            let sig = if in_sut(&loc) { format!("panic:case-thread:{}", loc) } else { format!("harness:panic:case-thread:{}", loc) };
            Outcome::fail(sig, format!("panic outside of a simulator task: {}", p.0))
        }
    }
}

// ---------------------------------------------------------------------------------------------
// observer state and logs

struct DiscBox {
    d: Discoverer<u8>,
    entries: Vec<Entry>,
    inst: usize,
    epoch: u32,
    /// the current scope includes new events
    follows: bool,
}

struct LtBox {
    l: Lifetime,
    id: ObjectId,
}

#[derive(Debug, Clone)]
struct EvRec {
    inst: usize,
    epoch: u32,
    key: u8,
    created: bool,
    object: ObjectId,
    services: Vec<ServiceId>,
}

#[derive(Debug, Clone)]
struct LtObs {
    id: ObjectId,
    ended: bool,
    /// a tear-down of the object had at least started when has_ended was read
    teardown_started: bool,
    fin: bool,
}

#[derive(Debug, Clone)]
struct FindRec {
    e: Entry,
    wait: bool,
    t_start: u64,
    t_end: u64,
    result: Option<(ObjectId, Vec<ServiceId>)>,
}

/// Final view of one discoverer instance, as plain data.
#[derive(Debug, Clone)]
struct ViewRec {
    inst: usize,
    epoch: u32,
    follows: bool,
    entries: Vec<Entry>,
    /// per entry: what iter() lists
    listed: Vec<Vec<(ObjectId, Vec<ServiceId>)>>,
    /// accessor disagreements found while taking the snapshot
    accessor_mismatch: Vec<String>,
}

#[derive(Default)]
struct ObsLog {
    events: Vec<EvRec>,
    lifetimes: Vec<LtObs>,
    finds: Vec<FindRec>,
    views: Vec<ViewRec>,
    /// (instance, epoch) -> (entries, follows)
    meta: BTreeMap<(usize, u32), (Vec<Entry>, bool)>,
    starts_while_changing: u32,
    restarts: u32,
}

struct Obs {
    h: Handle,
    discs: Vec<Slot<DiscBox>>,
    lts: Vec<Slot<LtBox>>,
    log: RefCell<ObsLog>,
    next_inst: Cell<usize>,
    finalized: Cell<bool>,
}

fn entry_svcs(e: &Entry) -> Vec<ServiceUuid> {
    entry_services(e)
}

fn record_event(o: &Obs, b: &DiscBox, ev: aldrin::DiscovererEvent<u8>) {
    let key = ev.key();
    let e = &b.entries[key as usize];
    let services = if ev.is_created() { ev.service_ids(&b.d, entry_svcs(e)) } else { vec![] };
    o.log.borrow_mut().events.push(EvRec { inst: b.inst, epoch: b.epoch, key, created: ev.is_created(), object: ev.object_id(), services });
}

fn world_busy(w: &World, n_world: usize) -> bool {
    w.tasks.borrow().iter().any(|t| t.client < n_world && !t.done.get())
}

async fn run_observer(w: Rc<World>, o: Rc<Obs>, t: Rc<TaskCtx>, ops: Vec<ObsOp>, n_world: usize) {
    for (i, op) in ops.iter().enumerate() {
        t.cur.set(i);
        let res = obs_exec(&w, &o, &t, op, n_world).await;
        w.wake_res_waiters();
        w.log(format!("o{} #{} {:?} -> {}", t.id, i, op, res));
    }
    t.cur.set(ops.len());
    t.done.set(true);
}

async fn obs_exec(w: &Rc<World>, o: &Rc<Obs>, t: &Rc<TaskCtx>, op: &ObsOp, n_world: usize) -> String {
    match op {
        ObsOp::Barrier => {
            let seen = w.gate.phase();
            t.block(Class::Gate, "barrier", None, None, w.gate.wait_after(seen)).await;
            "opened".into()
        }
        ObsOp::Yield(n) => {
            for _ in 0..*n {
                yield_now().await;
            }
            "ok".into()
        }
        ObsOp::Sync => match t.req("sync_broker", o.h.sync_broker()).await {
            Ok(_) => "Ok".into(),
            Err(e) => format!("{:?}", e),
        },
        ObsOp::Start { d, entries, current_only } => {
            let mut b = o.h.create_discoverer::<u8>();
            for (i, e) in entries.iter().enumerate() {
                b = b.add(i as u8, e.obj.map(obj_uuid), entry_svcs(e));
            }
            let busy = world_busy(w, n_world);
            let r = if *current_only { t.req("build_discoverer", b.build_current_only()).await } else { t.req("build_discoverer", b.build()).await };
            match r {
                Ok(disc) => {
                    let inst = o.next_inst.get();
                    o.next_inst.set(inst + 1);
                    let mut log = o.log.borrow_mut();
                    log.meta.insert((inst, 0), (entries.clone(), !*current_only));
                    if busy {
                        log.starts_while_changing += 1;
                    }
                    drop(log);
                    drop(o.discs[*d as usize].put(DiscBox { d: disc, entries: entries.clone(), inst, epoch: 0, follows: !*current_only }));
                    "Ok".into()
                }
                Err(e) => format!("{:?}", e),
            }
        }
        ObsOp::Consume { d, n, wait } => {
            let slot = &o.discs[*d as usize];
            if !slot.is_some() {
                return "skipped".into();
            }
            let mut got = 0;
            for _ in 0..*n {
                let r = t
                    .stream("discoverer_next", slot_op(slot, |b, cx| match b.d.poll_next_event(cx) {
                        Poll::Pending if !*wait => Poll::Ready(None),
                        Poll::Pending => Poll::Pending,
                        Poll::Ready(None) => Poll::Ready(None),
                        Poll::Ready(Some(ev)) => {
                            record_event(o, b, ev);
                            Poll::Ready(Some(()))
                        }
                    }))
                    .await;
                match r {
                    Some(Some(())) => got += 1,
                    _ => break,
                }
            }
            format!("{} events", got)
        }
        ObsOp::Restart { d, current_only } => {
            let Some(mut b) = o.discs[*d as usize].take() else { return "skipped".into() };
            let busy = world_busy(w, n_world);
            let r = if *current_only { t.req("restart_discoverer", b.d.restart_current_only()).await } else { t.req("restart_discoverer", b.d.restart()).await };
            let txt = match &r {
                Ok(()) => "Ok".to_string(),
                Err(e) => format!("{:?}", e),
            };
            if r.is_ok() {
                b.epoch += 1;
                b.follows = !*current_only;
                let mut log = o.log.borrow_mut();
                log.meta.insert((b.inst, b.epoch), (b.entries.clone(), b.follows));
                log.restarts += 1;
                if busy {
                    log.starts_while_changing += 1;
                }
                drop(log);
                drop(o.discs[*d as usize].put_back(b));
            }
            txt
        }
        ObsOp::DropDisc { d } => match o.discs[*d as usize].take() {
            Some(b) => {
                drop(b);
                "dropped".into()
            }
            None => "skipped".into(),
        },
        ObsOp::Bind { lt, k } => {
            let id = {
                let h = w.hist.borrow();
                let n = h.obj_ids.len();
                if n == 0 {
                    None
                } else {
                    Some(h.obj_ids[n - 1 - (*k as usize).min(n - 1)])
                }
            };
            let Some(id) = id else { return "skipped".into() };
            match t.req("create_lifetime", o.h.create_lifetime(LifetimeId(id))).await {
                Ok(l) => {
                    drop(o.lts[*lt as usize].put(LtBox { l, id }));
                    "Ok".into()
                }
                Err(e) => format!("{:?}", e),
            }
        }
        ObsOp::Check { lt } => {
            let r = o.lts[*lt as usize].with(|b| {
                let waker = std::task::Waker::noop();
                let mut cx = std::task::Context::from_waker(waker);
                let _ = b.l.poll_ended(&mut cx);
                (b.id, b.l.has_ended())
            });
            match r {
                Some((id, ended)) => {
                    observe_lifetime(w, o, id, ended, false);
                    format!("ended={}", ended)
                }
                None => "skipped".into(),
            }
        }
        ObsOp::AwaitEnd { lt } => {
            let slot = &o.lts[*lt as usize];
            if !slot.is_some() {
                return "skipped".into();
            }
            let r = t.stream("lifetime_ended", slot_op(slot, |b, cx| b.l.poll_ended(cx).map(|_| (b.id, b.l.has_ended())))).await;
            match r {
                Some((id, ended)) => {
                    observe_lifetime(w, o, id, ended, false);
                    format!("ended={}", ended)
                }
                None => "gone".into(),
            }
        }
        ObsOp::DropLt { lt } => match o.lts[*lt as usize].take() {
            Some(b) => {
                drop(b);
                "dropped".into()
            }
            None => "skipped".into(),
        },
        ObsOp::Find { e } => {
            let t0 = w.now();
            let r = t.req("find_object", o.h.find_object(e.obj.map(obj_uuid), entry_svcs(e))).await;
            let t1 = w.now();
            match r {
                Ok(result) => {
                    let txt = if result.is_some() { "found" } else { "none" };
                    o.log.borrow_mut().finds.push(FindRec { e: *e, wait: false, t_start: t0, t_end: t1, result });
                    txt.into()
                }
                Err(e) => format!("{:?}", e),
            }
        }
        ObsOp::WaitFor { e } => {
            let t0 = w.now();
            let r = t.stream("wait_for_object", o.h.wait_for_object(e.obj.map(obj_uuid), entry_svcs(e))).await;
            let t1 = w.now();
            match r {
                Ok(result) => {
                    o.log.borrow_mut().finds.push(FindRec { e: *e, wait: true, t_start: t0, t_end: t1, result: Some(result) });
                    "found".into()
                }
                Err(e) => format!("{:?}", e),
            }
        }
    }
}

fn observe_lifetime(w: &World, o: &Obs, id: ObjectId, ended: bool, fin: bool) {
    let teardown_started = w.hist.borrow().objs.get(&id.cookie.0).map(|l| l.teardown_start.is_some()).unwrap_or(true);
    o.log.borrow_mut().lifetimes.push(LtObs { id, ended, teardown_started, fin });
}

/// After activity has stopped: synchronise with the broker, drain every discoverer, read every
/// lifetime, and snapshot the views.
async fn finalize(w: Rc<World>, o: Rc<Obs>, t: Rc<TaskCtx>) {
    let _ = t.req("sync_broker", o.h.sync_broker()).await;
    for slot in &o.discs {
        loop {
            let r = slot.with(|b| {
                let waker = std::task::Waker::noop();
                let mut cx = std::task::Context::from_waker(waker);
                match b.d.poll_next_event(&mut cx) {
                    Poll::Ready(Some(ev)) => {
                        record_event(&o, b, ev);
                        true
                    }
                    _ => false,
                }
            });
            if r != Some(true) {
                break;
            }
        }
        slot.with(|b| {
            let mut listed = vec![];
            let mut mismatch = vec![];
            for (k, e) in b.entries.iter().enumerate() {
                let key = k as u8;
                let svcs = entry_svcs(e);
                let mut l: Vec<(ObjectId, Vec<ServiceId>)> = b.d.entry_iter(key).map(|ie| (ie.object_id(), svcs.iter().map(|s| ie.service_id(*s)).collect())).collect();
                l.sort();
                // the accessors must agree with the listing
                let uuids: Vec<ObjectUuid> = match e.obj {
                    Some(u) => vec![obj_uuid(u)],
                    None => {
                        let mut v: Vec<ObjectUuid> = (0..OBJ_POOL as u8).map(obj_uuid).collect();
                        v.extend(l.iter().map(|(id, _)| id.uuid));
                        v.sort();
                        v.dedup();
                        v
                    }
                };
                for u in uuids {
                    let in_list = l.iter().find(|(id, _)| id.uuid == u).cloned();
                    let oid = b.d.object_id(key, u);
                    let contains = b.d.contains(key, u);
                    if oid != in_list.as_ref().map(|(id, _)| *id) || contains != in_list.is_some() {
                        mismatch.push(format!("entry {} object {:?}: iter lists {:?}, object_id() = {:?}, contains() = {}", k, u, in_list, oid, contains));
                    }
                    if let Some((_, sids)) = &in_list {
                        let via = b.d.service_ids(key, u, svcs.clone());
                        if via.as_ref() != Some(sids) {
                            mismatch.push(format!("entry {} object {:?}: iter lists services {:?}, service_ids() = {:?}", k, u, sids, via));
                        }
                    }
                }
                if b.d.contains_any(key) == l.is_empty() {
                    mismatch.push(format!("entry {}: contains_any() = {} but iter lists {} objects", k, b.d.contains_any(key), l.len()));
                }
                listed.push(l);
            }
            o.log.borrow_mut().views.push(ViewRec { inst: b.inst, epoch: b.epoch, follows: b.follows, entries: b.entries.clone(), listed, accessor_mismatch: mismatch });
        });
    }
    for slot in &o.lts {
        let r = slot.with(|b| {
            let waker = std::task::Waker::noop();
            let mut cx = std::task::Context::from_waker(waker);
            let _ = b.l.poll_ended(&mut cx);
            (b.id, b.l.has_ended())
        });
        if let Some((id, ended)) = r {
            observe_lifetime(&w, &o, id, ended, true);
        }
    }
    o.finalized.set(true);
}

// ---------------------------------------------------------------------------------------------
// ground truth

#[derive(Debug, Clone, Default, PartialEq)]
struct BusState {
    objects: BTreeMap<ObjectUuid, ObjectId>,
    services: BTreeMap<(ObjectUuid, ServiceUuid), ServiceId>,
}

impl BusState {
    fn apply(&mut self, ev: &BusEvent) -> Result<(), String> {
        match ev {
            BusEvent::ObjectCreated(id) => {
                if self.objects.insert(id.uuid, *id).is_some() {
                    return Err(format!("object {:?} created twice", id.uuid));
                }
            }
            BusEvent::ObjectDestroyed(id) => {
                if self.objects.remove(&id.uuid) != Some(*id) {
                    return Err(format!("object {:?} destroyed but not live with that id", id));
                }
            }
            BusEvent::ServiceCreated(id) => {
                if self.services.insert((id.object_id.uuid, id.uuid), *id).is_some() {
                    return Err(format!("service {:?} created twice", id));
                }
            }
            BusEvent::ServiceDestroyed(id) => {
                if self.services.remove(&(id.object_id.uuid, id.uuid)) != Some(*id) {
                    return Err(format!("service {:?} destroyed but not live with that id", id));
                }
            }
        }
        Ok(())
    }

    /// Objects matching an entry, with the ids of the required services.
    fn matching(&self, e: &Entry) -> Vec<(ObjectId, Vec<ServiceId>)> {
        let svcs = entry_svcs(e);
        let mut out = vec![];
        for (u, id) in &self.objects {
            if let Some(want) = e.obj {
                if obj_uuid(want) != *u {
                    continue;
                }
            }
            let mut sids = vec![];
            let mut all = true;
            for s in &svcs {
                match self.services.get(&(*u, *s)) {
                    Some(sid) if sid.object_id == *id => sids.push(*sid),
                    _ => {
                        all = false;
                        break;
                    }
                }
            }
            if all {
                out.push((*id, sids));
            }
        }
        out.sort();
        out
    }
}

// ---------------------------------------------------------------------------------------------
// the run

fn run(c: &Case19) -> Result<Outcome, Outcome> {
    let mut rig = Rig::connect(c.sched_seed, c.policy, &c.clients, Allow::default())?;
    let w = rig.world.clone();
    let obs_idx = c.n_world;
    let truth_idx = c.n_world + 1;

    // truth listener first: it must see everything
    let truth: Rc<RefCell<Vec<BusEvent>>> = Rc::new(RefCell::new(vec![]));
    let truth_ready = Rc::new(Cell::new(false));
    {
        let h = (*w.clients[truth_idx].h().unwrap()).clone();
        let log = truth.clone();
        let ready = truth_ready.clone();
        let tctx = TaskCtx::new(1000, truth_idx);
        w.tasks.borrow_mut().push(tctx.clone());
        rig.net.sim.spawn("app:truth", counted(async move {
            let Ok(mut bl) = tctx.req("create_bus_listener", h.create_bus_listener()).await else { return };
            let _ = bl.add_filter(BusListenerFilter::any_object());
            let _ = bl.add_filter(BusListenerFilter::any_object_any_service());
            if tctx.req("start_bus_listener", bl.start(BusListenerScope::All)).await.is_err() {
                return;
            }
            ready.set(true);
            loop {
                let ev = tctx.stream("truth_next", bl.next_event()).await;
                match ev {
                    Some(ev) => log.borrow_mut().push(ev),
                    None => break,
                }
            }
        }));
    }
    rig.settle("truth-listener")?;
    if !truth_ready.get() {
        return Err(fail("harness:truth-listener-not-started", rig.detail("the truth listener did not start")));
    }

    // world and observer
    rig.spawn_tasks(&c.world);
    let obs = Rc::new(Obs {
        h: (*w.clients[obs_idx].h().unwrap()).clone(),
        discs: (0..NOD).map(|_| Slot::new()).collect(),
        lts: (0..NOL).map(|_| Slot::new()).collect(),
        log: RefCell::new(ObsLog::default()),
        next_inst: Cell::new(0),
        finalized: Cell::new(false),
    });
    for (i, ops) in c.observer.iter().enumerate() {
        let t = TaskCtx::new(100 + i, obs_idx);
        w.tasks.borrow_mut().push(t.clone());
        rig.net.sim.spawn(&format!("app:obs{}", i), counted(run_observer(w.clone(), obs.clone(), t, ops.clone(), c.n_world)));
    }

    let mut phases = 0;
    for round in 0..2 {
        loop {
            rig.settle("program")?;
            rig.check_runs(false)?;
            rig.check_no_request_pending()?;
            if rig.tasks_at_gate() == 0 {
                break;
            }
            phases += 1;
            if phases > 200 {
                return Err(fail("harness:too-many-phases", rig.detail("more than 200 phases")));
            }
            w.gate.open_next();
        }
        if round == 0 {
            w.cancel_all_waits();
        }
    }

    // activity has stopped: synchronise, drain, snapshot
    let ft = TaskCtx::new(999, obs_idx);
    w.tasks.borrow_mut().push(ft.clone());
    rig.net.sim.spawn("app:obs-final", counted(finalize(w.clone(), obs.clone(), ft)));
    rig.settle("finalize")?;
    rig.check_runs(false)?;
    rig.check_no_request_pending()?;
    if !obs.finalized.get() {
        return Err(fail("harness:finalize-incomplete", rig.detail("observer finalisation did not complete")));
    }

    // ---- ground truth -------------------------------------------------------------------------
    let events = truth.borrow().clone();
    let mut state = BusState::default();
    let mut states: Vec<BusState> = vec![state.clone()];
    for ev in &events {
        if let Err(e) = state.apply(ev) {
            return Err(fail("truth-listener:inconsistent-stream", rig.detail(&format!("the harness bus listener reported an impossible history: {}", e))));
        }
        states.push(state.clone());
    }
    // acknowledged state of the world clients must agree with what the listener saw
    {
        let board = w.board.borrow();
        let mut live_objs: BTreeSet<Uuid> = BTreeSet::new();
        for cc in w.clients.iter().take(c.n_world) {
            for s in &cc.objs {
                if let Some(id) = s.with(|o| o.id()) {
                    if !board.destroyed_objs.contains(&id.cookie.0) {
                        live_objs.insert(id.cookie.0);
                    }
                }
            }
            for s in &cc.scopes {
                if let Some(id) = s.with(|o| o.id()) {
                    if !board.ended_scopes.contains(&id) {
                        live_objs.insert(id.0.cookie.0);
                    }
                }
            }
        }
        let seen: BTreeSet<Uuid> = state.objects.values().map(|id| id.cookie.0).collect();
        if live_objs != seen {
            return Err(fail("truth-listener:disagrees-with-acknowledged-objects", rig.detail(&format!("objects the world clients hold alive: {:?}; objects live according to the harness bus listener: {:?}", live_objs, seen))));
        }
        let mut live_svcs: BTreeSet<Uuid> = BTreeSet::new();
        for cc in w.clients.iter().take(c.n_world) {
            for (_, id) in cc.live_service_slots() {
                if !board.destroyed_svcs.contains(&id.cookie.0) && live_objs.contains(&id.object_id.cookie.0) {
                    live_svcs.insert(id.cookie.0);
                }
            }
        }
        let seen: BTreeSet<Uuid> = state.services.values().map(|id| id.cookie.0).collect();
        if live_svcs != seen {
            return Err(fail("truth-listener:disagrees-with-acknowledged-services", rig.detail(&format!("services the world clients hold alive: {:?}; services live according to the harness bus listener: {:?}", live_svcs, seen))));
        }
    }
    let existed = |id: ObjectId, sids: &[ServiceId], e: &Entry| -> bool {
        let svcs = entry_svcs(e);
        states.iter().any(|st| st.objects.get(&id.uuid) == Some(&id) && svcs.iter().enumerate().all(|(i, s)| matches!(st.services.get(&(id.uuid, *s)), Some(sid) if sid.object_id == id && sids.get(i).map(|x| x == sid).unwrap_or(true))))
    };

    let log = obs.log.borrow();

    // ---- discoverer views ---------------------------------------------------------------------
    for v in &log.views {
        if let Some(m) = v.accessor_mismatch.first() {
            return Err(fail("discoverer-view:accessors-disagree", rig.detail(&format!("discoverer #{}: {}", v.inst, m))));
        }
        for (k, e) in v.entries.iter().enumerate() {
            let listed = &v.listed[k];
            if v.follows {
                let want = state.matching(e);
                if *listed != want {
                    return Err(fail(
                        "discoverer-view:differs-from-bus-state",
                        rig.detail(&format!("after activity stopped and all events were consumed, discoverer #{} (epoch {}) entry {} {:?} lists {:?} but the bus holds {:?}", v.inst, v.epoch, k, e, listed, want)),
                    ));
                }
            } else {
                for (id, sids) in listed {
                    if !existed(*id, sids, e) {
                        return Err(fail("discoverer-view:snapshot-lists-object-that-never-matched", rig.detail(&format!("current-only discoverer #{} entry {} {:?} lists {:?} {:?} which never existed like that", v.inst, k, e, id, sids))));
                    }
                }
            }
        }
    }

    // ---- event streams ------------------------------------------------------------------------
    let mut streams: BTreeMap<(usize, u32, u8, ObjectUuid), Vec<&EvRec>> = BTreeMap::new();
    for ev in &log.events {
        streams.entry((ev.inst, ev.epoch, ev.key, ev.object.uuid)).or_default().push(ev);
    }
    for ((inst, epoch, key, uuid), evs) in &streams {
        let Some((entries, _)) = log.meta.get(&(*inst, *epoch)) else { continue };
        let e = &entries[*key as usize];
        let mut live: Option<ObjectId> = None;
        for ev in evs {
            if ev.created {
                if live.is_some() {
                    return Err(fail("discoverer-events:created-twice", rig.detail(&format!("discoverer #{} epoch {} entry {} object {:?}: two Created events without a Destroyed in between: {:?}", inst, epoch, key, uuid, evs))));
                }
                if !existed(ev.object, &ev.services, e) {
                    return Err(fail("discoverer-events:created-for-object-that-never-matched", rig.detail(&format!("discoverer #{} entry {} {:?}: Created {:?} with services {:?}, but no such object with these services ever existed", inst, key, e, ev.object, ev.services))));
                }
                live = Some(ev.object);
            } else {
                match live {
                    None => return Err(fail("discoverer-events:destroyed-without-created", rig.detail(&format!("discoverer #{} epoch {} entry {} object {:?}: Destroyed without a preceding Created: {:?}", inst, epoch, key, uuid, evs)))),
                    Some(id) if id != ev.object => return Err(fail("discoverer-events:destroyed-names-other-object", rig.detail(&format!("discoverer #{} entry {}: Destroyed {:?} after Created {:?}", inst, key, ev.object, id)))),
                    Some(_) => live = None,
                }
            }
        }
    }
    // the streams of the final epoch fold to the listing
    for v in &log.views {
        for (k, _) in v.entries.iter().enumerate() {
            let mut folded: Vec<ObjectId> = vec![];
            for ((inst, epoch, key, _), evs) in &streams {
                if *inst == v.inst && *epoch == v.epoch && *key as usize == k {
                    if let Some(last) = evs.last() {
                        if last.created {
                            folded.push(last.object);
                        }
                    }
                }
            }
            folded.sort();
            let listed: Vec<ObjectId> = v.listed[k].iter().map(|(id, _)| *id).collect();
            if folded != listed {
                return Err(fail("discoverer-events:do-not-fold-to-view", rig.detail(&format!("discoverer #{} epoch {} entry {}: events fold to {:?} but the view lists {:?}", v.inst, v.epoch, k, folded, listed))));
            }
        }
    }

    // ---- lifetimes ----------------------------------------------------------------------------
    for l in &log.lifetimes {
        let live = state.objects.get(&l.id.uuid) == Some(&l.id);
        if l.ended && live {
            return Err(fail("lifetime:ended-but-object-alive", rig.detail(&format!("lifetime of {:?} reported ended, but the object is alive with that cookie at the end of the run", l.id))));
        }
        if l.ended && !l.teardown_started {
            return Err(fail("lifetime:ended-before-teardown-began", rig.detail(&format!("lifetime of {:?} reported ended before any operation destroying the object had started", l.id))));
        }
        if l.fin && !l.ended && !live {
            return Err(fail("lifetime:not-ended-although-object-gone", rig.detail(&format!("after activity stopped the lifetime of {:?} has not ended although the object is gone", l.id))));
        }
    }

    // ---- find / wait --------------------------------------------------------------------------
    let hist = w.hist.borrow();
    for f in &log.finds {
        let Some((id, sids)) = &f.result else { continue };
        let svcs = entry_svcs(&f.e);
        let name = if f.wait { "wait_for_object" } else { "find_object" };
        if let Some(want) = f.e.obj {
            if obj_uuid(want) != id.uuid {
                return Err(fail(format!("{}:wrong-object", name), rig.detail(&format!("{} for {:?} returned {:?}", name, f.e, id))));
            }
        }
        if sids.len() != svcs.len() || sids.iter().zip(&svcs).any(|(sid, u)| sid.uuid != *u || sid.object_id != *id) {
            return Err(fail(format!("{}:wrong-services", name), rig.detail(&format!("{} for {:?} returned {:?} with services {:?}", name, f.e, id, sids))));
        }
        let mut lo = f.t_start;
        let mut hi = f.t_end;
        let mut lives = vec![hist.objs.get(&id.cookie.0)];
        for s in sids {
            lives.push(hist.svcs.get(&s.cookie.0));
        }
        for l in lives {
            let Some(l) = l else {
                return Err(fail(format!("{}:unknown-id", name), rig.detail(&format!("{} for {:?} returned {:?} / {:?}: an id that no acknowledged creation ever returned", name, f.e, id, sids))));
            };
            lo = lo.max(l.start);
            if let Some(e) = l.teardown_end {
                hi = hi.min(e);
            }
        }
        if lo > hi {
            return Err(fail(format!("{}:never-coexisted-during-call", name), rig.detail(&format!("{} for {:?} (logical time {}..{}) returned {:?} with {:?}, which cannot all have been alive at one moment of the call", name, f.e, f.t_start, f.t_end, id, sids))));
        }
    }

    // ---- classification -------------------------------------------------------------------------
    let mut classes: Vec<&'static str> = vec![];
    let mut created_cookies: BTreeMap<ObjectUuid, BTreeSet<Uuid>> = BTreeMap::new();
    for ev in &events {
        if let BusEvent::ObjectCreated(id) = ev {
            created_cookies.entry(id.uuid).or_default().insert(id.cookie.0);
        }
    }
    let recreation = created_cookies.values().any(|s| s.len() >= 2);
    let all_entries: Vec<Entry> = log.meta.values().flat_map(|(e, _)| e.clone()).collect();
    let partial = all_entries.iter().any(|e| {
        let svcs = entry_svcs(e);
        !svcs.is_empty()
            && states.iter().any(|st| {
                st.objects.iter().any(|(u, _)| {
                    e.obj.map(|w| obj_uuid(w) == *u).unwrap_or(true) && {
                        let n = svcs.iter().filter(|s| st.services.contains_key(&(*u, **s))).count();
                        n < svcs.len() && (n > 0 || svcs.len() == 1)
                    }
                })
            })
    });
    let while_changing = log.starts_while_changing > 0;
    if recreation {
        classes.push("same-uuid-recreation");
    }
    if partial {
        classes.push("partial-service-set");
    }
    if while_changing {
        classes.push("start-while-changing");
    }
    if log.restarts > 0 {
        classes.push("restart");
    }
    if log.views.iter().any(|v| !v.follows) {
        classes.push("current-only-view");
    }
    if log.views.iter().any(|v| v.follows && v.listed.iter().any(|l| !l.is_empty())) {
        classes.push("converged-nonempty-view");
    }
    if log.events.len() >= 4 {
        classes.push("events>=4");
    }
    if log.events.iter().any(|e| !e.created) {
        classes.push("destroyed-event");
    }
    if log.lifetimes.iter().any(|l| l.ended) {
        classes.push("lifetime:ended");
    }
    if log.lifetimes.iter().any(|l| !l.ended) {
        classes.push("lifetime:alive");
    }
    if log.finds.iter().any(|f| !f.wait && f.result.is_some()) {
        classes.push("find:some");
    }
    if log.finds.iter().any(|f| !f.wait && f.result.is_none()) {
        classes.push("find:none");
    }
    if log.finds.iter().any(|f| f.wait) {
        classes.push("wait:returned");
    }
    if c.clients.iter().any(|cl| matches!(cl.tkind, TKind::Bounded(_))) {
        classes.push("bounded-transport");
    }
    if c.clients[obs_idx].proto == Proto::V14 {
        classes.push("observer-1.14");
    }
    if matches!(c.clients[obs_idx].proto, Proto::Capped(_)) {
        classes.push("observer-1.15..1.19");
    }
    if log.meta.values().any(|(e, _)| e.len() >= 2) {
        classes.push("several-entries");
    }
    for (kind, label) in [((false, false), "entry:any"), ((false, true), "entry:any-with-services"), ((true, false), "entry:specific"), ((true, true), "entry:specific-with-services")] {
        if all_entries.iter().any(|e| (e.obj.is_some(), e.svcs != 0) == kind) {
            classes.push(label);
        }
    }
    let nontrivial = recreation && partial && while_changing;
    let key = format!("{:?}|{:?}|{}|{}|{}", c.world, c.observer, c.sched_seed, c.policy % 8, c.det_seed);
    Ok(Outcome::Pass(PassInfo { nontrivial, fp: fingerprint(key.as_bytes()), classes }))
}
