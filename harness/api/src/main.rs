//! `vapi`: checks C06, C15 and C19 - real `aldrin::Client`s against a real `aldrin_broker::Broker`
//! on the deterministic single-threaded simulator (`simbus`).
//!
//! Environment switches (all off by default):
//! * `VAPI_EXCLUDE_F2=1`  classes `claims` (C06) never generate a refused channel claim
//!   (second claimant / claim of a dead channel); counted as `excluded:f2`. Class `prog` excludes
//!   the trigger by construction in any case.
//! * `VAPI_EXCLUDE_F5=1`  classes `late-abort` (C06) and `clean-late-abort` (C15) never drop a pending
//!   reply while (or right before) its client shuts down; counted as `excluded:f5`.
//! * `VAPI_EXCLUDE_F6=1`  class `listener-after-destroy` (C06) never polls a bus listener after
//!   `destroy()`; counted as `excluded:f6`.
//! * `VAPI_EXCLUDE_F7=1`  C15 applies `BrokerHandle::shutdown()` only at quiescence (no client
//!   request in flight). C06 always excludes the trigger (`excluded:f7`).
//! * `VAPI_DEBUG=1`, `VAPI_DEBUG_TAPES=1`, `VAPI_STEP_BOUND=n`  development aids.
#![allow(dead_code)]
#![allow(clippy::type_complexity)]
mod c06;
mod c15;
mod c19;
mod driver;
mod interp;
mod net;
mod prog;
mod util;

fn main() {
    vcommon::main(&[&c06::DEF, &c15::DEF, &c19::DEF])
}
