//! `vapi`: checks C06, C15 and C19 - real `aldrin::Client`s against a real `aldrin_broker::Broker`
//! on the deterministic single-threaded simulator (`simbus`).
//!
//! Environment switches (all off by default; every class may contain every shape, the switches
//! are opt-in aids that take one shape out again - the floor of that shape then fails, exit 2):
//! * `VAPI_EXCLUDE_F2=1`  no refused channel claims (second claimant, claim of a dead or closed end,
//!   same-client double bind, creator end killed while a claim is in flight); `excluded:f2`.
//! * `VAPI_EXCLUDE_F5=1`  no pending reply dropped while or right before its client shuts down;
//!   `excluded:f5`.
//! * `VAPI_EXCLUDE_F6=1`  no bus listener polled after `destroy()`; `excluded:f6`.
//! * `VAPI_EXCLUDE_F7=1`  no `BrokerHandle::shutdown()` with requests in flight (C06 operation
//!   `BrokerShutdown`, C15 cause only at quiescence), no connection shutdown combined with an early
//!   idle-shutdown request; `excluded:f7`.
//! * `VAPI_EXCLUDE_F8=1`  no claim future dropped before its reply (`Op::ClaimCancel`); `excluded:f8`.
//! * `VAPI_EXCLUDE_F9=1`  no client-initiated shutdown racing with `BrokerHandle::shutdown()` (C15
//!   cause `shutdown-request+broker-shutdown`, C06 `Shutdown` vs `BrokerShutdown`); `excluded:f9`.
//! * `VAPI_DEBUG=1`, `VAPI_DEBUG_TAPES=1`, `VAPI_TRACE_MSGS=1`, `VAPI_STEP_BOUND=n`  development aids.
#![allow(dead_code)]
#![allow(clippy::type_complexity)]
mod c05;
mod c06;
mod c15;
mod c19;
mod driver;
mod interp;
mod net;
mod prog;
mod util;

fn main() {
    vcommon::main(&[&c05::DEF, &c06::DEF, &c15::DEF, &c19::DEF])
}
