#![allow(dead_code)]
#![allow(clippy::type_complexity)]
mod c06;
mod c15;
mod c19;
mod driver;
mod interp;
mod net;
mod prog;
mod util;

fn main() {
    vcommon::main(&[&c06::DEF, &c15::DEF, &c19::DEF])
}
