//! C15 Client termination: every pending operation resolves at any fault point.
//!
//! Fixed multi-operation scenarios leave operations of every handle type pending on one client
//! (the "victim", client 0, whose transport is a `FaultyTransport`). A fault-free run under a
//! schedule measures the number T of transport operations; every k in 0..T is then run with an
//! injected error and with a disconnect (exhaustive over k, `extra` hook), and the four clean
//! causes are applied at generated program points.

use crate::driver::*;
use crate::interp::*;
use crate::net::*;
use crate::prog::*;
use aldrin::core::{ObjectUuid, ServiceUuid};
use aldrin::low_level::ServiceInfo;
use aldrin::Error;
use serde_json::json;
use std::cell::{Cell, RefCell};
use std::collections::BTreeMap;
use std::rc::Rc;
use std::task::Poll;
use vcommon::{fingerprint, CheckDef, ClassPlan, Ctx, Outcome, PassInfo, Tape, Tier};

pub static DEF: CheckDef = CheckDef {
    id: "C15",
    level: "fault_enumeration",
    rule: "Cases: 13 fixed scenarios in which one client (the victim) has operations of every handle type in flight or deliberately left pending (server loops, calls held by the callee, event/item/bus-event/discoverer streams, send_ready without credit, establish, lifetime end, wait_for_object, request bursts), run with a peer client against a real broker under generated schedules. Faults: for each (scenario, schedule) a fault-free run measures T completed transport operations (receive/send/flush) of the victim after the handshake; EVERY k in 0..T is executed with an injected error, with a disconnect and with an error that leaves the connection half-open (later writes fail, later reads stay silent) (class fault-sweep, exhaustive over k); classes fault-random and clean add generated schedules and the four clean causes (Handle::shutdown, last handle dropped, BrokerHandle::shutdown, BrokerHandle::shutdown_connection) and the combination Handle::shutdown + BrokerHandle::shutdown at generated program points (simulator step index). Classes fault-generated / clean-generated take a GENERATED multi-client program (C06's generator, operations that stop clients or the broker taken out; client 0 is the victim) instead of a fixed scenario, measure its fault-free run under its own schedule and inject the fault / apply the clean cause at a generated point of that run. Non-trivial: >=3 application operations of the victim pending when the client stops. Distinct = scenario + cause + point + schedule.",
    assumptions: &[
        "a transport operation = a receive that yielded, a send_start, a flush that completed, on the victim's side of the repository's channel transport; the handshake is not part of the fault domain",
        "'error' fails one operation and leaves the peer unaware until the client drops the transport; 'disconnect' closes the transport under the client at that operation",
        "operations started after the stop are probed on every value the application still holds; for values whose semantics allow a local Ok (send_ready with credit left, close of a closed end, replies that had arrived) only completion is required",
        "class clean-late-abort drops the victim's pending replies right after the shutdown request (shape of the repaired finding F5); the cause shutdown-request+broker-shutdown applies both at the same program point",
    ],
    plan,
    case,
    render,
    crashy: false,
    floors: &[(">=3-pending-at-stop", 0.25), ("scenario:generated", 0.25), ("fault:receive", 0.08), ("fault:send", 0.06), ("fault:flush", 0.06), ("probe:values>=5", 0.12), ("cause:shutdown-request", 0.04), ("cause:last-handle-dropped", 0.04), ("cause:broker-shutdown", 0.04), ("cause:broker-shutdown-connection", 0.04), ("cause:shutdown-request+broker-shutdown", 0.03), ("victim-transport:bounded", 0.2), ("victim-transport:bounded<=2", 0.08), ("crossing-shutdowns-under-backpressure", 0.008)],
    extra: Some(extra),
    extra_coverage: Some(extra_coverage),
};

const N_SCENARIOS: usize = 13;
const SWEEP_SCHEDULES: usize = 3;

fn plan(t: Tier) -> Vec<ClassPlan> {
    let k = match t {
        Tier::Quick => 1,
        Tier::Thorough => 20,
    };
    vec![
        ClassPlan { class: "fault-random", cases: 8_000 * k, min_len: 12, max_len: 18 },
        ClassPlan { class: "clean", cases: 10_000 * k, min_len: 12, max_len: 18 },
        ClassPlan { class: "clean-late-abort", cases: 800 * k, min_len: 12, max_len: 18 },
        ClassPlan { class: "fault-generated", cases: 9_000 * k, min_len: 40, max_len: 400 },
        ClassPlan { class: "clean-generated", cases: 6_000 * k, min_len: 40, max_len: 400 },
    ]
}

// ---------------------------------------------------------------------------------------------
// scenarios

#[derive(Clone, Debug)]
pub struct Scenario {
    pub name: &'static str,
    pub clients: Vec<ClientSpec>,
    pub tasks: Vec<TaskProg>,
    /// object UUID pool indices the victim creates
    pub victim_objects: Vec<u8>,
}

fn cs(tkind: TKind, proto: Proto) -> ClientSpec {
    ClientSpec { proto, tkind, tasks: 0, final_mode: FinalMode::Shutdown }
}

const HOLD: u32 = 0o7777_7777; // every call's promise is held by the server
const F: Filter = Filter { shape: 0, obj: 0, svc: 0 };

pub fn scenario(i: usize) -> Scenario {
    use End::*;
    use Op::*;
    let u = TKind::Unbounded;
    let v20 = Proto::V20;
    match i {
        0 => {
            // victim serves two services (one holds its promises); the peer calls
            let mut b = Builder::new(&[0, 0, 0, 1, 1]);
            b.ops(0, vec![CreateObject { o: 0, u: 0 }, CreateService { o: 0, s: 0, u: 0, ver: 1 }, CreateService { o: 0, s: 1, u: 1, ver: 1 }, SyncBroker]);
            b.op(1, Serve { s: 0, n: 0, script: 0 });
            b.op(2, Serve { s: 1, n: 0, script: HOLD });
            b.ops(3, vec![CreateProxy { p: 0, c: 0, s: 0 }, Call { p: 0, f: 1, mode: CallMode::Await }, Call { p: 0, f: 2, mode: CallMode::Await }, Call { p: 0, f: 3, mode: CallMode::Stash }, Call { p: 0, f: 1, mode: CallMode::Await }]);
            b.ops(4, vec![CreateProxy { p: 1, c: 0, s: 1 }, Call { p: 1, f: 1, mode: CallMode::Stash }, Call { p: 1, f: 1, mode: CallMode::Await }]);
            Scenario { name: "server-loops", clients: vec![cs(u, v20), cs(u, v20)], tasks: b.tasks, victim_objects: vec![0] }
        }
        1 => {
            // victim calls services of the peer whose promises are held or that nobody serves
            let mut b = Builder::new(&[0, 0, 0, 1, 1]);
            b.ops(3, vec![CreateObject { o: 0, u: 1 }, CreateService { o: 0, s: 0, u: 0, ver: 1 }, CreateService { o: 0, s: 1, u: 1, ver: 1 }]);
            b.op(4, Serve { s: 0, n: 0, script: HOLD });
            b.ops(0, vec![CreateProxy { p: 0, c: 1, s: 0 }, Call { p: 0, f: 1, mode: CallMode::Await }]);
            b.ops(1, vec![CreateProxy { p: 1, c: 1, s: 0 }, Call { p: 1, f: 2, mode: CallMode::Stash }, Call { p: 1, f: 3, mode: CallMode::Stash }, AwaitReply]);
            b.ops(2, vec![CreateProxy { p: 2, c: 1, s: 1 }, Call { p: 2, f: 1, mode: CallMode::Await }]);
            Scenario { name: "pending-calls", clients: vec![cs(u, v20), cs(u, v20)], tasks: b.tasks, victim_objects: vec![] }
        }
        2 => {
            // victim consumes events
            let mut b = Builder::new(&[0, 0, 0, 1, 1]);
            b.ops(3, vec![CreateObject { o: 0, u: 1 }, CreateService { o: 0, s: 0, u: 0, ver: 1 }]);
            b.ops(0, vec![CreateProxy { p: 0, c: 1, s: 0 }, Subscribe { p: 0, ev: 0 }, SubscribeAll { p: 0 }, SyncBroker, NextEvent { p: 0, n: 9, wait: true }]);
            b.ops(1, vec![CreateProxy { p: 1, c: 1, s: 0 }, Subscribe { p: 1, ev: 1 }, Subscribe { p: 1, ev: 2 }, NextEvent { p: 1, n: 9, wait: true }]);
            b.ops(2, vec![CreateObject { o: 0, u: 0 }, SyncClient, SyncBroker, SyncBroker]);
            b.ops(4, vec![WaitFor(Res::Svc(0)), Yield(4), Emit { s: 0, ev: 0 }, Emit { s: 0, ev: 1 }, SyncBroker, Emit { s: 0, ev: 2 }, Emit { s: 0, ev: 0 }]);
            Scenario { name: "event-streams", clients: vec![cs(u, v20), cs(u, v20)], tasks: b.tasks, victim_objects: vec![0] }
        }
        3 => {
            // victim sends: runs out of credit, and waits for a channel nobody claims
            let mut b = Builder::new(&[0, 0, 0, 1]);
            b.ops(0, vec![CreateChannel { ch: 0, claim: Snd, cap: 0 }, Unbind { ch: 0, end: Rcv }, Establish { ch: 0, end: Snd }, Send { ch: 0, n: 12 }]);
            b.ops(3, vec![Bind { ch: 0, end: Rcv, k: 0 }, Claim { ch: 0, end: Rcv, cap: 1 }, Recv { ch: 0, n: 3, wait: true }]);
            b.ops(1, vec![CreateChannel { ch: 1, claim: Snd, cap: 0 }, Establish { ch: 1, end: Snd }]);
            b.ops(2, vec![SyncBroker, SyncClient, SyncBroker]);
            Scenario { name: "channel-sender", clients: vec![cs(u, v20), cs(u, v20)], tasks: b.tasks, victim_objects: vec![] }
        }
        4 => {
            // victim receives on a channel it created and on one it claimed
            let mut b = Builder::new(&[0, 0, 0, 1, 1]);
            b.ops(0, vec![CreateChannel { ch: 0, claim: Rcv, cap: 2 }, Unbind { ch: 0, end: Snd }, Establish { ch: 0, end: Rcv }, Recv { ch: 0, n: 30, wait: true }]);
            b.ops(3, vec![Bind { ch: 0, end: Snd, k: 0 }, Claim { ch: 0, end: Snd, cap: 0 }, Send { ch: 0, n: 7 }]);
            b.ops(4, vec![CreateChannel { ch: 1, claim: Snd, cap: 0 }, Unbind { ch: 1, end: Rcv }, Establish { ch: 1, end: Snd }, Send { ch: 1, n: 3 }]);
            b.ops(1, vec![Bind { ch: 1, end: Rcv, k: 0 }, Claim { ch: 1, end: Rcv, cap: 4 }, Recv { ch: 1, n: 30, wait: true }]);
            b.ops(2, vec![SyncBroker, CreateObject { o: 0, u: 0 }, SyncBroker]);
            Scenario { name: "channel-receiver", clients: vec![cs(u, v20), cs(u, v20)], tasks: b.tasks, victim_objects: vec![0] }
        }
        5 => {
            // victim listens to the bus
            let mut b = Builder::new(&[0, 0, 0, 1]);
            b.ops(0, vec![CreateListener { l: 0 }, AddFilter { l: 0, f: F }, AddFilter { l: 0, f: Filter { shape: 2, obj: 0, svc: 0 } }, StartListener { l: 0, scope: Scope::All }, ListenerNext { l: 0, n: 40, wait: true }]);
            b.ops(1, vec![CreateListener { l: 1 }, AddFilter { l: 1, f: Filter { shape: 1, obj: 1, svc: 0 } }, StartListener { l: 1, scope: Scope::New }, ListenerNext { l: 1, n: 40, wait: true }]);
            b.ops(2, vec![CreateObject { o: 0, u: 0 }, CreateService { o: 0, s: 0, u: 0, ver: 0 }, DestroyService { s: 0 }, CreateService { o: 0, s: 1, u: 1, ver: 0 }]);
            b.ops(3, vec![CreateObject { o: 0, u: 1 }, CreateService { o: 0, s: 0, u: 0, ver: 0 }, SyncBroker, DropService { s: 0 }, DropObject { o: 0 }, CreateObject { o: 1, u: 1 }]);
            Scenario { name: "bus-listeners", clients: vec![cs(u, v20), cs(u, v20)], tasks: b.tasks, victim_objects: vec![0] }
        }
        6 => {
            // victim discovers
            let mut b = Builder::new(&[0, 0, 0, 1]);
            b.ops(0, vec![CreateDiscoverer { d: 0, entries: vec![Entry { obj: None, svcs: 0 }, Entry { obj: Some(1), svcs: 1 }, Entry { obj: None, svcs: 3 }], current_only: false }, DiscNext { d: 0, n: 40, wait: true }]);
            b.ops(1, vec![WaitForObject { e: Entry { obj: Some(2), svcs: 3 } }]);
            b.ops(2, vec![FindObject { e: Entry { obj: Some(1), svcs: 0 } }, CreateDiscoverer { d: 1, entries: vec![Entry { obj: Some(1), svcs: 0 }], current_only: true }, FindObject { e: Entry { obj: None, svcs: 1 } }, RestartDiscoverer { d: 1, current_only: false }]);
            b.ops(3, vec![CreateObject { o: 0, u: 1 }, CreateService { o: 0, s: 0, u: 0, ver: 0 }, CreateService { o: 0, s: 1, u: 1, ver: 0 }, SyncBroker, DropService { s: 0 }, CreateObject { o: 1, u: 0 }]);
            Scenario { name: "discoverers", clients: vec![cs(u, v20), cs(u, v20)], tasks: b.tasks, victim_objects: vec![] }
        }
        7 => {
            // lifetimes in both directions
            let mut b = Builder::new(&[0, 0, 0, 1, 1]);
            b.ops(3, vec![CreateScope { sc: 0 }]);
            b.ops(0, vec![CreateLifetime { lt: 0, k: 0 }, LifetimeEnded { lt: 0 }]);
            b.ops(1, vec![CreateScope { sc: 0 }, CreateScope { sc: 1 }, EndScope { sc: 1 }, SyncBroker]);
            b.ops(4, vec![CreateLifetime { lt: 0, k: 1 }, LifetimeEnded { lt: 0 }]);
            b.ops(2, vec![CreateLifetime { lt: 1, k: 0 }, SyncBroker, CreateObject { o: 0, u: 0 }]);
            Scenario { name: "lifetimes", clients: vec![cs(u, v20), cs(u, v20)], tasks: b.tasks, victim_objects: vec![0] }
        }
        8 => {
            // bursts of requests, extra handles, object churn, one server loop
            let mut b = Builder::new(&[0, 0, 0, 0, 1]);
            b.ops(0, vec![CloneHandle, SyncBroker, SyncClient, SyncBroker, CloneHandle, SyncBroker, SyncBroker, DropExtraHandle, SyncBroker]);
            b.ops(1, vec![CreateObject { o: 0, u: 0 }, DestroyObject { o: 0 }, CreateObject { o: 0, u: 0 }, DropObject { o: 0 }, CreateObject { o: 0, u: 0 }, CreateService { o: 0, s: 0, u: 0, ver: 2 }]);
            b.op(2, Serve { s: 0, n: 0, script: 0o4560 });
            b.ops(3, vec![CreateObject { o: 1, u: 2 }, CreateService { o: 1, s: 1, u: 1, ver: 2 }, Emit { s: 1, ev: 0 }, DestroyService { s: 1 }, CreateService { o: 1, s: 2, u: 1, ver: 2 }]);
            b.ops(4, vec![CreateProxy { p: 0, c: 0, s: 0 }, Call { p: 0, f: 0, mode: CallMode::Await }, Call { p: 0, f: 0, mode: CallMode::Await }, Call { p: 0, f: 0, mode: CallMode::Await }, Call { p: 0, f: 0, mode: CallMode::Await }, Call { p: 0, f: 0, mode: CallMode::Await }]);
            Scenario { name: "request-bursts", clients: vec![cs(u, v20), cs(u, v20)], tasks: b.tasks, victim_objects: vec![0, 2] }
        }
        9 => {
            // channel ends in every state, on a 1.14 client
            let mut b = Builder::new(&[0, 0, 0, 1]);
            b.ops(0, vec![CreateChannel { ch: 0, claim: Snd, cap: 0 }, CreateChannel { ch: 1, claim: Rcv, cap: 3 }, CloseEnd { ch: 1, end: Snd }, Establish { ch: 0, end: Snd }]);
            b.ops(3, vec![CreateChannel { ch: 0, claim: Rcv, cap: 2 }, Unbind { ch: 0, end: Snd }, Establish { ch: 0, end: Rcv }, Recv { ch: 0, n: 2, wait: true }, CloseEnd { ch: 0, end: Rcv }]);
            b.ops(1, vec![Bind { ch: 1, end: Snd, k: 0 }, Claim { ch: 1, end: Snd, cap: 0 }, Send { ch: 1, n: 9 }]);
            b.ops(2, vec![SyncBroker, CreateObject { o: 0, u: 0 }, SyncBroker]);
            Scenario { name: "channel-states-1.14", clients: vec![cs(u, Proto::V14), cs(u, v20)], tasks: b.tasks, victim_objects: vec![0] }
        }
        10 => {
            // cross traffic on a bounded(1) transport
            let mut b = Builder::new(&[0, 0, 0, 1, 1, 1]);
            b.ops(3, vec![CreateObject { o: 0, u: 1 }, CreateService { o: 0, s: 0, u: 0, ver: 1 }]);
            b.op(4, Serve { s: 0, n: 0, script: 0 });
            b.ops(0, vec![CreateProxy { p: 0, c: 1, s: 0 }, SubscribeAll { p: 0 }, NextEvent { p: 0, n: 60, wait: true }]);
            b.ops(1, vec![CreateProxy { p: 1, c: 1, s: 0 }, Call { p: 1, f: 0, mode: CallMode::Await }, Call { p: 1, f: 0, mode: CallMode::Await }, Call { p: 1, f: 0, mode: CallMode::Await }, Call { p: 1, f: 0, mode: CallMode::Await }, Call { p: 1, f: 0, mode: CallMode::Await }, Call { p: 1, f: 0, mode: CallMode::Await }]);
            b.ops(2, vec![CreateObject { o: 0, u: 0 }, CreateService { o: 0, s: 0, u: 1, ver: 1 }, Serve { s: 0, n: 0, script: 0 }]);
            let mut emits = vec![WaitFor(Res::Svc(0)), Yield(3)];
            for k in 0..14u8 {
                emits.push(Emit { s: 0, ev: k % 3 });
            }
            b.ops(5, emits);
            Scenario { name: "bounded-cross-traffic", clients: vec![cs(TKind::Bounded(1), v20), cs(TKind::Bounded(2), v20)], tasks: b.tasks, victim_objects: vec![0] }
        }
        12 => {
            // victim holds promises of unanswered calls and waits for their abort (Promise::aborted)
            let mut b = Builder::new(&[0, 0, 0, 1, 1]);
            b.ops(0, vec![CreateObject { o: 0, u: 0 }, CreateService { o: 0, s: 0, u: 0, ver: 1 }, Serve { s: 0, n: 2, script: HOLD }, AwaitAborted, ReleaseHeld { ok: true }]);
            b.ops(1, vec![CreateObject { o: 1, u: 2 }, CreateService { o: 1, s: 1, u: 1, ver: 1 }, Serve { s: 1, n: 1, script: HOLD }, AwaitAborted]);
            b.ops(2, vec![SyncBroker, SyncClient, SyncBroker]);
            b.ops(3, vec![CreateProxy { p: 0, c: 0, s: 0 }, Call { p: 0, f: 1, mode: CallMode::Stash }, Call { p: 0, f: 2, mode: CallMode::Abort }, SyncBroker]);
            b.ops(4, vec![CreateProxy { p: 1, c: 0, s: 1 }, Call { p: 1, f: 1, mode: CallMode::Await }]);
            Scenario { name: "promise-aborted", clients: vec![cs(u, v20), cs(u, v20)], tasks: b.tasks, victim_objects: vec![0, 2] }
        }
        _ => {
            // a bit of everything on the victim
            let mut b = Builder::new(&[0, 0, 0, 0, 0, 0, 1, 1, 1]);
            b.ops(6, vec![CreateObject { o: 0, u: 1 }, CreateService { o: 0, s: 0, u: 0, ver: 1 }, CreateScope { sc: 0 }]);
            b.op(7, Serve { s: 0, n: 0, script: HOLD });
            b.ops(0, vec![CreateObject { o: 0, u: 0 }, CreateService { o: 0, s: 0, u: 1, ver: 1 }, Serve { s: 0, n: 0, script: 0 }]);
            b.ops(1, vec![CreateProxy { p: 0, c: 1, s: 0 }, Subscribe { p: 0, ev: 0 }, Call { p: 0, f: 0, mode: CallMode::Stash }, Call { p: 0, f: 0, mode: CallMode::Await }]);
            b.ops(2, vec![CreateChannel { ch: 0, claim: Rcv, cap: 2 }, Unbind { ch: 0, end: Snd }, Establish { ch: 0, end: Rcv }, Recv { ch: 0, n: 20, wait: true }]);
            b.ops(8, vec![Bind { ch: 0, end: Snd, k: 0 }, Claim { ch: 0, end: Snd, cap: 0 }, Send { ch: 0, n: 4 }, CreateProxy { p: 0, c: 0, s: 0 }, Call { p: 0, f: 1, mode: CallMode::Await }]);
            b.ops(3, vec![CreateListener { l: 0 }, AddFilter { l: 0, f: F }, StartListener { l: 0, scope: Scope::All }, ListenerNext { l: 0, n: 30, wait: true }]);
            b.ops(4, vec![CreateLifetime { lt: 0, k: 0 }, LifetimeEnded { lt: 0 }]);
            b.ops(5, vec![CreateDiscoverer { d: 0, entries: vec![Entry { obj: None, svcs: 1 }], current_only: false }, DiscNext { d: 0, n: 30, wait: true }]);
            Scenario { name: "everything", clients: vec![cs(u, v20), cs(TKind::Bounded(4), v20)], tasks: b.tasks, victim_objects: vec![0] }
        }
    }
}

// ---------------------------------------------------------------------------------------------
// case encoding

#[derive(Debug, Clone, Copy, PartialEq, Eq)]
pub enum Cause {
    /// fault-free run to quiescence (measures T and the number of steps)
    None,
    Fault(FaultKind),
    ShutdownRequest,
    LastHandleDropped,
    BrokerShutdown,
    BrokerShutdownConnection,
    /// the victim asks for its shutdown at the moment the broker is shut down
    ShutdownRequestAndBrokerShutdown,
}

impl Cause {
    /// the broker goes away as a whole (every client stops)
    fn broker_down(self) -> bool {
        matches!(self, Cause::BrokerShutdown | Cause::ShutdownRequestAndBrokerShutdown)
    }
}

#[derive(Debug, Clone)]
pub struct Case15 {
    pub scenario: usize,
    pub cause: Cause,
    /// transport operation index (faults) or simulator step (clean causes); reduced modulo the
    /// measured range when `relative` is set
    pub point: u32,
    pub relative: bool,
    pub sched_seed: u64,
    pub policy: u8,
    pub det_seed: u64,
    pub late_abort: bool,
    /// class clean-late-abort: the application drops its pending replies right after asking
    /// for the shutdown
    pub drop_replies_after_request: bool,
    /// clean cause applied after the program has run to quiescence
    pub at_quiescence: bool,
    /// generated classes: transports of the victim / of the other clients replaced by bounded
    /// ones of this FIFO size (None = the scenario's own choice)
    pub victim_fifo: Option<usize>,
    pub peer_fifo: Option<usize>,
    /// classes *-generated: the scenario is a generated multi-client program (client 0 = victim)
    pub gen: Option<std::sync::Arc<Scenario>>,
}

impl Case15 {
    /// The scenario with this case's transport choice applied.
    fn scenario(&self) -> Scenario {
        let mut sc = match &self.gen {
            Some(g) => (**g).clone(),
            None => scenario(self.scenario),
        };
        for (i, cl) in sc.clients.iter_mut().enumerate() {
            if let Some(n) = if i == 0 { self.victim_fifo } else { self.peer_fifo } {
                cl.tkind = TKind::Bounded(n);
            }
        }
        sc
    }
}

/// A generated program as a scenario: client 0 is the victim; operations that stop clients or the
/// broker are taken out (the cause under test is the only stop), everything else is C06's mix.
fn generated_scenario(tape: &[u8]) -> (Scenario, u64, u64, u8) {
    let allow = Allow { broker_shutdown_in_flight: false, client_vs_broker_shutdown: false, ..Allow::from_env() };
    let p = decode_program(tape, allow, Aim::Mixed, 40);
    let mut tasks = p.tasks.clone();
    let mut victim_objects = vec![];
    for t in tasks.iter_mut() {
        for op in t.ops.iter_mut() {
            match op {
                Op::Shutdown | Op::BrokerShutdown => *op = Op::SyncClient,
                Op::CreateObject { u, .. } if t.client == 0 && !victim_objects.contains(u) => victim_objects.push(*u),
                _ => {}
            }
        }
    }
    // a uuid a peer may hold as well says nothing about the victim's cleanup
    let peers: Vec<u8> = tasks.iter().filter(|t| t.client != 0).flat_map(|t| t.ops.iter()).filter_map(|op| if let Op::CreateObject { u, .. } = op { Some(*u) } else { None }).collect();
    victim_objects.retain(|u| !peers.contains(u));
    (Scenario { name: "generated", clients: p.clients.clone(), tasks, victim_objects }, p.sched_seed, p.det_seed, p.policy)
}

fn decode_generated(class: &str, tape: &[u8]) -> Case15 {
    let mut t = Tape::new(tape);
    let sel = t.u8();
    let point = t.u32();
    let fifo = |b: u8| if b < 128 { None } else { Some([1usize, 1, 2, 2, 3, 4, 8, 16][(b as usize - 128) % 8]) };
    let victim_fifo = fifo(t.u8());
    let peer_fifo = fifo(t.u8());
    let rest = t.rest();
    let (sc, sched_seed, det_seed, policy) = generated_scenario(rest);
    let cause = if class == "fault-generated" {
        match sel % 3 {
            0 => Cause::Fault(FaultKind::Error),
            1 => Cause::Fault(FaultKind::Eof),
            _ => Cause::Fault(FaultKind::HalfOpen),
        }
    } else {
        match sel % 5 {
            0 => Cause::ShutdownRequest,
            1 => Cause::LastHandleDropped,
            2 => Cause::BrokerShutdown,
            3 => Cause::BrokerShutdownConnection,
            _ if std::env::var("VAPI_EXCLUDE_F9").map(|v| v == "1").unwrap_or(false) => Cause::BrokerShutdown,
            _ => Cause::ShutdownRequestAndBrokerShutdown,
        }
    };
    let late_abort = !crate::c06::exclude_f5();
    Case15 { scenario: N_SCENARIOS, cause, point, relative: true, sched_seed, policy, det_seed, late_abort, drop_replies_after_request: false, at_quiescence: false, victim_fifo, peer_fifo, gen: Some(std::sync::Arc::new(sc)) }
}

fn decode(class: &str, tape: &[u8]) -> Case15 {
    if class.ends_with("-generated") {
        return decode_generated(class, tape);
    }
    let mut t = Tape::new(tape);
    let scenario = t.below(N_SCENARIOS);
    let sel = t.u8();
    let point = t.u32();
    let sched_seed = t.u32() as u64;
    let policy = t.u8();
    let det_seed = t.u16() as u64;
    let (cause, relative) = match class {
        "fault-sweep" => (
            match sel % 4 {
                0 => Cause::None,
                1 => Cause::Fault(FaultKind::Error),
                2 => Cause::Fault(FaultKind::Eof),
                _ => Cause::Fault(FaultKind::HalfOpen),
            },
            false,
        ),
        "fault-random" => (
            match sel % 3 {
                0 => Cause::Fault(FaultKind::Error),
                1 => Cause::Fault(FaultKind::Eof),
                _ => Cause::Fault(FaultKind::HalfOpen),
            },
            true,
        ),
        "clean-late-abort" => (Cause::ShutdownRequest, true),
        _ => (
            match sel % 5 {
                0 => Cause::ShutdownRequest,
                1 => Cause::LastHandleDropped,
                2 => Cause::BrokerShutdown,
                3 => Cause::BrokerShutdownConnection,
                _ if std::env::var("VAPI_EXCLUDE_F9").map(|v| v == "1").unwrap_or(false) => Cause::BrokerShutdown,
                _ => Cause::ShutdownRequestAndBrokerShutdown,
            },
            true,
        ),
    };
    // back-pressure on the victim's (and the peers') transport: a zero byte keeps the scenario's own
    // transports; the exhaustive sweep's tapes end before these bytes
    let fifo = |b: u8| if b < 96 { None } else { Some([1usize, 1, 2, 2, 3, 4, 8, 16][(b as usize - 96) % 8]) };
    let victim_fifo = fifo(t.u8());
    let peer_fifo = fifo(t.u8());
    let late_abort = !crate::c06::exclude_f5();
    let drop_replies_after_request = class == "clean-late-abort" && late_abort;
    // only these scenarios leave pending replies with the victim's application
    let scenario = if class == "clean-late-abort" { [1, 11][scenario % 2] } else { scenario };
    Case15 { scenario, cause, point, relative, sched_seed, policy, det_seed, late_abort, drop_replies_after_request, at_quiescence: false, victim_fifo, peer_fifo, gen: None }
}

pub fn exclude_f7() -> bool {
    std::env::var("VAPI_EXCLUDE_F7").map(|v| v == "1").unwrap_or(false)
}

fn sweep_tape(scenario: usize, sel: u8, k: u32, sched_seed: u32, policy: u8, det: u16) -> Vec<u8> {
    // smallest byte that decodes to `scenario`
    let mut b = 0u16;
    while ((b as usize * N_SCENARIOS) >> 8) != scenario {
        b += 1;
    }
    let mut v = vec![b as u8, sel];
    v.extend_from_slice(&k.to_le_bytes());
    v.extend_from_slice(&sched_seed.to_le_bytes());
    v.push(policy);
    v.extend_from_slice(&det.to_le_bytes());
    v
}

fn render(class: &str, tape: &[u8]) -> String {
    let c = decode(class, tape);
    let sc = c.scenario();
    let mut s = format!(
        "scenario {} '{}' cause={:?} point={}{} sched_seed={} policy={:?} det_seed={}\n",
        c.scenario,
        sc.name,
        c.cause,
        c.point,
        if c.relative { " (mod measured range)" } else { "" },
        c.sched_seed,
        simbus::Policy::from_u8(c.policy),
        c.det_seed
    );
    for (i, cl) in sc.clients.iter().enumerate() {
        s.push_str(&format!("client c{}{}: {:?} {:?}\n", i, if i == 0 { " (victim)" } else { "" }, cl.proto, cl.tkind));
    }
    for (i, t) in sc.tasks.iter().enumerate() {
        s.push_str(&format!("task t{} on c{}: {:?}\n", i, t.client, t.ops));
    }
    s
}

fn case(class: &str, tape: &[u8], _strict: bool) -> Outcome {
    let c = decode(class, tape);
    let det = c.det_seed;
    match vcommon::with_det_seed(det, 1 << 21, move || run_case(&c)) {
        Ok(o) => o,
        Err(_) => {
            let p = vcommon::last_panic_any_thread();
            let loc = norm_location(&p.location());
            let sig = if in_sut(&loc) { format!("panic:case-thread:{}", loc) } else { format!("harness:panic:case-thread:{}", loc) };
            Outcome::fail(sig, format!("panic outside of a simulator task: {}", p.0))
        }
    }
}

// ---------------------------------------------------------------------------------------------
// execution

pub struct Measure {
    /// completed transport operations of the victim after the handshake
    pub t_ops: u64,
    /// simulator steps from the start of the program to quiescence
    pub steps: u64,
}

fn run_case(c: &Case15) -> Outcome {
    let mut c = c.clone();
    if c.relative {
        // same schedule, same determinism seed: the fault-free run is the exact prefix
        let m = match execute(&c, Cause::None, 0) {
            Ok(Done::Measured(m)) => m,
            Ok(Done::Outcome(o)) => return o,
            Err(o) => return o,
        };
        let range = match c.cause {
            Cause::Fault(_) => m.t_ops,
            _ => m.steps + 1,
        };
        if range == 0 {
            if c.gen.is_some() {
                // a generated program whose victim never touches its transport
                return Outcome::Pass(PassInfo { nontrivial: false, fp: 0, classes: vec!["generated:victim-idle"] });
            }
            return Outcome::fail("harness:empty-range", "fault-free run has no transport operation");
        }
        c.point = (c.point as u64 % range) as u32;
        if c.cause.broker_down() && exclude_f7() {
            c.point = m.steps as u32;
        }
        c.at_quiescence = !matches!(c.cause, Cause::Fault(_)) && c.point as u64 >= m.steps;
    }
    match execute(&c, c.cause, c.point) {
        Ok(Done::Outcome(o)) => o,
        Ok(Done::Measured(m)) => Outcome::Pass(PassInfo { nontrivial: false, fp: fingerprint(format!("measure|{}|{}|{}", c.scenario, m.t_ops, m.steps).as_bytes()), classes: vec!["measure-run"] }),
        Err(o) => o,
    }
}

enum Done {
    Measured(Measure),
    Outcome(Outcome),
}

pub fn measure(scenario: usize, sched_seed: u64, policy: u8, det_seed: u64) -> Option<Measure> {
    let c = Case15 { scenario, cause: Cause::None, point: 0, relative: false, sched_seed, policy, det_seed, late_abort: false, drop_replies_after_request: false, at_quiescence: false, victim_fifo: None, peer_fifo: None, gen: None };
    let r = vcommon::with_det_seed(det_seed, 1 << 21, move || match execute(&c, Cause::None, 0) {
        Ok(Done::Measured(m)) => Some(m),
        _ => None,
    });
    r.ok().flatten()
}

fn execute(c: &Case15, cause: Cause, point: u32) -> Result<Done, Outcome> {
    let sc = c.scenario();
    let allow = Allow { late_abort: c.late_abort, ..Allow::from_env() };
    let mut rig = Rig::connect(c.sched_seed, c.policy, &sc.clients, allow)?;
    let ctl = rig.net.clients[0].ctl.clone();
    let base = ctl.ops.get();
    let pending_at_stop: Rc<Cell<Option<usize>>> = Rc::new(Cell::new(None));
    let count_pending = {
        let w = rig.world.clone();
        move || w.tasks.borrow().iter().filter(|t| t.client == 0 && matches!(&*t.blocked.borrow(), Some(b) if b.class == Class::Request || b.class == Class::Stream)).count()
    };
    if let Cause::Fault(kind) = cause {
        ctl.fault_at.set(Some((base + point as u64, kind)));
        let slot = pending_at_stop.clone();
        let cp = count_pending.clone();
        *ctl.on_fire.borrow_mut() = Some(Box::new(move || slot.set(Some(cp()))));
    }
    let steps_before = rig.net.sim.total_steps;
    rig.spawn_tasks(&sc.tasks);

    let victim = rig.world.clients[0].clone();
    match cause {
        Cause::None | Cause::Fault(_) => {
            rig.settle("scenario")?;
        }
        _ => {
            // run up to the program point, then apply the clean cause
            let r = rig.net.sim.run(point as u64);
            let _ = r;
            if let Some((name, p)) = rig.net.sim.panics().first() {
                return Err(panic_outcome(name, p));
            }
            pending_at_stop.set(Some(count_pending()));
            match cause {
                Cause::ShutdownRequest => {
                    victim.shutdown_requested.set(true);
                    if let Some(h) = victim.h() {
                        h.shutdown();
                    }
                    if c.drop_replies_after_request && victim.drop_replies() > 0 {
                        // pending replies dropped while the client shuts down (F5 trigger)
                        rig.world.count("late-abort");
                    }
                }
                Cause::LastHandleDropped => {
                    victim.shutdown_requested.set(true);
                    if !c.late_abort && victim.drop_replies() > 0 {
                        rig.world.count("excluded:f5");
                        rig.settle("scenario")?;
                    }
                    if !victim.stash.borrow().is_empty() {
                        rig.world.count("late-abort");
                    }
                    victim.drop_all();
                }
                Cause::BrokerShutdown | Cause::ShutdownRequestAndBrokerShutdown => {
                    if cause == Cause::ShutdownRequestAndBrokerShutdown {
                        if let Some(h) = victim.h() {
                            h.shutdown();
                        }
                    }
                    for cc in rig.world.clients.iter() {
                        cc.shutdown_requested.set(true);
                    }
                    let mut bh = rig.net.broker.clone();
                    rig.net.sim.spawn("driver:broker-shutdown", counted(async move { bh.shutdown().await }));
                }
                Cause::BrokerShutdownConnection => {
                    victim.shutdown_requested.set(true);
                    let mut bh = rig.net.broker.clone();
                    let ch = rig.net.clients[0].conn_handle.borrow().clone();
                    let Some(ch) = ch else { return Err(fail("harness:no-connection-handle", "victim has no connection handle")) };
                    rig.net.sim.spawn("driver:shutdown-connection", counted(async move {
                        let _ = bh.shutdown_connection(&ch).await;
                    }));
                }
                _ => unreachable!(),
            }
            rig.settle("stop")?;
            if cause == Cause::LastHandleDropped {
                // requests that were in flight hand their results to an application that has
                // let go of everything: those values are dropped as they arrive
                let mut rounds = 0;
                while victim.holds_anything() && rounds < 20 {
                    victim.drop_all();
                    rig.settle("stop")?;
                    rounds += 1;
                }
            }
        }
    }

    if cause == Cause::None {
        // the fault-free run must be healthy: nothing request-class pending, nobody stopped
        rig.check_runs(false)?;
        rig.check_no_request_pending()?;
        return Ok(Done::Measured(Measure { t_ops: ctl.ops.get() - base, steps: rig.net.sim.total_steps - steps_before }));
    }

    let w = rig.world.clone();
    let mut classes: Vec<&'static str> = vec![];
    if let Cause::Fault(_) = cause {
        match ctl.fired.get() {
            None => {
                // cannot happen with the schedule the point was measured under
                return Ok(Done::Outcome(Outcome::Pass(PassInfo { nontrivial: false, fp: 0, classes: vec!["fault-not-reached"] })));
            }
            Some("receive") => classes.push("fault:receive"),
            Some("send") => classes.push("fault:send"),
            Some(_) => classes.push("fault:flush"),
        }
        victim.shutdown_requested.set(true);
    }

    // 1. the run future has returned, with the right result
    let run = rig.net.clients[0].client_result.borrow().clone();
    let when = if c.at_quiescence { "-at-quiescence" } else { "" };
    match (&cause, &run) {
        (_, None) => return Err(fail("run-result:still-running", rig.detail(&format!("Client::run() of the victim has not returned after {:?}", cause)))),
        (Cause::Fault(_), Some(Err(RunErr::Transport(_)))) => {}
        (Cause::Fault(_), Some(other)) => return Err(fail(format!("run-result:fault-gave-{}", variant(&format!("{:?}", other))), rig.detail(&format!("after an injected transport fault Client::run() returned {:?} instead of the transport error", other)))),
        (_, Some(Ok(()))) => {}
        (_, Some(Err(e))) => {
            let sig = match e {
                RunErr::Unexpected(kind, _) => format!("run-result:{}{}:unexpected-message:{}", cause_name(cause), when, kind),
                other => format!("run-result:{}{}:{}", cause_name(cause), when, variant(&format!("{:?}", other))),
            };
            return Err(fail(sig, rig.detail(&format!("after clean cause {:?} Client::run() of the victim returned {:?}", cause, e))));
        }
    }
    // the other clients must be unharmed (unless the broker shut everybody down)
    for i in 1..rig.net.clients.len() {
        let r = rig.net.clients[i].client_result.borrow().clone();
        match (&cause, r) {
            (c, Some(Ok(()))) if c.broker_down() => {}
            (c, None) if c.broker_down() => return Err(fail("run-result:still-running", rig.detail(&format!("Client::run() of peer c{} has not returned after the broker was shut down", i)))),
            (c, Some(Err(e))) if c.broker_down() => {
                return Err(fail(format!("run-result:{}{}:{}", cause_name(*c), when, variant(&format!("{:?}", e))), rig.detail(&format!("after BrokerHandle::shutdown() Client::run() of peer c{} returned {:?}", i, e))));
            }
            (_, None) => {}
            (_, Some(r)) => return Err(fail("peer-run-result:peer-stopped", rig.detail(&format!("peer c{} stopped although only the victim was stopped: {:?}", i, r)))),
        }
    }

    // 2. no application future of the victim is pending any more
    w.cancel_all_waits();
    let mut rounds = 0;
    loop {
        rig.settle("after-stop")?;
        if rig.tasks_at_gate() == 0 {
            break;
        }
        rounds += 1;
        if rounds > 50 {
            return Err(fail("harness:too-many-phases", rig.detail("gate rounds")));
        }
        w.gate.open_next();
    }
    for t in w.tasks.borrow().iter() {
        if t.client != 0 && !cause.broker_down() {
            continue;
        }
        if !t.done.get() {
            let b = t.blocked.borrow().clone();
            let what = b.as_ref().map(|b| b.what).unwrap_or("?");
            return Err(fail(format!("pending-after-stop:{}", what), rig.detail(&format!("after the client stopped ({:?}) task t{} of client c{} is still blocked in {} ({:?})", cause, t.id, t.client, what, b.map(|b| b.class)))));
        }
    }
    let pending = pending_at_stop.get().unwrap_or(0);
    if pending >= 3 {
        classes.push(">=3-pending-at-stop");
    }
    if pending >= 5 {
        classes.push(">=5-pending-at-stop");
    }

    // 3. the broker side has noticed
    match (&cause, rig.net.clients[0].conn_result.borrow().clone()) {
        (_, None) => return Err(fail("broker-side:connection-still-running", rig.detail("the victim's Connection::run() has not returned"))),
        // a clean stop of the client is a clean close for the broker side as well (a broker that
        // shuts down itself is covered by the run-result check above)
        (Cause::ShutdownRequest | Cause::LastHandleDropped | Cause::BrokerShutdownConnection, Some(Err(e))) => {
            return Err(fail(format!("broker-side:clean-stop-seen-as-{}", variant(&format!("{:?}", e))), rig.detail(&format!("after clean cause {:?} the victim's Connection::run() ended with {:?}", cause, e))));
        }
        _ => {}
    }

    // 4. operations started afterwards complete at once, with an error or end-of-stream
    let report = Rc::new(ProbeReport::default());
    if cause != Cause::LastHandleDropped {
        let fut = probe(w.clone(), victim.clone(), report.clone());
        rig.net.sim.spawn("app:probe:c0", counted(fut));
        rig.settle("probe")?;
        if !report.done.get() {
            let cur = report.current.borrow().clone();
            return Err(fail(format!("hang-after-stop:{}", cur), rig.detail(&format!("operation {} started after the client had stopped does not complete", cur))));
        }
        if let Some((name, got)) = report.bad.borrow().first().cloned() {
            return Err(fail(format!("ok-after-stop:{}", name), rig.detail(&format!("operation {} started after the client had stopped returned {}", name, got))));
        }
        if report.values.get() >= 5 {
            classes.push("probe:values>=5");
        }
        if report.not_immediate.get() > 0 {
            classes.push("probe:completed-later-than-first-poll");
        }
        if report.shutdown_errors.get() > 0 {
            classes.push("probe:Error::Shutdown");
        }
        if report.other_errors.get() > 0 {
            classes.push("probe:other-error");
        }
    }

    // 5. another client can re-create the dead client's objects
    if !cause.broker_down() {
        let idx = rig.net.add_client(Proto::V20, TKind::Unbounded);
        rig.settle("fresh-client")?;
        let Some(h) = rig.net.clients[idx].handle.borrow_mut().take() else {
            return Err(fail("broker-side:fresh-client-cannot-connect", rig.detail("a fresh client could not connect after the victim stopped")));
        };
        let results: Rc<RefCell<Vec<(u8, Result<(), Error>)>>> = Rc::new(RefCell::new(vec![]));
        let r2 = results.clone();
        let uuids = sc.victim_objects.clone();
        let (_, done) = rig.net.sim.spawn_out("app:fresh", counted(async move {
            let mut keep = vec![];
            for u in uuids {
                let r = h.create_object(obj_uuid(u)).await;
                match r {
                    Ok(o) => {
                        keep.push(o);
                        r2.borrow_mut().push((u, Ok(())));
                    }
                    Err(e) => r2.borrow_mut().push((u, Err(e))),
                }
            }
            h.shutdown();
            drop(keep);
        }));
        rig.settle("fresh-client")?;
        if done.borrow().is_none() {
            return Err(fail("broker-side:fresh-client-hangs", rig.detail("create_object of a fresh client does not complete")));
        }
        for (u, r) in results.borrow().iter() {
            if let Err(e) = r {
                return Err(fail("broker-side:object-uuid-still-taken", rig.detail(&format!("after the victim stopped a fresh client cannot create object uuid #{}: {:?}", u, e))));
            }
        }
    }

    classes.push(match cause {
        Cause::Fault(FaultKind::Error) => "cause:transport-error",
        Cause::Fault(FaultKind::Eof) => "cause:transport-disconnect",
        Cause::Fault(FaultKind::HalfOpen) => "cause:transport-error-half-open",
        Cause::ShutdownRequest => "cause:shutdown-request",
        Cause::LastHandleDropped => "cause:last-handle-dropped",
        Cause::BrokerShutdown => "cause:broker-shutdown",
        Cause::ShutdownRequestAndBrokerShutdown => "cause:shutdown-request+broker-shutdown",
        Cause::BrokerShutdownConnection => "cause:broker-shutdown-connection",
        Cause::None => "cause:none",
    });
    for label in ["excluded:f5", "late-abort"] {
        if w.stat(label) > 0 {
            classes.push(label);
        }
    }
    classes.push(if c.gen.is_some() { "scenario:generated" } else { SCENARIO_LABELS[c.scenario] });
    if let Some(n) = c.victim_fifo {
        classes.push("victim-transport:bounded");
        if n <= 2 {
            classes.push("victim-transport:bounded<=2");
            if matches!(cause, Cause::ShutdownRequestAndBrokerShutdown) {
                classes.push("crossing-shutdowns-under-backpressure");
            }
        }
    }
    if c.peer_fifo.is_some() {
        classes.push("peer-transport:bounded");
    }
    let key = format!("{}|{:?}|{}|{}|{}|{}|{:?}|{:?}", c.scenario, cause, point, c.sched_seed, c.policy % 8, c.det_seed, c.victim_fifo, c.peer_fifo);
    Ok(Done::Outcome(Outcome::Pass(PassInfo { nontrivial: pending >= 3, fp: fingerprint(key.as_bytes()), classes })))
}

fn cause_name(c: Cause) -> &'static str {
    match c {
        Cause::None => "none",
        Cause::Fault(FaultKind::Error) => "transport-error",
        Cause::Fault(FaultKind::Eof) => "transport-disconnect",
        Cause::Fault(FaultKind::HalfOpen) => "transport-error-half-open",
        Cause::ShutdownRequest => "shutdown-request",
        Cause::LastHandleDropped => "last-handle-dropped",
        Cause::BrokerShutdown => "broker-shutdown",
        Cause::ShutdownRequestAndBrokerShutdown => "shutdown-request+broker-shutdown",
        Cause::BrokerShutdownConnection => "broker-shutdown-connection",
    }
}

const SCENARIO_LABELS: [&str; N_SCENARIOS] = [
    "scenario:server-loops",
    "scenario:pending-calls",
    "scenario:event-streams",
    "scenario:channel-sender",
    "scenario:channel-receiver",
    "scenario:bus-listeners",
    "scenario:discoverers",
    "scenario:lifetimes",
    "scenario:request-bursts",
    "scenario:channel-states-1.14",
    "scenario:bounded-cross-traffic",
    "scenario:everything",
    "scenario:promise-aborted",
];

// ---------------------------------------------------------------------------------------------
// probes: operations started after the client has stopped

#[derive(Default)]
pub struct ProbeReport {
    pub current: RefCell<String>,
    pub done: Cell<bool>,
    /// operations that must fail (or end the stream) but returned a value
    pub bad: RefCell<Vec<(String, String)>>,
    pub values: Cell<u32>,
    pub ops: Cell<u32>,
    pub not_immediate: Cell<u32>,
    pub shutdown_errors: Cell<u32>,
    pub other_errors: Cell<u32>,
}

impl ProbeReport {
    fn start(&self, name: &str) {
        *self.current.borrow_mut() = name.to_string();
        self.ops.set(self.ops.get() + 1);
    }

    fn err(&self, e: &Error) {
        if *e == Error::Shutdown {
            self.shutdown_errors.set(self.shutdown_errors.get() + 1);
        } else {
            self.other_errors.set(self.other_errors.get() + 1);
        }
    }

    /// A request that must not succeed any more.
    fn must_fail<T>(&self, name: &str, r: Result<T, Error>) {
        match r {
            Ok(_) => self.bad.borrow_mut().push((name.to_string(), "Ok".to_string())),
            Err(e) => self.err(&e),
        }
    }

    /// Completion is all that is required.
    fn may_succeed<T>(&self, r: Result<T, Error>) {
        if let Err(e) = r {
            self.err(&e);
        }
    }
}

/// Awaits `fut`, noting whether it completed on its first poll.
async fn timed<F: std::future::Future>(rep: &ProbeReport, fut: F) -> F::Output {
    let mut fut = Box::pin(fut);
    let mut polls = 0;
    std::future::poll_fn(|cx| {
        polls += 1;
        match fut.as_mut().poll(cx) {
            Poll::Ready(v) => {
                if polls > 1 {
                    rep.not_immediate.set(rep.not_immediate.get() + 1);
                }
                Poll::Ready(v)
            }
            Poll::Pending => Poll::Pending,
        }
    })
    .await
}

async fn probe(w: Rc<World>, cc: Rc<ClientCtx>, rep: Rc<ProbeReport>) {
    let r = &*rep;
    let val = || r.values.set(r.values.get() + 1);
    // handles
    let mut handles: Vec<aldrin::Handle> = vec![];
    if let Some(h) = cc.h() {
        handles.push((*h).clone());
    }
    handles.extend(std::mem::take(&mut *cc.extra.borrow_mut()));
    let known_service = w.board.borrow().services.values().next().copied();
    let known_scope = w.board.borrow().scopes.iter().flatten().next().copied();
    for h in &handles {
        val();
        r.start("Handle::create_object");
        r.must_fail("Handle::create_object", timed(r, h.create_object(ObjectUuid(uuid::Uuid::from_u128(0xdead)))).await);
        r.start("Handle::sync_client");
        r.must_fail("Handle::sync_client", timed(r, h.sync_client()).await);
        r.start("Handle::sync_broker");
        r.must_fail("Handle::sync_broker", timed(r, h.sync_broker()).await);
        r.start("Handle::create_bus_listener");
        r.must_fail("Handle::create_bus_listener", timed(r, h.create_bus_listener()).await);
        r.start("ChannelBuilder::claim_sender");
        r.must_fail("ChannelBuilder::claim_sender", timed(r, h.create_low_level_channel().claim_sender()).await);
        r.start("ChannelBuilder::claim_receiver");
        r.must_fail("ChannelBuilder::claim_receiver", timed(r, h.create_low_level_channel().claim_receiver(4)).await);
        r.start("Handle::find_object");
        r.must_fail("Handle::find_object", timed(r, h.find_object(None, Vec::<ServiceUuid>::new())).await);
        r.start("Handle::wait_for_object");
        r.must_fail("Handle::wait_for_object", timed(r, h.wait_for_object(None, Vec::<ServiceUuid>::new())).await);
        r.start("Handle::create_lifetime_scope");
        r.must_fail("Handle::create_lifetime_scope", timed(r, h.create_lifetime_scope()).await);
        r.start("Handle::create_discoverer");
        r.must_fail("Handle::create_discoverer", timed(r, h.create_discoverer::<u8>().add(0, None, Vec::<ServiceUuid>::new()).build()).await);
        r.start("Handle::version");
        r.must_fail("Handle::version", timed(r, h.version()).await);
        if let Some(id) = known_service {
            r.start("Handle::create_proxy");
            r.must_fail("Handle::create_proxy", timed(r, h.create_proxy(id)).await);
        }
        if let Some(id) = known_scope {
            r.start("Handle::create_lifetime");
            r.must_fail("Handle::create_lifetime", timed(r, h.create_lifetime(id)).await);
        }
        h.shutdown();
    }
    // objects
    for s in &cc.objs {
        if let Some(o) = s.get() {
            val();
            r.start("Object::create_service");
            r.must_fail("Object::create_service", timed(r, o.create_service(svc_uuid(0), ServiceInfo::new(0))).await);
            r.start("Object::destroy");
            r.must_fail("Object::destroy", timed(r, o.destroy()).await);
        }
    }
    // services
    for s in &cc.svcs {
        if let Some(mut svc) = s.take() {
            val();
            r.start("Service::next_call");
            let mut n = 0;
            loop {
                match timed(r, svc.next_call()).await {
                    Some(call) => {
                        n += 1;
                        r.must_fail("Call::ok", call.ok(0u64));
                        if n > 10_000 {
                            r.bad.borrow_mut().push(("Service::next_call".into(), "endless stream".into()));
                            break;
                        }
                    }
                    None => break,
                }
            }
            r.start("Service::emit");
            r.must_fail("Service::emit", svc.emit(0, 0u64));
            r.start("Service::destroy");
            r.must_fail("Service::destroy", timed(r, svc.destroy()).await);
        }
    }
    // held promises
    let held: Vec<_> = std::mem::take(&mut *cc.held.borrow_mut()).into_iter().collect();
    for (p, _) in held {
        val();
        r.start("Promise::ok");
        r.must_fail("Promise::ok", p.ok(0u64));
    }
    // pending replies issued before the stop: completion is required (a value may have arrived)
    let stash: Vec<_> = std::mem::take(&mut *cc.stash.borrow_mut()).into_iter().collect();
    for (reply, _, _) in stash {
        val();
        r.start("PendingReply::await");
        r.may_succeed(timed(r, reply).await);
    }
    // proxies
    for s in &cc.proxies {
        if let Some(mut px) = s.take() {
            val();
            r.start("Proxy::call");
            r.must_fail("Proxy::call", timed(r, px.call(0, 0u64, None)).await);
            r.start("Proxy::subscribe");
            r.must_fail("Proxy::subscribe", timed(r, px.subscribe(0)).await);
            r.start("Proxy::unsubscribe");
            r.must_fail("Proxy::unsubscribe", timed(r, px.unsubscribe(0)).await);
            r.start("Proxy::subscribe_all");
            r.must_fail("Proxy::subscribe_all", timed(r, px.subscribe_all()).await);
            r.start("Proxy::unsubscribe_all");
            r.must_fail("Proxy::unsubscribe_all", timed(r, px.unsubscribe_all()).await);
            r.start("Proxy::next_event");
            let mut n = 0;
            while timed(r, px.next_event()).await.is_some() {
                n += 1;
                if n > 10_000 {
                    r.bad.borrow_mut().push(("Proxy::next_event".into(), "endless stream".into()));
                    break;
                }
            }
        }
    }
    // channel ends
    for s in &cc.snd {
        match s.take() {
            Some(SndEnd::Est(mut x)) => {
                val();
                r.start("Sender::send_ready");
                match timed(r, x.send_ready()).await {
                    Ok(()) => {
                        r.start("Sender::start_send_item");
                        r.must_fail("Sender::start_send_item", x.start_send_item(0u64));
                    }
                    Err(e) => r.err(&e),
                }
                r.start("Sender::receiver_closed");
                timed(r, x.receiver_closed()).await;
                r.start("Sender::close");
                r.may_succeed(timed(r, x.close()).await);
            }
            Some(SndEnd::Pending(mut x)) => {
                val();
                r.start("PendingSender::wait_established");
                timed(r, x.wait_established()).await;
                r.start("PendingSender::establish");
                // the other end may have been claimed (and the notification delivered) before the
                // stop: then the value had arrived and a local Ok is legitimate
                let claimed = w.board.borrow().chans.get(&x.cookie().0).map(|i| i.claim_ok || i.claim_inflight || i.claim_attempts > 0).unwrap_or(true);
                if claimed {
                    r.may_succeed(timed(r, x.establish()).await);
                } else {
                    r.must_fail("PendingSender::establish", timed(r, x.establish()).await);
                }
            }
            Some(SndEnd::Unclaimed(x)) => {
                val();
                r.start("UnclaimedSender::claim");
                // note: a refused claim trips F2's assertion only in a running client
                r.must_fail("UnclaimedSender::claim", timed(r, x.claim()).await);
            }
            None => {}
        }
    }
    for s in &cc.rcv {
        match s.take() {
            Some(RcvEnd::Est(mut x)) => {
                val();
                r.start("Receiver::next_item");
                let mut n = 0;
                loop {
                    match timed(r, x.next_item::<u64>()).await {
                        Ok(Some(_)) => {
                            n += 1;
                            if n > 10_000 {
                                r.bad.borrow_mut().push(("Receiver::next_item".into(), "endless stream".into()));
                                break;
                            }
                        }
                        Ok(None) => break,
                        Err(e) => {
                            r.err(&e);
                            break;
                        }
                    }
                }
                r.start("Receiver::close");
                r.may_succeed(timed(r, x.close()).await);
            }
            Some(RcvEnd::Pending(mut x)) => {
                val();
                r.start("PendingReceiver::close");
                r.may_succeed(timed(r, x.close()).await);
            }
            Some(RcvEnd::Unclaimed(x)) => {
                val();
                r.start("UnclaimedReceiver::claim");
                r.must_fail("UnclaimedReceiver::claim", timed(r, x.claim(2)).await);
            }
            None => {}
        }
    }
    // listeners
    for s in &cc.lis {
        if let Some(b) = s.take() {
            if b.destroyed {
                continue;
            }
            let mut bl = b.bl;
            val();
            r.start("BusListener::next_event");
            let mut n = 0;
            while timed(r, bl.next_event()).await.is_some() {
                n += 1;
                if n > 10_000 {
                    r.bad.borrow_mut().push(("BusListener::next_event".into(), "endless stream".into()));
                    break;
                }
            }
            r.start("BusListener::start");
            r.must_fail("BusListener::start", timed(r, bl.start(aldrin::core::BusListenerScope::All)).await);
            r.start("BusListener::stop");
            r.must_fail("BusListener::stop", timed(r, bl.stop()).await);
            r.start("BusListener::add_filter");
            r.must_fail("BusListener::add_filter", bl.add_filter(aldrin::core::BusListenerFilter::object(ObjectUuid(uuid::Uuid::from_u128(0xbeef)))));
            r.start("BusListener::destroy");
            r.must_fail("BusListener::destroy", timed(r, bl.destroy()).await);
        }
    }
    // discoverers
    for s in &cc.disc {
        if let Some(mut d) = s.take() {
            val();
            r.start("Discoverer::next_event");
            let mut n = 0;
            while timed(r, d.next_event()).await.is_some() {
                n += 1;
                if n > 10_000 {
                    r.bad.borrow_mut().push(("Discoverer::next_event".into(), "endless stream".into()));
                    break;
                }
            }
            r.start("Discoverer::restart");
            r.must_fail("Discoverer::restart", timed(r, d.restart()).await);
        }
    }
    // lifetimes and scopes
    for s in &cc.lts {
        if let Some(mut l) = s.take() {
            val();
            r.start("Lifetime::ended");
            timed(r, l.ended()).await;
        }
    }
    for s in &cc.scopes {
        if let Some(sc) = s.get() {
            val();
            r.start("LifetimeScope::end");
            r.must_fail("LifetimeScope::end", timed(r, sc.end()).await);
        }
    }
    r.start("done");
    r.done.set(true);
}

// ---------------------------------------------------------------------------------------------
// exhaustive sweep over the fault index

fn sweep_schedules(seed: u64) -> Vec<(u32, u8, u16)> {
    let mut r = vcommon::SplitMix(vcommon::mix(seed, 0xC15));
    let mut v = vec![(0u32, 3u8, 0u16)]; // round-robin, plain seeds
    while v.len() < SWEEP_SCHEDULES {
        v.push((r.next() as u32, r.next() as u8, r.next() as u16));
    }
    v
}

fn extra(ctx: &mut Ctx) {
    let scheds = sweep_schedules(ctx.seed);
    let scheds: Vec<_> = match ctx.tier {
        Tier::Quick => scheds,
        Tier::Thorough => {
            let mut r = vcommon::SplitMix(vcommon::mix(ctx.seed, 0xC15_0002));
            let mut v = scheds;
            while v.len() < 24 {
                v.push((r.next() as u32, r.next() as u8, r.next() as u16));
            }
            v
        }
    };
    for sc in 0..N_SCENARIOS {
        for (ss, pol, det) in &scheds {
            let Some(m) = measure(sc, *ss as u64, *pol, *det as u64) else {
                // the failure of the fault-free run is reported through the case path
                ctx.eval_case("fault-sweep", &sweep_tape(sc, 0, 0, *ss, *pol, *det));
                continue;
            };
            ctx.eval_case("fault-sweep", &sweep_tape(sc, 0, 0, *ss, *pol, *det));
            for k in 0..m.t_ops as u32 {
                ctx.eval_case("fault-sweep", &sweep_tape(sc, 1, k, *ss, *pol, *det));
                ctx.eval_case("fault-sweep", &sweep_tape(sc, 2, k, *ss, *pol, *det));
                ctx.eval_case("fault-sweep", &sweep_tape(sc, 3, k, *ss, *pol, *det));
            }
        }
    }
}

fn extra_coverage(_t: Tier) -> serde_json::Value {
    // the parent recomputes the fault-free measurements (cheap) to document the swept ranges
    let seed: u64 = std::env::var("VERIF_SEED").ok().and_then(|s| s.parse::<i64>().ok()).map(|v| v as u64).unwrap_or(1);
    let _ = seed;
    let mut per: BTreeMap<String, serde_json::Value> = BTreeMap::new();
    for sc in 0..N_SCENARIOS {
        let m = measure(sc, 0, 3, 0);
        per.insert(
            scenario(sc).name.to_string(),
            match m {
                Some(m) => json!({"transport_ops_round_robin_schedule": m.t_ops, "steps": m.steps}),
                None => json!("fault-free run failed"),
            },
        );
    }
    json!({
        "exhaustive": true,
        "exhaustive_over": "transport operation index k in 0..T of the victim, with error, with disconnect and with half-open error, for every scenario under each sweep schedule (class fault-sweep)",
        "scenarios": per,
    })
}
