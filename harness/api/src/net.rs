//! Wiring of a real broker and real clients on the simulator, plus the transport adapters.

use aldrin::core::message::{Message, MessageOps};
use aldrin::core::transport::AsyncTransport;
use aldrin::error::RunError;
use aldrin::{Client, Handle};
use aldrin_broker::{Broker, BrokerHandle, ConnectionError, ConnectionHandle};
use aldrin_core::channel::{self, Bounded, Unbounded};
use simbus::{Sim, TaskId};
use std::cell::{Cell, RefCell};
use std::pin::Pin;
use std::rc::Rc;
use std::task::{Context, Poll};

// ---------------------------------------------------------------------------------------------
// busy-loop detection
//
// A future that spins inside one `poll` call (never returning Pending) cannot be interrupted by a
// single-threaded executor. Every task spawned by this crate bumps a thread-local epoch per poll;
// the client-side transport counts how often it is polled within one epoch and panics beyond a
// bound no legitimate poll comes near (a poll handles at most the messages queued at that moment).

thread_local! {
    static EPOCH: Cell<u64> = const { Cell::new(0) };
}

pub const BUSY_LOOP_BOUND: u64 = 50_000;
pub const BUSY_LOOP_MARK: &str = "vapi: transport polled 50000 times within one task poll";

/// Wraps a future so that each poll starts a new epoch.
pub fn counted<F: std::future::Future>(fut: F) -> impl std::future::Future<Output = F::Output> {
    let mut fut = Box::pin(fut);
    std::future::poll_fn(move |cx| {
        EPOCH.with(|e| e.set(e.get() + 1));
        fut.as_mut().poll(cx)
    })
}

fn epoch() -> u64 {
    EPOCH.with(|e| e.get())
}

// ---------------------------------------------------------------------------------------------
// transports

/// The repository's in-memory transports behind one type.
#[derive(Debug)]
pub enum AnyT {
    U(Unbounded),
    B(Bounded),
}

#[derive(Debug, Clone, Copy, PartialEq, Eq)]
pub enum TKind {
    Unbounded,
    Bounded(usize),
}

impl TKind {
    pub fn pair(self) -> (AnyT, AnyT) {
        match self {
            TKind::Unbounded => {
                let (a, b) = channel::unbounded();
                (AnyT::U(a), AnyT::U(b))
            }
            TKind::Bounded(n) => {
                let (a, b) = channel::bounded(n);
                (AnyT::B(a), AnyT::B(b))
            }
        }
    }
}

impl AsyncTransport for AnyT {
    type Error = channel::Disconnected;

    fn receive_poll(self: Pin<&mut Self>, cx: &mut Context) -> Poll<Result<Message, Self::Error>> {
        match self.get_mut() {
            AnyT::U(t) => Pin::new(t).receive_poll(cx),
            AnyT::B(t) => Pin::new(t).receive_poll(cx),
        }
    }

    fn send_poll_ready(self: Pin<&mut Self>, cx: &mut Context) -> Poll<Result<(), Self::Error>> {
        match self.get_mut() {
            AnyT::U(t) => Pin::new(t).send_poll_ready(cx),
            AnyT::B(t) => Pin::new(t).send_poll_ready(cx),
        }
    }

    fn send_start(self: Pin<&mut Self>, msg: Message) -> Result<(), Self::Error> {
        match self.get_mut() {
            AnyT::U(t) => Pin::new(t).send_start(msg),
            AnyT::B(t) => Pin::new(t).send_start(msg),
        }
    }

    fn send_poll_flush(self: Pin<&mut Self>, cx: &mut Context) -> Poll<Result<(), Self::Error>> {
        match self.get_mut() {
            AnyT::U(t) => Pin::new(t).send_poll_flush(cx),
            AnyT::B(t) => Pin::new(t).send_poll_flush(cx),
        }
    }
}

#[derive(Debug, Clone, Copy, PartialEq, Eq)]
pub enum FaultKind {
    /// the operation with the chosen index fails with an error; the peer notices nothing until
    /// the client drops its transport
    Error,
    /// at the chosen index the transport is closed under the client (the peer sees the hang-up at
    /// the same moment); this and every later operation reports the disconnect
    Eof,
    /// the operation with the chosen index fails with an error and the connection stays
    /// half-broken: later writes fail, later reads neither fail nor deliver anything (the
    /// `AsyncTransport` contract calls a transport unusable after its first error; a user that
    /// goes on reading, expecting a second error, waits forever)
    HalfOpen,
}

#[derive(Debug, Clone, PartialEq, Eq)]
pub enum TErr {
    Injected,
    Disconnected,
}

/// Shared control block of a `FaultyTransport`.
#[derive(Default)]
pub struct FaultCtl {
    /// number of completed transport operations so far (receive that yielded a message or an
    /// error, send_start, flush that completed)
    pub ops: Cell<u64>,
    pub recvs: Cell<u64>,
    pub sends: Cell<u64>,
    pub flushes: Cell<u64>,
    pub fault_at: Cell<Option<(u64, FaultKind)>>,
    pub fired: Cell<Option<&'static str>>,
    seen_epoch: Cell<u64>,
    polls_in_epoch: Cell<u64>,
    /// called once at the moment the fault fires
    pub on_fire: RefCell<Option<Box<dyn FnMut()>>>,
}

impl FaultCtl {
    fn next_op(&self) -> Option<FaultKind> {
        let i = self.ops.get();
        self.ops.set(i + 1);
        match self.fault_at.get() {
            Some((k, kind)) if k == i => Some(kind),
            _ => None,
        }
    }

    fn fire(&self, which: &'static str) {
        self.fired.set(Some(which));
        if let Some(mut f) = self.on_fire.borrow_mut().take() {
            f();
        }
    }
}

/// `AsyncTransport` adapter that counts receive/send/flush operations and injects an error or a
/// disconnect at operation index k. Without a configured fault it is a pass-through.
pub struct FaultyTransport<T> {
    inner: Option<T>,
    ctl: Rc<FaultCtl>,
    failed: Option<TErr>,
    /// after a `HalfOpen` fault: reads stay pending
    read_dead: bool,
}

impl<T> FaultyTransport<T> {
    pub fn new(inner: T, ctl: Rc<FaultCtl>) -> Self {
        FaultyTransport { inner: Some(inner), ctl, failed: None, read_dead: false }
    }

    fn inject(&mut self, kind: FaultKind, which: &'static str) -> TErr {
        let e = match kind {
            FaultKind::Error => TErr::Injected,
            FaultKind::HalfOpen => {
                self.read_dead = true;
                TErr::Injected
            }
            FaultKind::Eof => {
                self.inner = None;
                TErr::Disconnected
            }
        };
        self.failed = Some(e.clone());
        self.ctl.fire(which);
        e
    }
}

impl<T: AsyncTransport + Unpin> AsyncTransport for FaultyTransport<T> {
    type Error = TErr;

    fn receive_poll(self: Pin<&mut Self>, cx: &mut Context) -> Poll<Result<Message, TErr>> {
        let this = self.get_mut();
        let ep = epoch();
        if this.ctl.seen_epoch.get() == ep {
            let n = this.ctl.polls_in_epoch.get() + 1;
            this.ctl.polls_in_epoch.set(n);
            if n > BUSY_LOOP_BOUND {
                this.ctl.polls_in_epoch.set(0);
                panic!("{}", BUSY_LOOP_MARK);
            }
        } else {
            this.ctl.seen_epoch.set(ep);
            this.ctl.polls_in_epoch.set(0);
        }
        if this.read_dead {
            return Poll::Pending;
        }
        if let Some(e) = &this.failed {
            return Poll::Ready(Err(e.clone()));
        }
        let Some(inner) = this.inner.as_mut() else {
            return Poll::Ready(Err(TErr::Disconnected));
        };
        match Pin::new(inner).receive_poll(cx) {
            Poll::Pending => Poll::Pending,
            Poll::Ready(r) => {
                this.ctl.recvs.set(this.ctl.recvs.get() + 1);
                if let Some(kind) = this.ctl.next_op() {
                    return Poll::Ready(Err(this.inject(kind, "receive")));
                }
                Poll::Ready(r.map_err(|_| TErr::Disconnected))
            }
        }
    }

    fn send_poll_ready(self: Pin<&mut Self>, cx: &mut Context) -> Poll<Result<(), TErr>> {
        let this = self.get_mut();
        if let Some(e) = &this.failed {
            return Poll::Ready(Err(e.clone()));
        }
        let Some(inner) = this.inner.as_mut() else {
            return Poll::Ready(Err(TErr::Disconnected));
        };
        Pin::new(inner).send_poll_ready(cx).map_err(|_| TErr::Disconnected)
    }

    fn send_start(self: Pin<&mut Self>, msg: Message) -> Result<(), TErr> {
        let this = self.get_mut();
        if let Some(e) = &this.failed {
            return Err(e.clone());
        }
        if this.inner.is_none() {
            return Err(TErr::Disconnected);
        }
        this.ctl.sends.set(this.ctl.sends.get() + 1);
        if let Some(kind) = this.ctl.next_op() {
            return Err(this.inject(kind, "send"));
        }
        Pin::new(this.inner.as_mut().unwrap()).send_start(msg).map_err(|_| TErr::Disconnected)
    }

    fn send_poll_flush(self: Pin<&mut Self>, cx: &mut Context) -> Poll<Result<(), TErr>> {
        let this = self.get_mut();
        if let Some(e) = &this.failed {
            return Poll::Ready(Err(e.clone()));
        }
        let Some(inner) = this.inner.as_mut() else {
            return Poll::Ready(Err(TErr::Disconnected));
        };
        match Pin::new(inner).send_poll_flush(cx) {
            Poll::Pending => Poll::Pending,
            Poll::Ready(r) => {
                this.ctl.flushes.set(this.ctl.flushes.get() + 1);
                if let Some(kind) = this.ctl.next_op() {
                    return Poll::Ready(Err(this.inject(kind, "flush")));
                }
                Poll::Ready(r.map_err(|_| TErr::Disconnected))
            }
        }
    }
}

/// Development aid (`VAPI_TRACE_MSGS=1`): prints every message that crosses a transport end.
pub struct Logged<T> {
    inner: T,
    name: String,
    on: bool,
    /// rewrite the minor version of an outgoing `Connect2` (see `Proto::Capped`)
    cap_minor: Option<u32>,
}

impl<T> Logged<T> {
    pub fn new(inner: T, name: String) -> Self {
        Logged { inner, name, on: std::env::var_os("VAPI_TRACE_MSGS").is_some(), cap_minor: None }
    }

    pub fn capped(mut self, minor: Option<u32>) -> Self {
        self.cap_minor = minor;
        self
    }
}

impl<T: AsyncTransport + Unpin> AsyncTransport for Logged<T>
where
    T::Error: std::fmt::Debug,
{
    type Error = T::Error;

    fn receive_poll(self: Pin<&mut Self>, cx: &mut Context) -> Poll<Result<Message, Self::Error>> {
        let this = self.get_mut();
        let r = Pin::new(&mut this.inner).receive_poll(cx);
        if this.on {
            match &r {
                Poll::Ready(Ok(m)) => eprintln!("[msg] {} <- {:?}", this.name, m.kind()),
                Poll::Ready(Err(e)) => eprintln!("[msg] {} <- ERR {:?}", this.name, e),
                Poll::Pending => {}
            }
        }
        r
    }

    fn send_poll_ready(self: Pin<&mut Self>, cx: &mut Context) -> Poll<Result<(), Self::Error>> {
        let this = self.get_mut();
        Pin::new(&mut this.inner).send_poll_ready(cx)
    }

    fn send_start(self: Pin<&mut Self>, msg: Message) -> Result<(), Self::Error> {
        let this = self.get_mut();
        if this.on {
            eprintln!("[msg] {} -> {:?}", this.name, msg.kind());
        }
        let msg = match (msg, this.cap_minor) {
            (Message::Connect2(mut c), Some(minor)) => {
                c.minor_version = c.minor_version.min(minor);
                Message::Connect2(c)
            }
            (m, _) => m,
        };
        Pin::new(&mut this.inner).send_start(msg)
    }

    fn send_poll_flush(self: Pin<&mut Self>, cx: &mut Context) -> Poll<Result<(), Self::Error>> {
        let this = self.get_mut();
        let r = Pin::new(&mut this.inner).send_poll_flush(cx);
        if this.on {
            if let Poll::Ready(x) = &r {
                eprintln!("[msg] {} flush {:?}", this.name, x.as_ref().map(|_| ()));
            }
        }
        r
    }
}

// ---------------------------------------------------------------------------------------------
// results

#[derive(Debug, Clone, PartialEq, Eq)]
pub enum RunErr {
    /// `RunError::UnexpectedMessageReceived`: message kind and full message
    Unexpected(String, String),
    Transport(String),
    Other(String),
    Connect(String),
}

impl RunErr {
    pub fn from_run<E: std::fmt::Debug>(e: RunError<E>) -> Self {
        match e {
            RunError::UnexpectedMessageReceived(m) => RunErr::Unexpected(format!("{:?}", m.kind()), format!("{:?}", m)),
            RunError::Transport(e) => RunErr::Transport(format!("{:?}", e)),
            RunError::Serialize(e) => RunErr::Other(format!("Serialize({:?})", e)),
            RunError::Deserialize(e) => RunErr::Other(format!("Deserialize({:?})", e)),
        }
    }
}

#[derive(Debug, Clone, PartialEq, Eq)]
pub enum ConnErr {
    Accept(String),
    UnexpectedShutdown,
    Transport(String),
    Other(String),
}

#[derive(Debug, Clone, Copy, PartialEq, Eq)]
pub enum Proto {
    /// `Client::connect`: protocol 1.20
    V20,
    /// `ClientBuilder::connect1`: protocol 1.14
    V14,
    /// `Client::connect` against a broker that only speaks up to 1.<minor> (15..=19). The real
    /// broker cannot be restricted, so the client's transport lowers the minor version its
    /// `Connect2` offers; broker and client then both negotiate and run 1.<minor>.
    Capped(u8),
}

pub struct ClientNet {
    pub name: String,
    pub proto: Proto,
    pub tkind: TKind,
    pub conn_task: TaskId,
    pub conn_result: Rc<RefCell<Option<Result<(), ConnErr>>>>,
    pub conn_handle: Rc<RefCell<Option<ConnectionHandle>>>,
    pub client_task: TaskId,
    pub client_result: Rc<RefCell<Option<Result<(), RunErr>>>>,
    /// the first handle, available once the handshake is through
    pub handle: Rc<RefCell<Option<Handle>>>,
    pub ctl: Rc<FaultCtl>,
}

pub struct Net {
    pub sim: Sim,
    pub broker: BrokerHandle,
    pub broker_task: TaskId,
    pub broker_done: Rc<RefCell<Option<()>>>,
    pub clients: Vec<ClientNet>,
}

impl Net {
    pub fn new(mut sim: Sim) -> Self {
        let broker = Broker::new();
        let handle = broker.handle().clone();
        let (broker_task, broker_done) = sim.spawn_out("broker", counted(broker.run()));
        Net { sim, broker: handle, broker_task, broker_done, clients: vec![] }
    }

    /// Spawns the broker-side accept+run task and the client-side connect+run task.
    pub fn add_client(&mut self, proto: Proto, tkind: TKind) -> usize {
        let idx = self.clients.len();
        let name = format!("c{}", idx);
        let (a, b) = tkind.pair();
        let cap = match proto {
            Proto::Capped(m) => Some(m as u32),
            _ => None,
        };
        let a = Logged::new(a, format!("client:{}", name)).capped(cap);
        let b = Logged::new(b, format!("conn:{}", name));
        let ctl = Rc::new(FaultCtl::default());
        let mut bh = self.broker.clone();
        let conn_handle: Rc<RefCell<Option<ConnectionHandle>>> = Rc::new(RefCell::new(None));
        let ch = conn_handle.clone();
        let (conn_task, conn_result) = self.sim.spawn_out(&format!("conn:{}", name), counted(async move {
            match bh.connect(b).await {
                Ok(conn) => {
                    *ch.borrow_mut() = Some(conn.handle().clone());
                    conn.run().await.map_err(|e| match e {
                        ConnectionError::UnexpectedShutdown => ConnErr::UnexpectedShutdown,
                        ConnectionError::Transport(e) => ConnErr::Transport(format!("{:?}", e)),
                        other => ConnErr::Other(format!("{:?}", other)),
                    })
                }
                Err(e) => Err(ConnErr::Accept(format!("{:?}", e))),
            }
        }));
        let handle: Rc<RefCell<Option<Handle>>> = Rc::new(RefCell::new(None));
        let hs = handle.clone();
        let t = FaultyTransport::new(a, ctl.clone());
        let (client_task, client_result) = self.sim.spawn_out(&format!("client:{}", name), counted(async move {
            let client = match proto {
                Proto::V20 | Proto::Capped(_) => Client::connect(t).await,
                Proto::V14 => Client::builder(t).connect1().await,
            };
            let client = match client {
                Ok(c) => c,
                Err(e) => return Err(RunErr::Connect(format!("{:?}", e))),
            };
            *hs.borrow_mut() = Some(client.handle().clone());
            client.run().await.map_err(RunErr::from_run)
        }));
        self.clients.push(ClientNet { name, proto, tkind, conn_task, conn_result, conn_handle, client_task, client_result, handle, ctl });
        idx
    }
}

/// "file:line" of a panic location with everything up to and including the repository root
/// stripped (works for /repo and for scratch copies).
pub fn norm_location(loc: &str) -> String {
    match loc.rfind("/repo/") {
        Some(i) => loc[i + 6..].to_string(),
        None => loc.trim_start_matches('/').to_string(),
    }
}

/// Whether a (normalised) panic location lies in the code under test.
pub fn in_sut(loc: &str) -> bool {
    loc.starts_with("aldrin/") || loc.starts_with("broker/") || loc.starts_with("core/")
}
