//! Small future combinators and shared-slot plumbing (no macros: futures-macro is not available).

use std::cell::{Cell, RefCell};
use std::future::Future;
use std::pin::Pin;
use std::rc::Rc;
use std::task::{Context, Poll, Waker};

/// A shared slot holding an API value. Stream-class operations borrow the value only for the
/// duration of one poll, so that another application task can drop the value in between (the
/// equivalent of cancelling a `next_item()` future and dropping the receiver); waiters are woken
/// whenever the slot changes.
pub struct Slot<T> {
    inner: Rc<RefCell<SlotInner<T>>>,
}

struct SlotInner<T> {
    val: Option<T>,
    wakers: Vec<Waker>,
    /// bumped whenever the slot content is replaced or removed
    generation: u64,
}

impl<T> Clone for Slot<T> {
    fn clone(&self) -> Self {
        Slot { inner: self.inner.clone() }
    }
}

impl<T> Default for Slot<T> {
    fn default() -> Self {
        Self::new()
    }
}

impl<T> Slot<T> {
    pub fn new() -> Self {
        Slot { inner: Rc::new(RefCell::new(SlotInner { val: None, wakers: vec![], generation: 0 })) }
    }

    fn wake_all(wakers: Vec<Waker>) {
        for w in wakers {
            w.wake();
        }
    }

    /// Stores a value; the previous one (if any) is returned so that it is dropped by the caller
    /// outside of the borrow.
    #[must_use]
    pub fn put(&self, v: T) -> Option<T> {
        let (old, wakers) = {
            let mut g = self.inner.borrow_mut();
            g.generation += 1;
            (g.val.replace(v), std::mem::take(&mut g.wakers))
        };
        Self::wake_all(wakers);
        old
    }

    /// Puts a value back that was taken out for an exclusive operation, unless the slot has been
    /// refilled meanwhile (then the value is handed back to the caller).
    pub fn put_back(&self, v: T) -> Option<T> {
        let (rejected, wakers) = {
            let mut g = self.inner.borrow_mut();
            if g.val.is_some() {
                (Some(v), vec![])
            } else {
                g.val = Some(v);
                (None, std::mem::take(&mut g.wakers))
            }
        };
        Self::wake_all(wakers);
        rejected
    }

    pub fn take(&self) -> Option<T> {
        let (old, wakers) = {
            let mut g = self.inner.borrow_mut();
            g.generation += 1;
            (g.val.take(), std::mem::take(&mut g.wakers))
        };
        Self::wake_all(wakers);
        old
    }

    pub fn is_some(&self) -> bool {
        self.inner.borrow().val.is_some()
    }

    pub fn generation(&self) -> u64 {
        self.inner.borrow().generation
    }

    pub fn with<R>(&self, f: impl FnOnce(&mut T) -> R) -> Option<R> {
        let mut g = self.inner.borrow_mut();
        g.val.as_mut().map(f)
    }

    /// One poll of a poll-style operation on the value. `None` if the slot is empty.
    pub fn poll_with<R>(
        &self,
        cx: &mut Context<'_>,
        f: impl FnOnce(&mut T, &mut Context<'_>) -> Poll<R>,
    ) -> Poll<Option<R>> {
        let (res, wake) = {
            let mut g = self.inner.borrow_mut();
            match g.val.as_mut() {
                None => (Poll::Ready(None), vec![]),
                Some(v) => match f(v, cx) {
                    // Several tasks may wait on the same value, but the underlying stream keeps
                    // only the waker of the last poll: whoever gets a result passes the baton on.
                    Poll::Ready(r) => (Poll::Ready(Some(r)), std::mem::take(&mut g.wakers)),
                    Poll::Pending => {
                        if !g.wakers.iter().any(|w| w.will_wake(cx.waker())) {
                            g.wakers.push(cx.waker().clone());
                        }
                        (Poll::Pending, vec![])
                    }
                },
            }
        };
        Self::wake_all(wake);
        res
    }
}

impl<T: Clone> Slot<T> {
    pub fn get(&self) -> Option<T> {
        self.inner.borrow().val.clone()
    }
}

/// Awaits a poll-style operation on a slot value; `None` when the value disappears.
pub async fn slot_op<T, R>(
    slot: &Slot<T>,
    mut f: impl FnMut(&mut T, &mut Context<'_>) -> Poll<R>,
) -> Option<R> {
    std::future::poll_fn(|cx| slot.poll_with(cx, &mut f)).await
}

/// Returns Pending once (waking itself), so that the scheduler can interleave other tasks.
pub async fn yield_now() {
    let mut yielded = false;
    std::future::poll_fn(|cx| {
        if yielded {
            Poll::Ready(())
        } else {
            yielded = true;
            cx.waker().wake_by_ref();
            Poll::Pending
        }
    })
    .await
}

/// Phase gate: application tasks wait for the driver to open the next phase.
#[derive(Default)]
pub struct Gate {
    phase: Cell<u32>,
    wakers: RefCell<Vec<Waker>>,
}

impl Gate {
    pub fn phase(&self) -> u32 {
        self.phase.get()
    }

    /// Opens the next phase and wakes everybody waiting.
    pub fn open_next(&self) {
        self.phase.set(self.phase.get() + 1);
        for w in std::mem::take(&mut *self.wakers.borrow_mut()) {
            w.wake();
        }
    }

    /// Waits until the phase counter exceeds `seen`.
    pub async fn wait_after(&self, seen: u32) {
        std::future::poll_fn(|cx| {
            if self.phase.get() > seen {
                Poll::Ready(())
            } else {
                self.wakers.borrow_mut().push(cx.waker().clone());
                Poll::Pending
            }
        })
        .await
    }
}

/// Polls a future exactly once with a no-op waker; used for "completes immediately" probes.
pub fn poll_once<F: Future>(fut: Pin<&mut F>) -> Poll<F::Output> {
    let waker = Waker::noop();
    let mut cx = Context::from_waker(waker);
    fut.poll(&mut cx)
}
