//! Common case driver: builds the simulated bus, spawns the application tasks of a program and
//! provides the quiescence checks shared by C06 and C15.

use crate::interp::*;
use crate::net::*;
use crate::prog::*;
use simbus::{Policy, Sim};
use std::collections::BTreeSet;
use std::rc::Rc;
use uuid::Uuid;
use vcommon::Outcome;

pub const STEP_BOUND: u64 = 400_000;

pub fn step_bound() -> u64 {
    std::env::var("VAPI_STEP_BOUND").ok().and_then(|s| s.parse().ok()).unwrap_or(STEP_BOUND)
}

pub struct Rig {
    pub net: Net,
    pub world: Rc<World>,
    pub app_tasks: Vec<simbus::TaskId>,
}

pub fn fail(sig: impl Into<String>, detail: impl Into<String>) -> Outcome {
    Outcome::fail(sig, detail)
}

impl Rig {
    /// Connects all clients (handshakes run under the case's schedule).
    pub fn connect(sched_seed: u64, policy: u8, clients: &[ClientSpec], allow: Allow) -> Result<Rig, Outcome> {
        let mut net = Net::new(Sim::new(sched_seed, Policy::from_u8(policy)));
        for c in clients {
            net.add_client(c.proto, c.tkind);
        }
        let r = net.sim.run(step_bound());
        if r.exhausted {
            return Err(fail("harness:step-bound:connect", "step bound hit while connecting"));
        }
        if let Some((name, p)) = net.sim.panics().first() {
            return Err(panic_outcome(name, p));
        }
        let mut ctxs = vec![];
        for (i, c) in net.clients.iter().enumerate() {
            let Some(h) = c.handle.borrow_mut().take() else {
                return Err(fail("harness:connect-failed", format!("client {} did not connect: client={:?} conn={:?}", i, c.client_result.borrow(), c.conn_result.borrow())));
            };
            ctxs.push(ClientCtx::new(i, c.proto, h));
        }
        let world = World::new(ctxs, allow);
        *world.broker.borrow_mut() = Some(net.broker.clone());
        Ok(Rig { net, world, app_tasks: vec![] })
    }

    pub fn spawn_tasks(&mut self, tasks: &[TaskProg]) {
        for (i, tp) in tasks.iter().enumerate() {
            let t = TaskCtx::new(i, tp.client);
            self.world.tasks.borrow_mut().push(t.clone());
            let id = self.net.sim.spawn(&format!("app:t{}:c{}", i, tp.client), counted(run_task(self.world.clone(), t, tp.ops.clone())));
            self.app_tasks.push(id);
        }
    }

    pub fn detail(&self, head: &str) -> String {
        let mut s = String::from(head);
        s.push_str("\n-- task states:\n");
        for t in self.world.tasks.borrow().iter() {
            s.push_str(&format!("t{} c{} op#{} done={} blocked={:?}\n", t.id, t.client, t.cur.get(), t.done.get(), t.blocked.borrow()));
        }
        for (i, c) in self.net.clients.iter().enumerate() {
            s.push_str(&format!("client c{}: run={:?} conn={:?} transport-ops={}\n", i, c.client_result.borrow(), c.conn_result.borrow(), c.ctl.ops.get()));
        }
        s.push_str("-- trace (last operations):\n");
        s.push_str(&self.world.trace_tail(60));
        s
    }

    /// Runs to quiescence; reports step-bound hits, panics and in-task oracle failures.
    pub fn settle(&mut self, stage: &str) -> Result<(), Outcome> {
        let before = self.net.sim.total_steps;
        let r = self.net.sim.run(step_bound());
        if let Some((name, p)) = self.net.sim.panics().first() {
            let (name, p) = (name.clone(), p.clone());
            let mut o = panic_outcome(&name, &p);
            if let Outcome::Fail(f) = &mut o {
                f.signature = self.qualify(&f.signature, &p.0);
                f.detail = self.detail(&f.detail);
            }
            return Err(o);
        }
        if r.exhausted {
            return Err(self.step_bound(stage, before));
        }
        if let Some((sig, detail)) = self.world.failures.borrow().first().cloned() {
            return Err(fail(sig, self.detail(&detail)));
        }
        Ok(())
    }

    /// Narrows the signature of failures that are the known consequence of a trigger the case
    /// actually contained, so that a known finding never masks the same site reached another way.
    fn qualify(&self, sig: &str, msg: &str) -> String {
        let w = &self.world;
        // the debug assertions on the client's sender/receiver maps (line numbers move with the
        // repository, the assertion texts do not)
        let map_assert = msg.contains("contained.is_some()") || msg.contains("self.senders.contains_key") || msg.contains("self.receivers.contains_key");
        if sig.starts_with("panic:client-run:aldrin/src/client.rs:") && map_assert {
            if w.stat("claim-cancelled") > 0 {
                return format!("{}:after-cancelled-claim", sig);
            }
            if w.stat("claim-refused") > 0 {
                return format!("{}:after-refused-claim", sig);
            }
        }
        if sig.starts_with("panic:app-task:aldrin/src/bus_listener.rs:") && w.stat("listener-polled-after-destroy") > 0 {
            return format!("{}:after-destroy", sig);
        }
        if sig == "livelock:client-run:busy-loop-in-one-poll" && w.stat("late-abort") > 0 {
            return format!("{}:reply-dropped-during-shutdown", sig);
        }
        sig.to_string()
    }

    fn step_bound(&mut self, stage: &str, _before: u64) -> Outcome {
        // which tasks keep running? poll counts over another stretch of steps
        let n = self.net.sim.pending().len();
        let ids: Vec<usize> = self.net.sim.pending().iter().map(|(i, _)| *i).collect();
        let before: Vec<u64> = ids.iter().map(|i| self.net.sim.polls(*i)).collect();
        let _ = self.net.sim.run(2_000);
        let mut spinning = vec![];
        for (k, i) in ids.iter().enumerate() {
            let d = self.net.sim.polls(*i) - before[k];
            if d > 0 {
                spinning.push((self.net.sim.name(*i).to_string(), d));
            }
        }
        let only_sut = !spinning.is_empty() && spinning.iter().all(|(n, _)| n.starts_with("broker") || n.starts_with("conn:") || n.starts_with("client:"));
        let sig = if only_sut { format!("livelock:{}:sut-tasks-spin", stage) } else { format!("harness:step-bound:{}", stage) };
        fail(sig, self.detail(&format!("step bound of {} hit at stage {} with {} live tasks; tasks still being polled: {:?}", STEP_BOUND, stage, n, spinning)))
    }

    /// Client and connection tasks must not have ended unless their client was asked to stop.
    pub fn check_runs(&self, all_must_be_done: bool) -> Result<(), Outcome> {
        for (i, c) in self.net.clients.iter().enumerate() {
            if c.client_result.borrow().is_some() {
                self.world.clients[i].stopped.set(true);
            }
            let stopped = self.world.clients[i].shutdown_requested.get();
            match &*c.client_result.borrow() {
                Some(Err(RunErr::Unexpected(kind, msg))) => {
                    return Err(fail(format!("client-run:unexpected-message:{}", kind), self.detail(&format!("Client::run() of c{} ended with UnexpectedMessageReceived({})", i, msg))));
                }
                Some(Err(e)) => {
                    // the connection gave up because the broker had already left its run loop
                    let broker_gone = matches!(&*c.conn_result.borrow(), Some(Err(ConnErr::UnexpectedShutdown)));
                    // labels: did the application ask for this client's shutdown itself (then the
                    // client's Shutdown message raced with the broker's exit), was the broker shut
                    // down as a whole
                    let own = self.world.clients[i].self_shutdown.get();
                    let q = match (broker_gone, own, self.world.broker_shutdown_requested.get()) {
                        (true, true, _) => ":connection-lost-broker:client-shutdown-race",
                        (true, false, true) => ":connection-lost-broker:broker-shutdown",
                        (true, false, false) => ":connection-lost-broker",
                        _ => "",
                    };
                    return Err(fail(format!("client-run:error:{}{}", variant(&format!("{:?}", e)), q), self.detail(&format!("Client::run() of c{} ended with {:?}", i, e))));
                }
                Some(Ok(())) => {
                    if !stopped {
                        return Err(fail("client-run:ended-unasked", self.detail(&format!("Client::run() of c{} returned Ok although nobody stopped it", i))));
                    }
                }
                None => {
                    if all_must_be_done {
                        return Err(fail("client-run:still-running", self.detail(&format!("Client::run() of c{} has not returned after it was stopped", i))));
                    }
                }
            }
            match &*c.conn_result.borrow() {
                Some(Err(e)) => {
                    // label: the broker was shut down as a whole during the program
                    let own = self.world.clients[i].self_shutdown.get();
                    // Client and broker both shut down, the client has left with Ok (it received
                    // the connection's Shutdown), and the connection, still waiting for its own
                    // flush on a full transport, notices the closed transport first: only the
                    // result code of Connection::run differs, which no listed property speaks
                    // about (C06/C15: the client's view, and the broker releasing the state).
                    if own && self.world.broker_shutdown_requested.get() && matches!(&*c.client_result.borrow(), Some(Ok(()))) && variant(&format!("{:?}", e)) == "Transport" {
                        self.world.count("conn-run:transport-error-after-mutual-clean-shutdown");
                        continue;
                    }
                    let q = match (self.world.broker_shutdown_requested.get(), own) {
                        (true, true) => ":client-vs-broker-shutdown",
                        (true, false) => ":broker-shutdown",
                        _ => "",
                    };
                    return Err(fail(format!("conn-run:error:{}{}", variant(&format!("{:?}", e)), q), self.detail(&format!("Connection::run() of c{} ended with {:?}", i, e))));
                }
                Some(Ok(())) => {
                    if !stopped {
                        return Err(fail("conn-run:ended-unasked", self.detail(&format!("Connection::run() of c{} returned Ok although nobody stopped its client", i))));
                    }
                }
                None => {
                    if all_must_be_done {
                        return Err(fail("conn-run:still-running", self.detail(&format!("Connection::run() of c{} has not returned after its client stopped", i))));
                    }
                }
            }
        }
        Ok(())
    }

    /// At quiescence no request-class operation may be pending. A call counts as request-class
    /// only if its service is gone (then the broker must have answered) or a server loop is
    /// waiting in next_call on it and the call's promise is not deliberately held.
    pub fn check_no_request_pending(&self) -> Result<(), Outcome> {
        let w = &self.world;
        let tasks = w.tasks.borrow();
        // service cookies that have a server loop currently waiting
        let mut served: BTreeSet<Uuid> = BTreeSet::new();
        for t in tasks.iter() {
            if let Some(b) = &*t.blocked.borrow() {
                if let Some(s) = b.serving {
                    if let Some(id) = w.clients[t.client].svcs[s as usize].with(|svc| svc.id()) {
                        served.insert(id.cookie.0);
                    }
                }
            }
        }
        for t in tasks.iter() {
            let Some(b) = t.blocked.borrow().clone() else { continue };
            if b.class == Class::Stream {
                self.check_peer_has_acted(t, &b)?;
                continue;
            }
            if b.class != Class::Request {
                continue;
            }
            if let Some((cookie, nonce)) = b.call {
                let board = w.board.borrow();
                let Some((owner, obj_cookie)) = board.svc_owner.get(&cookie).copied() else { continue };
                let oc = &w.clients[owner];
                let owner_stopped = oc.shutdown_requested.get() || self.net.clients[owner].client_result.borrow().is_some();
                let in_slot = oc.live_service_slots().iter().any(|(_, id)| id.cookie.0 == cookie);
                let obj_live = oc.live_object_cookies().contains(&obj_cookie);
                let gone = owner_stopped || !in_slot || !obj_live || board.destroyed_svcs.contains(&cookie) || board.destroyed_objs.contains(&obj_cookie);
                let held = oc.held.borrow().iter().any(|(_, n)| *n == nonce) || oc.awaiting_aborted.borrow().contains(&nonce);
                let must = gone || (served.contains(&cookie) && !held);
                if !must {
                    w.count("call:legitimately-pending");
                    continue;
                }
                let why = if gone { "its service is gone" } else { "its service has a server loop waiting in next_call" };
                return Err(fail("pending-request:call", self.detail(&format!("at quiescence task t{} is still waiting for the reply of call {} although {} (lost wake-up / deadlock)", t.id, nonce, why))));
            }
            return Err(fail(format!("pending-request:{}", b.what), self.detail(&format!("at quiescence task t{} (client c{}) is still blocked in request-class operation {} (op #{}): lost wake-up / deadlock", t.id, t.client, b.what, b.op_idx))));
        }
        Ok(())
    }

    /// "completes once its peer has acted": a stream-class wait must not be pending at quiescence
    /// when the harness knows that the peer's action it waits for has happened.
    fn check_peer_has_acted(&self, t: &TaskCtx, b: &Blocked) -> Result<(), Outcome> {
        let w = &self.world;
        let cc = &w.clients[t.client];
        let alive = |c: usize| !w.clients[c].shutdown_requested.get() && self.net.clients[c].client_result.borrow().is_none();
        if !alive(t.client) {
            return Ok(());
        }
        match b.aux {
            Aux::None => {}
            Aux::Establish(end, ch) => {
                let cookie = match end {
                    End::Snd => cc.snd[ch as usize].with(|e| (matches!(e, SndEnd::Pending(_)), e.cookie().0)),
                    End::Rcv => cc.rcv[ch as usize].with(|e| (matches!(e, RcvEnd::Pending(_)), e.cookie().0)),
                };
                if let Some((true, cookie)) = cookie {
                    let claimed = w.board.borrow().chans.get(&cookie).map(|i| i.claim_ok).unwrap_or(false);
                    if claimed {
                        return Err(fail("pending-stream:establish-after-claim", self.detail(&format!("at quiescence task t{} still waits for its channel {} to be established although the other end has been claimed successfully", t.id, cookie))));
                    }
                }
            }
            Aux::NextItem(ch) => {
                let cookie = cc.rcv[ch as usize].with(|e| (matches!(e, RcvEnd::Est(_)), e.cookie().0));
                if let Some((true, cookie)) = cookie {
                    let board = w.board.borrow();
                    // an end that was bound more than once can be closed under its claimant by
                    // the duplicate (the cookie is Copy); then sent items may be dropped
                    if board.chans.get(&cookie).map(|i| i.binds > 1 || i.claim_attempts > 1).unwrap_or(false) {
                        return Ok(());
                    }
                    let sent = board.sent.get(&cookie).copied().unwrap_or(0);
                    let received = board.received.get(&cookie).copied().unwrap_or(0);
                    let senders_alive = board.senders_of.get(&cookie).map(|s| s.iter().all(|c| alive(*c))).unwrap_or(true);
                    if sent > received && senders_alive {
                        return Err(fail("pending-stream:next_item-with-items-sent", self.detail(&format!("at quiescence task t{} waits in next_item on channel {} although {} items were sent and only {} received", t.id, cookie, sent, received))));
                    }
                }
            }
            Aux::SendReady(ch) => {
                // no credit deadlock: the consumer has taken every item that was sent, so its
                // Receiver holds at least one unit of granted capacity again (it tops up whenever
                // its credit falls to the low-water mark), the broker passes grants on (C05, broker
                // level), hence the producer cannot be out of credit
                let cookie = cc.snd[ch as usize].with(|e| (matches!(e, SndEnd::Est(_)), e.cookie().0));
                if let Some((true, cookie)) = cookie {
                    let board = w.board.borrow();
                    let Some(info) = board.chans.get(&cookie) else { return Ok(()) };
                    if info.binds > 1 || info.claim_attempts > 1 || info.rcv_cap == 0 {
                        return Ok(());
                    }
                    let sent = board.sent.get(&cookie).copied().unwrap_or(0);
                    let received = board.received.get(&cookie).copied().unwrap_or(0);
                    // the receiving end is established on a live client
                    let rcv_live = w.clients.iter().enumerate().any(|(i, c)| alive(i) && c.rcv.iter().any(|s| s.with(|e| matches!(e, RcvEnd::Est(_)) && e.cookie().0 == cookie).unwrap_or(false)));
                    if rcv_live && sent == received {
                        return Err(fail("pending-stream:send_ready-although-consumer-took-every-item", self.detail(&format!("at quiescence task t{} waits in send_ready on channel {} although the consumer has received all {} items sent (receiver capacity {}): the sender's credit was lost", t.id, cookie, sent, info.rcv_cap))));
                    }
                }
            }
            Aux::Aborted(nonce) => {
                // the caller's application dropped the pending reply: with both sides on >= 1.16
                // the abort reaches the callee, whose aborted() must have resolved by now - unless
                // the call had been answered already (service or object torn down: the promise
                // may come out of the destroyed service's queue), then the drop aborts nothing
                let board = w.board.borrow();
                if let Some((caller, cookie)) = board.aborted_by_caller.get(&nonce).copied() {
                    let new = |c: usize| !matches!(w.clients[c].proto, Proto::V14 | Proto::Capped(15));
                    let svc_intact = match board.svc_owner.get(&cookie).copied() {
                        Some((owner, obj_cookie)) => {
                            let oc = &w.clients[owner];
                            owner == t.client
                                && oc.live_service_slots().iter().any(|(_, id)| id.cookie.0 == cookie)
                                && oc.live_object_cookies().contains(&obj_cookie)
                                && !board.destroyed_svcs.contains(&cookie)
                                && !board.destroyed_objs.contains(&obj_cookie)
                        }
                        None => false,
                    };
                    if alive(caller) && new(caller) && new(t.client) && svc_intact {
                        return Err(fail("pending-stream:promise-aborted-after-caller-aborted", self.detail(&format!("at quiescence task t{} still waits in Promise::aborted() for call {} although the caller (c{}) has aborted it", t.id, nonce, caller))));
                    }
                    w.count("promise:abort-watch-not-decidable");
                }
            }
            Aux::Lifetime(lt) => {
                let id = cc.lts[lt as usize].with(|l| l.id());
                if let Some(id) = id {
                    let board = w.board.borrow();
                    let owner_gone = board.scope_owner.get(&id).map(|c| !alive(*c)).unwrap_or(false);
                    if board.ended_scopes.contains(&id) || owner_gone {
                        return Err(fail("pending-stream:lifetime-after-scope-ended", self.detail(&format!("at quiescence task t{} still waits for the end of lifetime {:?} although its scope has ended", t.id, id))));
                    }
                }
            }
        }
        Ok(())
    }

    pub fn tasks_at_gate(&self) -> usize {
        self.world.tasks.borrow().iter().filter(|t| matches!(&*t.blocked.borrow(), Some(b) if b.class == Class::Gate)).count()
    }

    pub fn tasks_unfinished(&self) -> Vec<String> {
        self.world.tasks.borrow().iter().filter(|t| !t.done.get()).map(|t| format!("t{}(c{}) at op#{} {:?}", t.id, t.client, t.cur.get(), t.blocked.borrow().as_ref().map(|b| b.what))).collect()
    }
}

/// First word of a Debug rendering (enum variant name).
pub fn variant(s: &str) -> String {
    s.chars().take_while(|c| c.is_alphanumeric() || *c == '_').collect()
}

pub fn panic_outcome(task: &str, p: &vcommon::Panicked) -> Outcome {
    let loc = norm_location(&p.location());
    let kind = if task.starts_with("client:") {
        "client-run"
    } else if task.starts_with("conn:") {
        "conn-run"
    } else if task.starts_with("broker") {
        "broker-run"
    } else {
        "app-task"
    };
    if p.0.contains(BUSY_LOOP_MARK) {
        return fail(
            format!("livelock:{}:busy-loop-in-one-poll", kind),
            format!("task {} never returned from a single poll: its transport was polled more than {} times without the future yielding (busy loop; on a single-threaded executor nothing else can run any more)", task, BUSY_LOOP_BOUND),
        );
    }
    let sig = if in_sut(&loc) { format!("panic:{}:{}", kind, loc) } else { format!("harness:panic:{}:{}", kind, loc) };
    fail(sig, format!("task {} panicked: {}", task, p.0))
}
