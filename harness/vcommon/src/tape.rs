//! Entropy tape: every generated case is a byte string ("tape") that a
//! per-check decoder turns into a structured case. proptest generates and
//! shrinks the tape, libFuzzer mutates it, and a replay file stores it in hex.
//! Reading past the end yields zeros, and every decoder maps zero to its
//! simplest choice, so shorter / smaller tapes mean simpler cases.

#[derive(Clone)]
pub struct Tape<'a> {
    data: &'a [u8],
    pos: usize,
}

impl<'a> Tape<'a> {
    pub fn new(data: &'a [u8]) -> Self {
        Self { data, pos: 0 }
    }

    pub fn pos(&self) -> usize {
        self.pos
    }

    pub fn exhausted(&self) -> bool {
        self.pos >= self.data.len()
    }

    pub fn remaining(&self) -> usize {
        self.data.len().saturating_sub(self.pos)
    }

    pub fn u8(&mut self) -> u8 {
        let b = self.data.get(self.pos).copied().unwrap_or(0);
        self.pos += 1;
        b
    }

    pub fn bool(&mut self) -> bool {
        self.u8() & 1 == 1
    }

    pub fn u16(&mut self) -> u16 {
        u16::from_le_bytes([self.u8(), self.u8()])
    }

    pub fn u32(&mut self) -> u32 {
        u32::from_le_bytes([self.u8(), self.u8(), self.u8(), self.u8()])
    }

    pub fn u64(&mut self) -> u64 {
        (self.u32() as u64) | ((self.u32() as u64) << 32)
    }

    /// Uniform-ish choice in `0..n` (monotone in the tape byte(s) so that
    /// shrinking the tape shrinks the choice). `n` must be >= 1.
    pub fn below(&mut self, n: usize) -> usize {
        debug_assert!(n >= 1);
        if n <= 1 {
            return 0;
        }
        if n <= 256 {
            (self.u8() as usize * n) >> 8
        } else if n <= 65536 {
            (self.u16() as usize * n) >> 16
        } else {
            ((self.u32() as u64 * n as u64) >> 32) as usize
        }
    }

    /// Inclusive range.
    pub fn range(&mut self, lo: usize, hi: usize) -> usize {
        debug_assert!(lo <= hi);
        lo + self.below(hi - lo + 1)
    }

    /// True with probability about num/256.
    pub fn chance(&mut self, num: u8) -> bool {
        // zero byte => false (the "simple" outcome)
        let b = self.u8();
        b != 0 && (b as u16) > 256 - num as u16
    }

    /// Weighted pick: returns the index into `weights`.
    pub fn weighted(&mut self, weights: &[u32]) -> usize {
        let total: u32 = weights.iter().sum();
        debug_assert!(total > 0);
        let mut x = if total <= 256 {
            (self.u8() as u32 * total) >> 8
        } else {
            ((self.u16() as u32 as u64 * total as u64) >> 16) as u32
        };
        for (i, w) in weights.iter().enumerate() {
            if x < *w {
                return i;
            }
            x -= *w;
        }
        weights.len() - 1
    }

    pub fn pick<'b, T>(&mut self, items: &'b [T]) -> &'b T {
        &items[self.below(items.len())]
    }

    pub fn bytes(&mut self, n: usize) -> Vec<u8> {
        (0..n).map(|_| self.u8()).collect()
    }

    /// Takes the rest of the tape.
    pub fn rest(&mut self) -> &'a [u8] {
        let p = self.pos.min(self.data.len());
        self.pos = self.data.len();
        &self.data[p..]
    }
}

pub fn hex(bytes: &[u8]) -> String {
    let mut s = String::with_capacity(bytes.len() * 2);
    for b in bytes {
        s.push_str(&format!("{:02x}", b));
    }
    s
}

pub fn unhex(s: &str) -> Option<Vec<u8>> {
    let s = s.trim();
    if s.len() % 2 != 0 {
        return None;
    }
    let mut out = Vec::with_capacity(s.len() / 2);
    let b = s.as_bytes();
    for i in (0..b.len()).step_by(2) {
        let h = (b[i] as char).to_digit(16)?;
        let l = (b[i + 1] as char).to_digit(16)?;
        out.push((h * 16 + l) as u8);
    }
    Some(out)
}

/// Deterministic 64-bit fingerprint (SipHash with fixed keys).
pub fn fingerprint(bytes: &[u8]) -> u64 {
    use std::hash::Hasher;
    #[allow(deprecated)]
    let mut h = std::hash::SipHasher::new_with_keys(0x7665_7269_6631, 0x616c_6472_696e);
    h.write(bytes);
    h.finish()
}

pub fn mix(a: u64, b: u64) -> u64 {
    let mut z = a ^ b.wrapping_mul(0x9E37_79B9_7F4A_7C15).rotate_left(31);
    z = (z ^ (z >> 30)).wrapping_mul(0xBF58_476D_1CE4_E5B9);
    z = (z ^ (z >> 27)).wrapping_mul(0x94D0_49BB_1331_11EB);
    z ^ (z >> 31)
}

/// Small deterministic PRNG for harness-internal use where a value must be a
/// pure function of a seed in the case (schedules etc.).
#[derive(Clone, Debug)]
pub struct SplitMix(pub u64);

impl SplitMix {
    pub fn next(&mut self) -> u64 {
        self.0 = self.0.wrapping_add(0x9E37_79B9_7F4A_7C15);
        let mut z = self.0;
        z = (z ^ (z >> 30)).wrapping_mul(0xBF58_476D_1CE4_E5B9);
        z = (z ^ (z >> 27)).wrapping_mul(0x94D0_49BB_1331_11EB);
        z ^ (z >> 31)
    }

    pub fn below(&mut self, n: usize) -> usize {
        if n <= 1 {
            0
        } else {
            (self.next() % n as u64) as usize
        }
    }
}
