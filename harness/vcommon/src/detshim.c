/* Deterministic getrandom for the verification harness.
 *
 * When a seed has been installed with verif_det_seed(), every request for
 * random bytes made through getrandom(2) -- by libstd's RandomState (HashMap
 * iteration order) and by the getrandom crate (Uuid::new_v4, rand) -- is
 * served from a splitmix64 stream derived from that seed. Without a seed the
 * real system call is used.
 */
#define _GNU_SOURCE
#include <stddef.h>
#include <stdint.h>
#include <stdarg.h>
#include <sys/types.h>
#include <sys/syscall.h>
#include <unistd.h>
#include <errno.h>

static volatile int det_on = 0;
static volatile uint64_t det_state = 0;
static volatile uint64_t det_calls = 0;

void verif_det_seed(uint64_t seed) {
    det_state = seed * 0x9E3779B97F4A7C15ull + 0x1234567ull;
    det_on = 1;
    det_calls = 0;
}

void verif_det_off(void) { det_on = 0; }

uint64_t verif_det_calls(void) { return det_calls; }

static uint64_t next64(void) {
    uint64_t z = (det_state += 0x9E3779B97F4A7C15ull);
    z = (z ^ (z >> 30)) * 0xBF58476D1CE4E5B9ull;
    z = (z ^ (z >> 27)) * 0x94D049BB133111EBull;
    return z ^ (z >> 31);
}

static void fill(unsigned char *buf, size_t len) {
    size_t i = 0;
    while (i < len) {
        uint64_t r = next64();
        for (int k = 0; k < 8 && i < len; k++, i++) {
            buf[i] = (unsigned char)(r >> (8 * k));
        }
    }
    det_calls++;
}

static long raw_syscall6(long n, long a, long b, long c, long d, long e, long f) {
    long r;
    register long r10 __asm__("r10") = d;
    register long r8 __asm__("r8") = e;
    register long r9 __asm__("r9") = f;
    __asm__ volatile("syscall"
                     : "=a"(r)
                     : "0"(n), "D"(a), "S"(b), "d"(c), "r"(r10), "r"(r8), "r"(r9)
                     : "rcx", "r11", "memory");
    return r;
}

/* libc's syscall(2) wrapper, interposed because the getrandom crate (0.2) and
 * libstd's fallback path issue SYS_getrandom through it. Everything else is
 * forwarded unchanged. */
long syscall(long number, ...) {
    va_list ap;
    va_start(ap, number);
    long a = va_arg(ap, long);
    long b = va_arg(ap, long);
    long c = va_arg(ap, long);
    long d = va_arg(ap, long);
    long e = va_arg(ap, long);
    long f = va_arg(ap, long);
    va_end(ap);
    if (number == SYS_getrandom && det_on) {
        fill((unsigned char *)a, (size_t)b);
        return b;
    }
    long r = raw_syscall6(number, a, b, c, d, e, f);
    if (r < 0 && r > -4096) {
        errno = (int)-r;
        return -1;
    }
    return r;
}

ssize_t getrandom(void *buf, size_t buflen, unsigned int flags) {
    if (det_on) {
        fill((unsigned char *)buf, buflen);
        return (ssize_t)buflen;
    }
    long r = raw_syscall6(SYS_getrandom, (long)buf, (long)buflen, (long)flags, 0, 0, 0);
    if (r < 0) {
        errno = (int)-r;
        return -1;
    }
    return (ssize_t)r;
}

int getentropy(void *buf, size_t buflen) {
    if (buflen > 256) {
        errno = EIO;
        return -1;
    }
    ssize_t r = getrandom(buf, buflen, 0);
    return r == (ssize_t)buflen ? 0 : -1;
}
