//! Shared plumbing of the verification harness: command line, tiers, seeds,
//! worker processes, proptest driver over entropy tapes, crash attribution,
//! replay files, known findings and evidence files.

pub mod tape;

use proptest::strategy::{Strategy, ValueTree};
use proptest::test_runner::{Config, RngSeed, TestCaseError, TestError, TestRunner};
use serde_json::{json, Value as J};
use std::cell::RefCell;
use std::collections::{BTreeMap, BTreeSet};
use std::io::Write;
use std::path::PathBuf;
use std::time::Instant;

pub use tape::{fingerprint, hex, mix, unhex, SplitMix, Tape};

/// Root of the verification tree (evidence, work, replays, known findings). Overridable so that
/// scratch copies used for sensitivity runs do not write into /verif.
pub fn verif_root() -> PathBuf {
    PathBuf::from(std::env::var("VERIF_ROOT").unwrap_or_else(|_| "/verif".to_string()))
}

/// Root of the repository under test (overridable for scratch copies).
pub fn repo_root() -> PathBuf {
    PathBuf::from(std::env::var("VERIF_REPO").unwrap_or_else(|_| "/repo".to_string()))
}

// ---------------------------------------------------------------------------------------------
// determinism shim

extern "C" {
    fn verif_det_seed(seed: u64);
    fn verif_det_off();
    fn verif_det_calls() -> u64;
}

/// Runs `f` on a fresh thread (so libstd's per-thread RandomState keys are
/// drawn anew) while getrandom is served from a stream derived from `seed`.
/// One case at a time per process: the shim state is process-global.
pub fn with_det_seed<R: Send + 'static>(
    seed: u64,
    stack: usize,
    f: impl FnOnce() -> R + Send + 'static,
) -> std::thread::Result<R> {
    unsafe { verif_det_seed(seed) };
    let res = std::thread::Builder::new()
        .stack_size(stack)
        .spawn(f)
        .expect("spawn case thread")
        .join();
    unsafe { verif_det_off() };
    res
}

pub fn det_calls() -> u64 {
    unsafe { verif_det_calls() }
}

/// Runs `f` on a fresh thread with the given stack size (no determinism seed).
pub fn on_thread<R: Send + 'static>(
    stack: usize,
    f: impl FnOnce() -> R + Send + 'static,
) -> std::thread::Result<R> {
    std::thread::Builder::new()
        .stack_size(stack)
        .spawn(f)
        .expect("spawn case thread")
        .join()
}

// ---------------------------------------------------------------------------------------------
// panic capture

thread_local! {
    static LAST_PANIC: RefCell<Option<String>> = const { RefCell::new(None) };
    static QUIET: RefCell<bool> = const { RefCell::new(false) };
}

static LAST_PANIC_GLOBAL: std::sync::Mutex<Option<String>> = std::sync::Mutex::new(None);

pub fn install_panic_hook() {
    let default = std::panic::take_hook();
    std::panic::set_hook(Box::new(move |info| {
        let msg = if let Some(s) = info.payload().downcast_ref::<&str>() {
            s.to_string()
        } else if let Some(s) = info.payload().downcast_ref::<String>() {
            s.clone()
        } else {
            "<non-string panic>".to_string()
        };
        let loc = info
            .location()
            .map(|l| format!("{}:{}", l.file(), l.line()))
            .unwrap_or_else(|| "?".into());
        let text = format!("{} @ {}", msg, loc);
        LAST_PANIC.with(|p| *p.borrow_mut() = Some(text.clone()));
        if let Ok(mut g) = LAST_PANIC_GLOBAL.lock() {
            *g = Some(text);
        }
        let quiet = QUIET.with(|q| *q.borrow());
        if !quiet && std::env::var_os("VERIF_LOUD_PANICS").is_some() {
            default(info);
        }
    }));
}

/// Message and location of a caught panic.
#[derive(Debug, Clone)]
pub struct Panicked(pub String);

impl Panicked {
    /// "file:line" with the repository prefix stripped, or "?".
    pub fn location(&self) -> String {
        match self.0.rsplit_once(" @ ") {
            Some((_, loc)) => loc.trim_start_matches("/repo/").to_string(),
            None => "?".into(),
        }
    }

    pub fn message(&self) -> String {
        match self.0.rsplit_once(" @ ") {
            Some((m, _)) => m.to_string(),
            None => self.0.clone(),
        }
    }
}

/// catch_unwind that records message and location through the panic hook.
pub fn catch<R>(f: impl FnOnce() -> R) -> Result<R, Panicked> {
    LAST_PANIC.with(|p| *p.borrow_mut() = None);
    match std::panic::catch_unwind(std::panic::AssertUnwindSafe(f)) {
        Ok(r) => Ok(r),
        Err(_) => {
            let m = LAST_PANIC
                .with(|p| p.borrow_mut().take())
                .unwrap_or_else(|| "<panic>".into());
            Err(Panicked(m))
        }
    }
}

/// For panics that happened on another thread (joined with Err).
pub fn last_panic_any_thread() -> Panicked {
    let m = LAST_PANIC_GLOBAL
        .lock()
        .ok()
        .and_then(|mut g| g.take())
        .unwrap_or_else(|| "<panic>".into());
    Panicked(m)
}

// ---------------------------------------------------------------------------------------------
// outcomes

#[derive(Debug, Clone, Default)]
pub struct PassInfo {
    /// Non-trivial by the property's stated rule.
    pub nontrivial: bool,
    /// Fingerprint of the executed case (distinctness).
    pub fp: u64,
    /// Class labels for the evidence histogram.
    pub classes: Vec<&'static str>,
}

#[derive(Debug, Clone)]
pub struct Failure {
    /// Narrow signature: oracle name + the specific site / pattern.
    pub signature: String,
    pub detail: String,
}

#[derive(Debug, Clone)]
pub enum Outcome {
    Pass(PassInfo),
    Fail(Failure),
}

impl Outcome {
    pub fn fail(signature: impl Into<String>, detail: impl Into<String>) -> Self {
        Outcome::Fail(Failure {
            signature: signature.into(),
            detail: detail.into(),
        })
    }
}

#[macro_export]
macro_rules! vfail {
    ($sig:expr, $($arg:tt)*) => {
        return $crate::Outcome::fail($sig, format!($($arg)*))
    };
}

// ---------------------------------------------------------------------------------------------
// check definition

#[derive(Clone, Copy, PartialEq, Eq, Debug)]
pub enum Tier {
    Quick,
    Thorough,
}

impl Tier {
    pub fn name(self) -> &'static str {
        match self {
            Tier::Quick => "quick",
            Tier::Thorough => "thorough",
        }
    }
}

#[derive(Clone, Debug)]
pub struct ClassPlan {
    pub class: &'static str,
    /// Total number of generated cases (split over the workers).
    pub cases: u32,
    pub min_len: usize,
    pub max_len: usize,
}

pub struct CheckDef {
    pub id: &'static str,
    pub level: &'static str,
    pub rule: &'static str,
    pub assumptions: &'static [&'static str],
    /// Case classes and counts per tier.
    pub plan: fn(Tier) -> Vec<ClassPlan>,
    /// Executes one case. `strict` = replay mode (nothing tolerated).
    pub case: fn(class: &str, tape: &[u8], strict: bool) -> Outcome,
    /// Human-readable rendering of a case (samples, replay comments).
    pub render: fn(class: &str, tape: &[u8]) -> String,
    /// Cases can kill the process (stack exhaustion, abort): write-ahead the
    /// current case so the parent can attribute the crash.
    pub crashy: bool,
    /// Class floors: (class label, minimal share of evaluations of `of_class`
    /// exploration class or of all if empty).
    pub floors: &'static [(&'static str, f64)],
    /// Optional extra work executed once in worker 0 after the generated
    /// classes (systematic enumerations, corpus replay, ...).
    pub extra: Option<fn(&mut Ctx)>,
    /// Extra coverage keys computed by the parent after merging.
    pub extra_coverage: Option<fn(Tier) -> J>,
}

// ---------------------------------------------------------------------------------------------
// known findings

#[derive(Debug, Clone)]
pub struct KnownFinding {
    pub property: String,
    pub signature: String,
    pub status: String,
    pub what: String,
}

pub fn load_known_findings() -> Vec<KnownFinding> {
    let p = verif_root().join("known_findings.json");
    let Ok(text) = std::fs::read_to_string(&p) else {
        return vec![];
    };
    let v: J = match serde_json::from_str(&text) {
        Ok(v) => v,
        Err(e) => {
            eprintln!("harness: cannot parse {}: {}", p.display(), e);
            std::process::exit(2);
        }
    };
    let mut out = vec![];
    if let Some(arr) = v.get("findings").and_then(|f| f.as_array()) {
        for f in arr {
            let g = |k: &str| f.get(k).and_then(|x| x.as_str()).unwrap_or("").to_string();
            out.push(KnownFinding {
                property: g("property"),
                signature: g("signature"),
                status: g("status"),
                what: g("what"),
            });
        }
    }
    out
}

// ---------------------------------------------------------------------------------------------
// context

#[derive(Debug, Clone)]
pub struct ViolationRec {
    pub signature: String,
    pub replay: String,
    pub detail: String,
}

pub struct Ctx {
    pub id: &'static str,
    pub tier: Tier,
    pub seed: u64,
    pub worker: u32,
    pub workers: u32,
    pub evaluations: u64,
    pub fps: BTreeSet<u64>,
    pub classes: BTreeMap<String, u64>,
    pub samples: Vec<J>,
    pub violations: Vec<ViolationRec>,
    pub known_hits: BTreeMap<String, u64>,
    known: Vec<KnownFinding>,
    def: &'static CheckDef,
    current_path: PathBuf,
}

fn work_dir(id: &str) -> PathBuf {
    verif_root().join("work").join(id)
}

fn replay_dir(id: &str) -> PathBuf {
    verif_root().join("replays").join(id)
}

pub fn write_replay(def: &CheckDef, class: &str, tape: &[u8], f: &Failure) -> String {
    let dir = replay_dir(def.id);
    let _ = std::fs::create_dir_all(&dir);
    let mut key = class.as_bytes().to_vec();
    key.push(0);
    key.extend_from_slice(tape);
    let name = format!("{:016x}.case", fingerprint(&key));
    let path = dir.join(name);
    let mut s = String::new();
    s.push_str(&format!("# property={} class={}\n", def.id, class));
    s.push_str(&format!("# signature={}\n", f.signature));
    for l in f.detail.lines().take(60) {
        s.push_str(&format!("# detail: {}\n", l));
    }
    let rendering = match catch(|| (def.render)(class, tape)) {
        Ok(r) => r,
        Err(p) => format!("<render panicked: {}>", p.0),
    };
    for l in rendering.lines().take(200) {
        s.push_str(&format!("# case: {}\n", l));
    }
    s.push_str(&format!("property={}\n", def.id));
    s.push_str(&format!("class={}\n", class));
    s.push_str(&format!("tape={}\n", hex(tape)));
    let _ = std::fs::write(&path, s);
    path.to_string_lossy().to_string()
}

pub fn read_replay(path: &str) -> Option<(String, String, Vec<u8>)> {
    let text = std::fs::read_to_string(path).ok()?;
    let mut prop = String::new();
    let mut class = String::new();
    let mut tape = None;
    for l in text.lines() {
        if l.starts_with('#') {
            continue;
        }
        if let Some(v) = l.strip_prefix("property=") {
            prop = v.trim().to_string();
        } else if let Some(v) = l.strip_prefix("class=") {
            class = v.trim().to_string();
        } else if let Some(v) = l.strip_prefix("tape=") {
            tape = unhex(v);
        }
    }
    Some((prop, class, tape?))
}

impl Ctx {
    fn known_open(&self, sig: &str) -> Option<&KnownFinding> {
        self.known
            .iter()
            .find(|k| k.property == self.id && k.status == "open" && sig_matches(&k.signature, sig))
    }

    fn note_pass(&mut self, class: &str, tape: &[u8], p: &PassInfo) {
        self.evaluations += 1;
        *self.classes.entry(format!("class:{}", class)).or_insert(0) += 1;
        for c in &p.classes {
            *self.classes.entry((*c).to_string()).or_insert(0) += 1;
        }
        if p.nontrivial {
            *self
                .classes
                .entry(format!("nontrivial:{}", class))
                .or_insert(0) += 1;
            let fresh = self.fps.insert(mix(p.fp, fingerprint(class.as_bytes())));
            let per_class = self
                .samples
                .iter()
                .filter(|s| s.get("class").and_then(|c| c.as_str()) == Some(class))
                .count();
            if fresh && per_class < 2 && self.worker == 0 {
                let mut r = (self.def.render)(class, tape);
                if r.len() > 1500 {
                    let mut cut = 1500;
                    while !r.is_char_boundary(cut) {
                        cut -= 1;
                    }
                    r.truncate(cut);
                    r.push_str(" ...[truncated]");
                }
                self.samples.push(json!({"class": class, "case": r}));
            }
        }
    }

    /// Handles a failure outside proptest (enumerations, final report).
    /// Returns true if it was a known finding.
    fn note_fail(&mut self, class: &str, tape: &[u8], f: &Failure) -> bool {
        self.evaluations += 1;
        if self.known_open(&f.signature).is_some() {
            *self.known_hits.entry(f.signature.clone()).or_insert(0) += 1;
            return true;
        }
        if self
            .violations
            .iter()
            .any(|v| v.signature == f.signature)
        {
            return false;
        }
        let replay = write_replay(self.def, class, tape, f);
        self.violations.push(ViolationRec {
            signature: f.signature.clone(),
            replay,
            detail: f.detail.clone(),
        });
        false
    }

    fn write_ahead(&self, class: &str, tape: &[u8]) {
        if self.def.crashy {
            let mut s = String::with_capacity(tape.len() * 2 + 64);
            s.push_str(class);
            s.push('\n');
            s.push_str(&hex(tape));
            s.push('\n');
            let _ = std::fs::write(&self.current_path, s);
        }
    }

    /// Executes one explicitly constructed case (no shrinking).
    pub fn eval_case(&mut self, class: &str, tape: &[u8]) {
        self.write_ahead(class, tape);
        match run_case(self.def, class, tape, false) {
            Outcome::Pass(p) => self.note_pass(class, tape, &p),
            Outcome::Fail(f) => {
                self.note_fail(class, tape, &f);
            }
        }
    }

    /// Generated exploration of one class with proptest over tapes.
    pub fn explore(&mut self, plan: &ClassPlan) {
        let share = plan.cases / self.workers
            + if self.worker < plan.cases % self.workers {
                1
            } else {
                0
            };
        if share == 0 {
            return;
        }
        let seed = mix(
            mix(self.seed, fingerprint(self.id.as_bytes())),
            mix(fingerprint(plan.class.as_bytes()), self.worker as u64),
        );
        let config = Config {
            cases: share,
            failure_persistence: None,
            rng_seed: RngSeed::Fixed(seed),
            max_shrink_iters: 3000,
            max_global_rejects: 0,
            ..Config::default()
        };
        let mut remaining = share;
        let mut round = 0u64;
        // A confirmed unknown violation ends this class; known findings do not.
        while remaining > 0 {
            let mut cfg = config.clone();
            cfg.cases = remaining;
            cfg.rng_seed = RngSeed::Fixed(mix(seed, round));
            let mut runner = TestRunner::new(cfg);
            let strategy =
                proptest::collection::vec(proptest::num::u8::ANY, plan.min_len..=plan.max_len);
            let class = plan.class;
            let def = self.def;
            let done = RefCell::new(0u32);
            let failed = RefCell::new(false);
            let this = RefCell::new(&mut *self);
            let result = runner.run(&strategy, |tape| {
                let shrinking = *failed.borrow();
                let mut ctx = this.borrow_mut();
                if !shrinking {
                    ctx.write_ahead(class, &tape);
                }
                match run_case(def, class, &tape, false) {
                    Outcome::Pass(p) => {
                        if !shrinking {
                            *done.borrow_mut() += 1;
                            ctx.note_pass(class, &tape, &p);
                        }
                        Ok(())
                    }
                    Outcome::Fail(f) => {
                        if ctx.known_open(&f.signature).is_some() {
                            if !shrinking {
                                *done.borrow_mut() += 1;
                                ctx.evaluations += 1;
                                *ctx.known_hits.entry(f.signature.clone()).or_insert(0) += 1;
                            }
                            // excluded from the search: treated as pass so the run continues
                            Ok(())
                        } else {
                            if !shrinking {
                                *done.borrow_mut() += 1;
                                *failed.borrow_mut() = true;
                            }
                            Err(TestCaseError::fail(f.signature))
                        }
                    }
                }
            });
            drop(this);
            let done = done.into_inner();
            match result {
                Ok(()) => break,
                Err(TestError::Fail(_, tape)) => {
                    // re-execute the minimal case for its detail
                    let f = match run_case(self.def, class, &tape, false) {
                        Outcome::Fail(f) => f,
                        Outcome::Pass(_) => Failure {
                            signature: "flaky:minimal-case-passes".into(),
                            detail: "shrunk case did not fail on re-execution".into(),
                        },
                    };
                    let dup = self.violations.iter().any(|v| v.signature == f.signature);
                    self.note_fail(class, &tape, &f);
                    remaining = remaining.saturating_sub(done.max(1));
                    round += 1;
                    if dup || round >= 4 {
                        break;
                    }
                }
                Err(TestError::Abort(r)) => {
                    eprintln!("harness: proptest aborted in {}: {}", class, r);
                    std::process::exit(2);
                }
            }
        }
    }
}

/// Signature matching for known findings: exact, or prefix when the entry ends with '*'.
fn sig_matches(pattern: &str, sig: &str) -> bool {
    if let Some(p) = pattern.strip_suffix('*') {
        sig.starts_with(p)
    } else {
        pattern == sig
    }
}

fn run_case(def: &CheckDef, class: &str, tape: &[u8], strict: bool) -> Outcome {
    match catch(|| (def.case)(class, tape, strict)) {
        Ok(o) => o,
        Err(p) => Outcome::fail(
            format!("harness-or-sut-panic:{}", p.location()),
            format!("uncaught panic in case: {}", p.0),
        ),
    }
}

// ---------------------------------------------------------------------------------------------
// main

struct Args {
    id: String,
    tier: Tier,
    seed: u64,
    worker: Option<u32>,
    workers: u32,
    replay: Option<String>,
}

fn parse_args() -> Args {
    let mut a = Args {
        id: String::new(),
        tier: match std::env::var("VERIF_TIER").as_deref() {
            Ok("thorough") => Tier::Thorough,
            _ => Tier::Quick,
        },
        seed: std::env::var("VERIF_SEED")
            .ok()
            .and_then(|s| s.trim().parse::<i64>().ok())
            .map(|v| v as u64)
            .unwrap_or(1),
        worker: None,
        workers: std::env::var("VERIF_WORKERS")
            .ok()
            .and_then(|s| s.parse().ok())
            .unwrap_or_else(|| {
                std::thread::available_parallelism()
                    .map(|n| n.get() as u32)
                    .unwrap_or(4)
                    .min(16)
            }),
        replay: None,
    };
    let mut it = std::env::args().skip(1);
    while let Some(x) = it.next() {
        match x.as_str() {
            "--tier" => {
                a.tier = match it.next().as_deref() {
                    Some("thorough") => Tier::Thorough,
                    Some("quick") => Tier::Quick,
                    other => {
                        eprintln!("harness: bad tier {:?}", other);
                        std::process::exit(2);
                    }
                }
            }
            "--seed" => {
                a.seed = it
                    .next()
                    .and_then(|s| s.parse::<i64>().ok())
                    .map(|v| v as u64)
                    .unwrap_or(1)
            }
            "--worker" => a.worker = it.next().and_then(|s| s.parse().ok()),
            "--workers" => a.workers = it.next().and_then(|s| s.parse().ok()).unwrap_or(1),
            "--replay" => a.replay = it.next(),
            s if !s.starts_with("--") && a.id.is_empty() => a.id = s.to_string(),
            s => {
                eprintln!("harness: unknown argument {}", s);
                std::process::exit(2);
            }
        }
    }
    a
}

pub fn main(defs: &[&'static CheckDef]) -> ! {
    install_panic_hook();
    let args = parse_args();
    if args.id == "list" {
        for d in defs {
            println!("{}", d.id);
        }
        std::process::exit(0);
    }
    let Some(def) = defs.iter().copied().find(|d| d.id == args.id) else {
        eprintln!("harness: unknown check {:?}", args.id);
        std::process::exit(2);
    };
    if let Some(path) = &args.replay {
        std::process::exit(replay_main(def, path));
    }
    match args.worker {
        Some(w) => worker_main(def, &args, w),
        None => parent_main(def, &args),
    }
}

fn replay_main(def: &'static CheckDef, path: &str) -> i32 {
    let Some((prop, class, tape)) = read_replay(path) else {
        eprintln!("harness: cannot read replay file {}", path);
        return 2;
    };
    if prop != def.id {
        eprintln!("harness: replay file is for {} not {}", prop, def.id);
        return 2;
    }
    println!("replaying {} class={} tape_len={}", def.id, class, tape.len());
    println!("{}", (def.render)(&class, &tape));
    match run_case(def, &class, &tape, true) {
        Outcome::Pass(p) => {
            println!("PASS nontrivial={} classes={:?}", p.nontrivial, p.classes);
            0
        }
        Outcome::Fail(f) => {
            println!("FAIL signature={}", f.signature);
            println!("{}", f.detail);
            println!("VIOLATION property={} replay={}", def.id, path);
            1
        }
    }
}

fn worker_main(def: &'static CheckDef, args: &Args, w: u32) -> ! {
    let dir = work_dir(def.id);
    let _ = std::fs::create_dir_all(&dir);
    let mut ctx = Ctx {
        id: def.id,
        tier: args.tier,
        seed: args.seed,
        worker: w,
        workers: args.workers,
        evaluations: 0,
        fps: BTreeSet::new(),
        classes: BTreeMap::new(),
        samples: vec![],
        violations: vec![],
        known_hits: BTreeMap::new(),
        known: load_known_findings(),
        def,
        current_path: dir.join(format!("w{}.current", w)),
    };
    for plan in (def.plan)(args.tier) {
        ctx.explore(&plan);
    }
    if w == 0 {
        if let Some(extra) = def.extra {
            extra(&mut ctx);
        }
    }
    let _ = std::fs::remove_file(&ctx.current_path);
    // partial result
    let mut fp_bytes = Vec::with_capacity(ctx.fps.len() * 8);
    for f in &ctx.fps {
        fp_bytes.extend_from_slice(&f.to_le_bytes());
    }
    std::fs::write(dir.join(format!("w{}.fps", w)), fp_bytes).expect("write fps");
    let partial = json!({
        "evaluations": ctx.evaluations,
        "classes": ctx.classes,
        "samples": ctx.samples,
        "violations": ctx.violations.iter().map(|v| json!({
            "signature": v.signature, "replay": v.replay, "detail": v.detail})).collect::<Vec<_>>(),
        "known_hits": ctx.known_hits,
    });
    std::fs::write(
        dir.join(format!("w{}.json", w)),
        serde_json::to_string(&partial).unwrap(),
    )
    .expect("write partial");
    std::process::exit(0);
}

fn parent_main(def: &'static CheckDef, args: &Args) -> ! {
    let start = Instant::now();
    let dir = work_dir(def.id);
    let _ = std::fs::remove_dir_all(&dir);
    if let Err(e) = std::fs::create_dir_all(&dir) {
        eprintln!("harness: cannot create {}: {}", dir.display(), e);
        std::process::exit(2);
    }
    let known = load_known_findings();
    let exe = std::env::current_exe().expect("current_exe");
    let workers = args.workers.max(1);
    let mut children = vec![];
    for w in 0..workers {
        let child = std::process::Command::new(&exe)
            .arg(def.id)
            .arg("--tier")
            .arg(args.tier.name())
            .arg("--seed")
            .arg((args.seed as i64).to_string())
            .arg("--worker")
            .arg(w.to_string())
            .arg("--workers")
            .arg(workers.to_string())
            .stdout(std::process::Stdio::inherit())
            .stderr(std::process::Stdio::inherit())
            .spawn();
        match child {
            Ok(c) => children.push((w, c)),
            Err(e) => {
                eprintln!("harness: cannot spawn worker: {}", e);
                std::process::exit(2);
            }
        }
    }
    let budget_s: u64 = std::env::var("VERIF_WATCHDOG_S")
        .ok()
        .and_then(|s| s.parse().ok())
        .unwrap_or(match args.tier {
            Tier::Quick => 1800,
            Tier::Thorough => 4 * 3600,
        });
    let mut infra_trouble = false;
    let mut evaluations = 0u64;
    let mut fps: BTreeSet<u64> = BTreeSet::new();
    let mut classes: BTreeMap<String, u64> = BTreeMap::new();
    let mut samples: Vec<J> = vec![];
    let mut violations: Vec<ViolationRec> = vec![];
    let mut known_hits: BTreeMap<String, u64> = BTreeMap::new();
    for (w, mut c) in children {
        // wait with watchdog
        let status = loop {
            match c.try_wait() {
                Ok(Some(s)) => break Some(s),
                Ok(None) => {
                    if start.elapsed().as_secs() > budget_s {
                        let _ = c.kill();
                        let _ = c.wait();
                        break None;
                    }
                    std::thread::sleep(std::time::Duration::from_millis(20));
                }
                Err(_) => break None,
            }
        };
        let Some(status) = status else {
            eprintln!("harness: worker {} exceeded the watchdog budget", w);
            infra_trouble = true;
            continue;
        };
        if !status.success() {
            use std::os::unix::process::ExitStatusExt;
            let sig = status.signal();
            let cur = dir.join(format!("w{}.current", w));
            let attributable = def.crashy
                && cur.exists()
                && matches!(sig, Some(6) | Some(11) | Some(7) | Some(4) | Some(8))
                || (def.crashy && cur.exists() && status.code() == Some(101));
            if attributable {
                let text = std::fs::read_to_string(&cur).unwrap_or_default();
                let mut lines = text.lines();
                let class = lines.next().unwrap_or("").to_string();
                let tape = lines.next().and_then(unhex).unwrap_or_default();
                let f = Failure {
                    signature: format!(
                        "crash:{}:{}",
                        class,
                        sig.map(|s| format!("signal{}", s))
                            .unwrap_or_else(|| format!("exit{}", status.code().unwrap_or(-1)))
                    ),
                    detail: "worker process died while executing this case".into(),
                };
                let is_known = known.iter().any(|k| {
                    k.property == def.id && k.status == "open" && sig_matches(&k.signature, &f.signature)
                });
                if is_known {
                    *known_hits.entry(f.signature.clone()).or_insert(0) += 1;
                } else {
                    let replay = write_replay(def, &class, &tape, &f);
                    violations.push(ViolationRec {
                        signature: f.signature,
                        replay,
                        detail: f.detail,
                    });
                }
            } else {
                eprintln!("harness: worker {} failed: {:?}", w, status);
                infra_trouble = true;
            }
            continue;
        }
        let pj = dir.join(format!("w{}.json", w));
        let Ok(text) = std::fs::read_to_string(&pj) else {
            eprintln!("harness: missing partial result of worker {}", w);
            infra_trouble = true;
            continue;
        };
        let p: J = serde_json::from_str(&text).unwrap_or(J::Null);
        evaluations += p["evaluations"].as_u64().unwrap_or(0);
        if let Some(m) = p["classes"].as_object() {
            for (k, v) in m {
                *classes.entry(k.clone()).or_insert(0) += v.as_u64().unwrap_or(0);
            }
        }
        if let Some(a) = p["samples"].as_array() {
            for s in a {
                if samples.len() < 8 {
                    samples.push(s.clone());
                }
            }
        }
        if let Some(a) = p["violations"].as_array() {
            for v in a {
                let sig = v["signature"].as_str().unwrap_or("").to_string();
                if !violations.iter().any(|x| x.signature == sig) {
                    violations.push(ViolationRec {
                        signature: sig,
                        replay: v["replay"].as_str().unwrap_or("").to_string(),
                        detail: v["detail"].as_str().unwrap_or("").to_string(),
                    });
                }
            }
        }
        if let Some(m) = p["known_hits"].as_object() {
            for (k, v) in m {
                *known_hits.entry(k.clone()).or_insert(0) += v.as_u64().unwrap_or(0);
            }
        }
        if let Ok(b) = std::fs::read(dir.join(format!("w{}.fps", w))) {
            for ch in b.chunks_exact(8) {
                fps.insert(u64::from_le_bytes(ch.try_into().unwrap()));
            }
        }
    }

    // generator health
    let mut unhealthy = vec![];
    for (label, floor) in def.floors {
        let n = classes.get(*label).copied().unwrap_or(0);
        let share = if evaluations > 0 {
            n as f64 / evaluations as f64
        } else {
            0.0
        };
        if share < *floor {
            unhealthy.push(format!("{}: {:.4} < {:.4}", label, share, floor));
        }
    }

    let wall = start.elapsed().as_secs_f64();
    let mut coverage = json!({
        "evaluations": evaluations,
        "distinct_nontrivial": fps.len(),
        "rule": def.rule,
        "samples": samples,
        "classes": classes,
        "known_findings_hit": known_hits,
        "workers": workers,
        "exhaustive": false,
    });
    if let Some(extra) = def.extra_coverage {
        if let (Some(obj), J::Object(more)) = (coverage.as_object_mut(), extra(args.tier)) {
            for (k, v) in more {
                obj.insert(k, v);
            }
        }
    }
    // A check that is made of several binaries (C05: broker level in vbus, client level in vapi)
    // runs them one after the other; all but the last write a part file (VERIF_PART=<name>), the
    // last one merges the parts (VERIF_MERGE_PARTS=<name>,..) into the evidence file.
    let mut evaluations = evaluations;
    let mut distinct_total = fps.len() as u64;
    let mut parts_violations = 0u64;
    let mut parts_sigs: Vec<String> = vec![];
    let mut parts_wall = 0.0f64;
    if let Ok(names) = std::env::var("VERIF_MERGE_PARTS") {
        let mut parts = serde_json::Map::new();
        for name in names.split(',').filter(|n| !n.is_empty()) {
            let pp = verif_root().join("work").join(format!("{}.part-{}.json", def.id, name));
            match std::fs::read_to_string(&pp).ok().and_then(|t| serde_json::from_str::<J>(&t).ok()) {
                Some(pj) => {
                    evaluations += pj["coverage"]["evaluations"].as_u64().unwrap_or(0);
                    distinct_total += pj["coverage"]["distinct_nontrivial"].as_u64().unwrap_or(0);
                    parts_violations += pj["violations"].as_u64().unwrap_or(0);
                    parts_wall += pj["wall_s"].as_f64().unwrap_or(0.0);
                    if let Some(a) = pj["violation_signatures"].as_array() {
                        parts_sigs.extend(a.iter().filter_map(|x| x.as_str().map(|s| s.to_string())));
                    }
                    parts.insert(name.to_string(), json!({
                        "coverage": pj["coverage"], "assumptions": pj["assumptions"], "wall_s": pj["wall_s"],
                        "violations": pj["violations"], "violation_signatures": pj["violation_signatures"],
                        "generator_unhealthy": pj["generator_unhealthy"],
                    }));
                    let _ = std::fs::remove_file(&pp);
                }
                None => {
                    eprintln!("harness: part {} of {} is missing ({})", name, def.id, pp.display());
                    infra_trouble = true;
                }
            }
        }
        if let Some(obj) = coverage.as_object_mut() {
            obj.insert("evaluations".into(), json!(evaluations));
            obj.insert("distinct_nontrivial".into(), json!(distinct_total));
            obj.insert("parts".into(), J::Object(parts));
        }
    }
    let evidence = json!({
        "property_id": def.id,
        "tier": args.tier.name(),
        "seed": args.seed as i64,
        "level": def.level,
        "coverage": coverage,
        "assumptions": def.assumptions,
        "wall_s": wall + parts_wall,
        "violations": violations.len() as u64 + parts_violations,
        "violation_signatures": violations.iter().map(|v| v.signature.clone()).chain(parts_sigs.iter().cloned()).collect::<Vec<_>>(),
        "generator_unhealthy": unhealthy,
    });
    let evdir = verif_root().join("evidence");
    let _ = std::fs::create_dir_all(&evdir);
    let evpath = match std::env::var("VERIF_PART") {
        Ok(name) if !name.is_empty() => verif_root().join("work").join(format!("{}.part-{}.json", def.id, name)),
        _ => evdir.join(format!("{}.json", def.id)),
    };
    if infra_trouble && violations.is_empty() {
        eprintln!("harness: infrastructure trouble, result inconclusive");
        std::process::exit(2);
    }
    if let Err(e) = std::fs::write(&evpath, serde_json::to_string_pretty(&evidence).unwrap()) {
        eprintln!("harness: cannot write evidence: {}", e);
        std::process::exit(2);
    }
    let out = std::io::stdout();
    let mut out = out.lock();
    let _ = writeln!(
        out,
        "{} tier={} seed={} evaluations={} distinct_nontrivial={} wall_s={:.1}",
        def.id,
        args.tier.name(),
        args.seed as i64,
        evaluations,
        distinct_total,
        wall
    );
    for (sig, n) in &known_hits {
        let what = known
            .iter()
            .find(|k| k.property == def.id && sig_matches(&k.signature, sig))
            .map(|k| k.what.clone())
            .unwrap_or_default();
        let _ = writeln!(
            out,
            "KNOWN-FINDING: property={} {} [signature={} hits={}]",
            def.id, what, sig, n
        );
    }
    for v in &violations {
        let _ = writeln!(out, "violation signature={}", v.signature);
        for l in v.detail.lines().take(12) {
            let _ = writeln!(out, "  {}", l);
        }
        let _ = writeln!(out, "VIOLATION property={} replay={}", def.id, v.replay);
    }
    let _ = out.flush();
    if !violations.is_empty() {
        std::process::exit(1);
    }
    if !unhealthy.is_empty() {
        eprintln!("harness: generator unhealthy: {:?}", unhealthy);
        std::process::exit(2);
    }
    if evaluations == 0 {
        eprintln!("harness: nothing was evaluated");
        std::process::exit(2);
    }
    std::process::exit(0);
}

// keep the strategy traits referenced for downstream crates
pub fn _unused(_: &dyn Fn(&dyn ValueTree<Value = u8>)) {}
pub fn _unused2<S: Strategy>(_: S) {}
