fn main() {
    println!("cargo:rerun-if-changed=src/detshim.c");
    cc::Build::new().file("src/detshim.c").opt_level(2).compile("verifdetshim");
}
