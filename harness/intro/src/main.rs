// Stand-alone runner for the in-process classes of C20 (development aid; the registered check is
// assembled in the schema crate).
fn main() {
    vcommon::main(&[&intro::DEF_INPROCESS])
}
