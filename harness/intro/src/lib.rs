//! C20, in-process part: type ids are a function of the wire-relevant layout graph and of nothing
//! else. Random layout graphs (<= 10 nodes: structs, enums, newtypes, services; recursion and
//! mutual recursion; references wrapped in Option/Vec/Box/Map) are installed in a thread-local
//! table behind const-generic slot types implementing `Introspectable` (needed because
//! `DynIntrospectable` holds plain `fn` pointers), then ids are computed for the graph and for
//! edited copies of it.

use aldrin_core::introspection::ir::{
    EnumFallbackIr, EnumIr, EventIr, FieldIr, FunctionIr, LayoutIr, NewtypeIr, ServiceIr,
    StructFallbackIr, StructIr, VariantIr,
};
use aldrin_core::introspection::{DynIntrospectable, Introspectable, Introspection, LexicalId, References};
use aldrin_core::{SerializedValue, ServiceUuid, TypeId};
use std::cell::RefCell;
use std::collections::{BTreeSet, HashMap};
use uuid::Uuid;
use vcommon::{catch, fingerprint, CheckDef, ClassPlan, Outcome, PassInfo, Tape, Tier};

pub const SLOTS: usize = 12;

#[derive(Clone, Debug, PartialEq, Eq)]
pub enum Wrap {
    Plain,
    Option,
    Vec,
    Box,
    Map,
    /// HashMap<String, T>
    MapStr,
    /// Result<T, u32>
    ResOk,
    /// Result<String, T>
    ResErr,
    /// [T; 2]
    Arr2,
    /// [T; 3]
    Arr3,
    /// Vec<Option<T>>
    VecOpt,
}

#[derive(Clone, Debug, PartialEq, Eq)]
pub enum Ty {
    U32,
    Str,
    Bool,
    Bytes,
    Unit,
    I64,
    F64,
    Uuid,
    ObjectId,
    Value,
    /// built-in generics over built-ins
    VecU8,
    SetStr,
    Arr4U32,
    Arr5U32,
    /// reference to slot j, wrapped
    Ref(usize, Wrap),
}

#[derive(Clone, Debug, PartialEq, Eq)]
pub struct Member {
    pub id: u32,
    pub name: String,
    pub doc: Option<String>,
    pub required: bool,
    /// struct field type / variant payload / function args / event payload
    pub ty: Option<Ty>,
    /// functions only
    pub ok: Option<Ty>,
    pub err: Option<Ty>,
}

#[derive(Clone, Debug, PartialEq, Eq)]
pub enum Kind {
    Struct,
    Enum,
    Newtype,
    Service,
}

#[derive(Clone, Debug, PartialEq, Eq)]
pub struct Node {
    pub kind: Kind,
    pub schema: String,
    pub name: String,
    pub doc: Option<String>,
    /// fields / variants / functions
    pub members: Vec<Member>,
    /// services only
    pub events: Vec<Member>,
    pub fallback: Option<String>,
    pub fallback_doc: Option<String>,
    pub event_fallback: Option<String>,
    pub svc_uuid: u128,
    pub svc_version: u32,
    /// newtypes only
    pub target: Option<Ty>,
    /// order in which add_references announces the references (not wire-relevant)
    pub reverse_refs: bool,
}

thread_local! {
    static TABLE: RefCell<Vec<Node>> = const { RefCell::new(Vec::new()) };
}

pub struct Slot<const N: usize>;

fn lex(t: &Ty, table: &[Node]) -> LexicalId {
    match t {
        Ty::U32 => LexicalId::U32,
        Ty::Str => LexicalId::STRING,
        Ty::Bool => LexicalId::BOOL,
        Ty::Bytes => LexicalId::BYTES,
        Ty::Unit => LexicalId::UNIT,
        Ty::I64 => LexicalId::I64,
        Ty::F64 => LexicalId::F64,
        Ty::Uuid => LexicalId::UUID,
        Ty::ObjectId => LexicalId::OBJECT_ID,
        Ty::Value => LexicalId::VALUE,
        Ty::VecU8 => LexicalId::vec(LexicalId::U8),
        Ty::SetStr => LexicalId::set(LexicalId::STRING),
        Ty::Arr4U32 => LexicalId::array(LexicalId::U32, 4),
        Ty::Arr5U32 => LexicalId::array(LexicalId::U32, 5),
        Ty::Ref(j, w) => {
            let n = &table[*j];
            let inner = LexicalId::custom(&n.schema, &n.name);
            match w {
                Wrap::Plain => inner,
                Wrap::Option => LexicalId::option(inner),
                Wrap::Vec => LexicalId::vec(inner),
                Wrap::Box => LexicalId::box_ty(inner),
                Wrap::Map => LexicalId::map(LexicalId::U32, inner),
                Wrap::MapStr => LexicalId::map(LexicalId::STRING, inner),
                Wrap::ResOk => LexicalId::result(inner, LexicalId::U32),
                Wrap::ResErr => LexicalId::result(LexicalId::STRING, inner),
                Wrap::Arr2 => LexicalId::array(inner, 2),
                Wrap::Arr3 => LexicalId::array(inner, 3),
                Wrap::VecOpt => LexicalId::vec(LexicalId::option(inner)),
            }
        }
    }
}

fn layout_of(i: usize, table: &[Node]) -> LayoutIr {
    let n = &table[i];
    match n.kind {
        Kind::Struct => {
            let mut b = StructIr::builder(&n.schema, &n.name);
            if let Some(d) = &n.doc {
                b = b.doc(d);
            }
            for m in &n.members {
                let mut f = FieldIr::builder(m.id, &m.name, m.required, lex(m.ty.as_ref().unwrap_or(&Ty::U32), table));
                if let Some(d) = &m.doc {
                    f = f.doc(d);
                }
                b = b.field(f.finish());
            }
            if let Some(fb) = &n.fallback {
                let mut f = StructFallbackIr::builder(fb);
                if let Some(d) = &n.fallback_doc {
                    f = f.doc(d);
                }
                b = b.fallback(f.finish());
            }
            LayoutIr::Struct(b.finish())
        }
        Kind::Enum => {
            let mut b = EnumIr::builder(&n.schema, &n.name);
            if let Some(d) = &n.doc {
                b = b.doc(d);
            }
            for m in &n.members {
                let mut v = VariantIr::builder(m.id, &m.name);
                if let Some(d) = &m.doc {
                    v = v.doc(d);
                }
                if let Some(t) = &m.ty {
                    v = v.variant_type(lex(t, table));
                }
                b = b.variant(v.finish());
            }
            if let Some(fb) = &n.fallback {
                let mut f = EnumFallbackIr::builder(fb);
                if let Some(d) = &n.fallback_doc {
                    f = f.doc(d);
                }
                b = b.fallback(f.finish());
            }
            LayoutIr::Enum(b.finish())
        }
        Kind::Newtype => {
            let mut b = NewtypeIr::builder(&n.schema, &n.name, lex(n.target.as_ref().unwrap_or(&Ty::U32), table));
            if let Some(d) = &n.doc {
                b = b.doc(d);
            }
            LayoutIr::Newtype(b.finish())
        }
        Kind::Service => {
            let mut b = ServiceIr::builder(&n.schema, &n.name, ServiceUuid(Uuid::from_u128(n.svc_uuid)), n.svc_version);
            if let Some(d) = &n.doc {
                b = b.doc(d);
            }
            for m in &n.members {
                let mut f = FunctionIr::builder(m.id, &m.name);
                if let Some(d) = &m.doc {
                    f = f.doc(d);
                }
                if let Some(t) = &m.ty {
                    f = f.args(lex(t, table));
                }
                if let Some(t) = &m.ok {
                    f = f.ok(lex(t, table));
                }
                if let Some(t) = &m.err {
                    f = f.err(lex(t, table));
                }
                b = b.function(f.finish());
            }
            for m in &n.events {
                let mut e = EventIr::builder(m.id, &m.name);
                if let Some(d) = &m.doc {
                    e = e.doc(d);
                }
                if let Some(t) = &m.ty {
                    e = e.event_type(lex(t, table));
                }
                b = b.event(e.finish());
            }
            if let Some(fb) = &n.fallback {
                b = b.function_fallback(aldrin_core::introspection::ir::FunctionFallbackIr::builder(fb).finish());
            }
            if let Some(fb) = &n.event_fallback {
                b = b.event_fallback(aldrin_core::introspection::ir::EventFallbackIr::builder(fb).finish());
            }
            LayoutIr::Service(b.finish())
        }
    }
}

fn types_of(n: &Node) -> Vec<Ty> {
    let mut v = vec![];
    if let Some(t) = &n.target {
        if n.kind == Kind::Newtype {
            v.push(t.clone());
        }
    }
    if n.kind != Kind::Newtype {
        for m in n.members.iter().chain(n.events.iter()) {
            for t in [&m.ty, &m.ok, &m.err].into_iter().flatten() {
                v.push(t.clone());
            }
            if n.kind == Kind::Struct && m.ty.is_none() {
                v.push(Ty::U32);
            }
        }
    }
    if n.kind == Kind::Newtype && n.target.is_none() {
        v.push(Ty::U32);
    }
    v
}

macro_rules! slot_match {
    ($j:expr, $refs:expr, $w:expr) => {
        slot_match!(@arms $j, $refs, $w, 0 1 2 3 4 5 6 7 8 9 10 11)
    };
    (@arms $j:expr, $refs:expr, $w:expr, $($n:literal)*) => {
        match ($j, $w) {
            $(
                ($n, Wrap::Plain) => $refs.add::<Slot<$n>>(),
                ($n, Wrap::Option) => $refs.add::<Option<Slot<$n>>>(),
                ($n, Wrap::Vec) => $refs.add::<Vec<Slot<$n>>>(),
                ($n, Wrap::Box) => $refs.add::<Box<Slot<$n>>>(),
                ($n, Wrap::Map) => $refs.add::<HashMap<u32, Slot<$n>>>(),
                ($n, Wrap::MapStr) => $refs.add::<HashMap<String, Slot<$n>>>(),
                ($n, Wrap::ResOk) => $refs.add::<Result<Slot<$n>, u32>>(),
                ($n, Wrap::ResErr) => $refs.add::<Result<String, Slot<$n>>>(),
                ($n, Wrap::Arr2) => $refs.add::<[Slot<$n>; 2]>(),
                ($n, Wrap::Arr3) => $refs.add::<[Slot<$n>; 3]>(),
                ($n, Wrap::VecOpt) => $refs.add::<Vec<Option<Slot<$n>>>>(),
            )*
            _ => {}
        }
    };
}

fn add_ref(t: &Ty, refs: &mut References) {
    match t {
        Ty::U32 => refs.add::<u32>(),
        Ty::Str => refs.add::<String>(),
        Ty::Bool => refs.add::<bool>(),
        Ty::Bytes => refs.add::<aldrin_core::Bytes>(),
        Ty::Unit => refs.add::<()>(),
        Ty::I64 => refs.add::<i64>(),
        Ty::F64 => refs.add::<f64>(),
        Ty::Uuid => refs.add::<Uuid>(),
        Ty::ObjectId => refs.add::<aldrin_core::ObjectId>(),
        Ty::Value => refs.add::<aldrin_core::Value>(),
        Ty::VecU8 => refs.add::<Vec<u8>>(),
        Ty::SetStr => refs.add::<std::collections::HashSet<String>>(),
        Ty::Arr4U32 => refs.add::<[u32; 4]>(),
        Ty::Arr5U32 => refs.add::<[u32; 5]>(),
        Ty::Ref(j, w) => slot_match!(*j, refs, w),
    }
}

impl<const N: usize> Introspectable for Slot<N> {
    fn layout() -> LayoutIr {
        TABLE.with(|t| layout_of(N, &t.borrow()))
    }

    fn lexical_id() -> LexicalId {
        TABLE.with(|t| {
            let t = t.borrow();
            let n = &t[N];
            if n.kind == Kind::Service {
                LexicalId::service(&n.schema, &n.name)
            } else {
                LexicalId::custom(&n.schema, &n.name)
            }
        })
    }

    fn add_references(references: &mut References) {
        let (tys, rev) = TABLE.with(|t| {
            let t = t.borrow();
            (types_of(&t[N]), t[N].reverse_refs)
        });
        if rev {
            for t in tys.iter().rev() {
                add_ref(t, references);
            }
        } else {
            for t in &tys {
                add_ref(t, references);
            }
        }
    }
}

fn dyn_slot(i: usize) -> DynIntrospectable {
    macro_rules! arms {
        ($($n:literal)*) => {
            match i {
                $( $n => DynIntrospectable::new::<Slot<$n>>(), )*
                _ => panic!("harness: slot index"),
            }
        };
    }
    arms!(0 1 2 3 4 5 6 7 8 9 10 11)
}

/// Installs the table and computes the type id of every node.
pub fn ids(table: &[Node]) -> Vec<TypeId> {
    TABLE.with(|t| *t.borrow_mut() = table.to_vec());
    (0..table.len()).map(|i| TypeId::compute_from_dyn(dyn_slot(i))).collect()
}

// ---------------------------------------------------------------------------------------------
// generation

fn gen_ty(t: &mut Tape, n: usize, value_only: bool, table_kinds: &[Kind]) -> Ty {
    if t.weighted(&[2, 3]) == 0 {
        return match t.below(14) {
            0 => Ty::U32,
            1 => Ty::Str,
            2 => Ty::Bool,
            3 => Ty::Bytes,
            4 => Ty::Unit,
            5 => Ty::I64,
            6 => Ty::F64,
            7 => Ty::Uuid,
            8 => Ty::ObjectId,
            9 => Ty::Value,
            10 => Ty::VecU8,
            11 => Ty::SetStr,
            12 => Ty::Arr4U32,
            _ => Ty::Arr5U32,
        };
    }
    // reference to a value type (services cannot be referenced)
    let cands: Vec<usize> = (0..n).filter(|j| table_kinds[*j] != Kind::Service).collect();
    if cands.is_empty() {
        return Ty::U32;
    }
    let _ = value_only;
    let j = *t.pick(&cands);
    let w = match t.below(11) {
        0 => Wrap::Plain,
        1 => Wrap::Option,
        2 => Wrap::Vec,
        3 => Wrap::Box,
        4 => Wrap::Map,
        5 => Wrap::MapStr,
        6 => Wrap::ResOk,
        7 => Wrap::ResErr,
        8 => Wrap::Arr2,
        9 => Wrap::Arr3,
        _ => Wrap::VecOpt,
    };
    Ty::Ref(j, w)
}

pub fn gen_graph(t: &mut Tape) -> Vec<Node> {
    let n = t.range(2, 10);
    let kinds: Vec<Kind> = (0..n)
        .map(|_| match t.weighted(&[4, 3, 2, 2]) {
            0 => Kind::Struct,
            1 => Kind::Enum,
            2 => Kind::Newtype,
            _ => Kind::Service,
        })
        .collect();
    let mut table = vec![];
    for i in 0..n {
        let kind = kinds[i].clone();
        let schema = if t.bool() { "alpha" } else { "beta" }.to_string();
        let name = format!("{}{}", ["Thing", "Item", "Node"][t.below(3)], i);
        let nm = if kind == Kind::Newtype { 0 } else { t.range(0, 5) };
        let mut members = vec![];
        let mut used = BTreeSet::new();
        for k in 0..nm {
            let mut id = if t.bool() { k as u32 } else { t.below(9) as u32 + 100 * t.below(2) as u32 };
            while !used.insert(id) {
                id += 1;
            }
            let has_ty = kind == Kind::Struct || t.weighted(&[1, 2]) == 1;
            members.push(Member {
                id,
                name: format!("m{}_{}", k, t.below(3)),
                doc: if t.chance(60) { Some("doc text".into()) } else { None },
                required: t.bool(),
                ty: if has_ty { Some(gen_ty(t, n, true, &kinds)) } else { None },
                ok: if kind == Kind::Service && t.bool() { Some(gen_ty(t, n, true, &kinds)) } else { None },
                err: if kind == Kind::Service && t.chance(80) { Some(gen_ty(t, n, true, &kinds)) } else { None },
            });
        }
        if kind == Kind::Enum && members.is_empty() {
            members.push(Member { id: 0, name: "Only".into(), doc: None, required: false, ty: None, ok: None, err: None });
        }
        let mut events = vec![];
        if kind == Kind::Service {
            let ne = t.range(0, 3);
            let mut used = BTreeSet::new();
            for k in 0..ne {
                let id = k as u32 + 10 * t.below(2) as u32;
                if !used.insert(id) {
                    continue;
                }
                events.push(Member {
                    id,
                    name: format!("ev{}", k),
                    doc: None,
                    required: false,
                    ty: if t.bool() { Some(gen_ty(t, n, true, &kinds)) } else { None },
                    ok: None,
                    err: None,
                });
            }
        }
        table.push(Node {
            kind: kind.clone(),
            schema,
            name,
            doc: if t.chance(80) { Some("type doc".into()) } else { None },
            members,
            events,
            fallback: if kind != Kind::Newtype && t.chance(70) { Some("other".into()) } else { None },
            fallback_doc: None,
            event_fallback: if kind == Kind::Service && t.chance(50) { Some("unknown_event".into()) } else { None },
            svc_uuid: 0x5000 + i as u128,
            svc_version: t.below(3) as u32,
            target: if kind == Kind::Newtype { Some(gen_ty(t, n, true, &kinds)) } else { None },
            reverse_refs: false,
        });
    }
    table
}

fn edges(table: &[Node]) -> Vec<Vec<usize>> {
    table
        .iter()
        .map(|n| {
            types_of(n)
                .into_iter()
                .filter_map(|t| if let Ty::Ref(j, _) = t { Some(j) } else { None })
                .collect()
        })
        .collect()
}

/// Nodes from which `e` is reachable (including `e`).
fn ancestors(table: &[Node], e: usize) -> BTreeSet<usize> {
    let ed = edges(table);
    let mut set = BTreeSet::new();
    set.insert(e);
    loop {
        let mut grew = false;
        for (i, outs) in ed.iter().enumerate() {
            if !set.contains(&i) && outs.iter().any(|j| set.contains(j)) {
                set.insert(i);
                grew = true;
            }
        }
        if !grew {
            break;
        }
    }
    set
}

fn has_cycle_or_chain(table: &[Node]) -> (bool, bool) {
    let ed = edges(table);
    let n = table.len();
    let mut cycle = false;
    let mut chain = false;
    for s in 0..n {
        // reachability by BFS with depth
        let mut depth = vec![usize::MAX; n];
        let mut q = std::collections::VecDeque::new();
        for j in &ed[s] {
            if depth[*j] == usize::MAX {
                depth[*j] = 1;
                q.push_back(*j);
            }
        }
        while let Some(x) = q.pop_front() {
            for j in &ed[x] {
                if depth[*j] == usize::MAX {
                    depth[*j] = depth[x] + 1;
                    q.push_back(*j);
                }
            }
        }
        if depth[s] != usize::MAX {
            cycle = true;
        }
        if depth.iter().any(|d| *d != usize::MAX && *d >= 2) {
            chain = true;
        }
    }
    (cycle, chain)
}

// ---------------------------------------------------------------------------------------------
// edits

fn selectors(t: &mut Tape) -> [u8; 18] {
    let mut s = [0u8; 18];
    for b in s.iter_mut() {
        *b = t.u8();
    }
    s
}

/// Edits that must not change any id.
fn neutral_edit(table: &[Node], sel: u8, t: &mut Tape) -> (Vec<Node>, &'static str) {
    let mut g = table.to_vec();
    match sel % 4 {
        0 => {
            for n in g.iter_mut() {
                n.doc = Some(format!("changed docs {}", t.u8()));
                n.fallback_doc = if n.kind != Kind::Service && n.fallback.is_some() { Some("fallback docs".into()) } else { None };
                for m in n.members.iter_mut().chain(n.events.iter_mut()) {
                    m.doc = if t.bool() { Some("member docs".into()) } else { None };
                }
            }
            (g, "neutral:docs")
        }
        1 => {
            for n in g.iter_mut() {
                if t.bool() {
                    n.members.reverse();
                    n.events.reverse();
                } else {
                    // rotate by a tape-chosen amount
                    if !n.members.is_empty() {
                        let k = t.below(n.members.len());
                        n.members.rotate_left(k);
                    }
                    if n.events.len() > 1 {
                        n.events.rotate_left(1);
                    }
                }
            }
            (g, "neutral:declaration-order")
        }
        2 => {
            for n in g.iter_mut() {
                n.reverse_refs = true;
            }
            (g, "neutral:reference-visiting-order")
        }
        _ => (g, "neutral:recompute"),
    }
}

/// One semantic edit of node `e`; returns None if the chosen edit does not apply. The member that is
/// edited is drawn from the tape (first, last, any), so a description that, say, only covers a
/// type's first member does not go unnoticed.
fn semantic_edit(table: &[Node], e: usize, sel: [u8; 3], t: &mut Tape) -> Option<(Vec<Node>, &'static str)> {
    let mut g = table.to_vec();
    let n_nodes = table.len();
    let kinds: Vec<Kind> = table.iter().map(|n| n.kind.clone()).collect();
    let which = sel[0] as usize % 21;
    let n = &mut g[e];
    let mi = if n.members.is_empty() { 0 } else { sel[1] as usize % n.members.len() };
    let ei = if n.events.is_empty() { 0 } else { sel[2] as usize % n.events.len() };
    let label = match which {
        0 => {
            n.schema.push('x');
            "edit:schema-name"
        }
        1 => {
            n.name.push('X');
            "edit:type-name"
        }
        2 => {
            let m = n.members.get_mut(mi)?;
            m.name.push('z');
            "edit:member-name"
        }
        3 => {
            let taken: BTreeSet<u32> = n.members.iter().map(|m| m.id).collect();
            let m = n.members.get_mut(mi)?;
            let mut id = m.id + 1;
            while taken.contains(&id) {
                id += 1;
            }
            m.id = id;
            "edit:member-id"
        }
        4 => {
            if n.kind != Kind::Struct {
                return None;
            }
            let m = n.members.get_mut(mi)?;
            m.required = !m.required;
            "edit:required-flag"
        }
        5 => {
            // change a referenced type
            let new_ty = gen_ty(t, n_nodes, true, &kinds);
            if n.kind == Kind::Newtype {
                if n.target.as_ref() == Some(&new_ty) {
                    return None;
                }
                n.target = Some(new_ty);
            } else {
                let is_struct = n.kind == Kind::Struct;
                let m = n.members.get_mut(mi)?;
                let old = if is_struct { Some(m.ty.clone().unwrap_or(Ty::U32)) } else { m.ty.clone() };
                if old.as_ref() == Some(&new_ty) {
                    return None;
                }
                m.ty = Some(new_ty);
            }
            "edit:referenced-type"
        }
        6 => {
            if n.kind == Kind::Newtype {
                return None;
            }
            n.fallback = match n.fallback {
                Some(_) => None,
                None => Some("other".into()),
            };
            "edit:fallback-toggled"
        }
        7 => {
            if n.kind == Kind::Newtype {
                return None;
            }
            let f = n.fallback.as_mut()?;
            f.push('q');
            "edit:fallback-name"
        }
        8 => {
            if n.kind != Kind::Service {
                return None;
            }
            n.svc_uuid += 1;
            "edit:service-uuid"
        }
        9 => {
            if n.kind != Kind::Service {
                return None;
            }
            n.svc_version += 1;
            "edit:service-version"
        }
        10 => {
            if n.kind != Kind::Service {
                return None;
            }
            let taken: BTreeSet<u32> = n.events.iter().map(|m| m.id).collect();
            let ev = n.events.get_mut(ei)?;
            let mut id = ev.id + 1;
            while taken.contains(&id) {
                id += 1;
            }
            ev.id = id;
            "edit:event-id"
        }
        11 => {
            if n.kind != Kind::Service {
                return None;
            }
            let ev = n.events.get_mut(ei)?;
            ev.name.push('y');
            "edit:event-name"
        }
        12 => {
            if n.kind != Kind::Service {
                return None;
            }
            let new_ty = if t.chance(70) { Some(gen_ty(t, n_nodes, true, &kinds)) } else { None };
            let ev = n.events.get_mut(ei)?;
            if ev.ty == new_ty {
                return None;
            }
            ev.ty = new_ty;
            "edit:event-type"
        }
        13 => {
            if n.kind != Kind::Service {
                return None;
            }
            let new_ty = if t.chance(70) { Some(gen_ty(t, n_nodes, true, &kinds)) } else { None };
            let m = n.members.get_mut(mi)?;
            if m.ok == new_ty {
                return None;
            }
            m.ok = new_ty;
            "edit:function-ok-type"
        }
        14 => {
            if n.kind != Kind::Service {
                return None;
            }
            let new_ty = if t.chance(70) { Some(gen_ty(t, n_nodes, true, &kinds)) } else { None };
            let m = n.members.get_mut(mi)?;
            if m.err == new_ty {
                return None;
            }
            m.err = new_ty;
            "edit:function-err-type"
        }
        15 => {
            if n.kind != Kind::Service {
                return None;
            }
            n.event_fallback = match n.event_fallback {
                Some(_) => None,
                None => Some("unknown_event".into()),
            };
            "edit:event-fallback-toggled"
        }
        16 => {
            if n.kind != Kind::Service {
                return None;
            }
            let id = n.events.iter().map(|m| m.id).max().unwrap_or(0) + 3;
            n.events.push(Member { id, name: "added_ev".into(), doc: None, required: false, ty: None, ok: None, err: None });
            "edit:event-added"
        }
        17 => {
            // same target, different wrapper / built-in of the same family (array length, key type)
            let swap = |ty: &Ty| -> Option<Ty> {
                Some(match ty {
                    Ty::Ref(j, Wrap::Arr2) => Ty::Ref(*j, Wrap::Arr3),
                    Ty::Ref(j, Wrap::Arr3) => Ty::Ref(*j, Wrap::Arr2),
                    Ty::Ref(j, Wrap::Map) => Ty::Ref(*j, Wrap::MapStr),
                    Ty::Ref(j, Wrap::MapStr) => Ty::Ref(*j, Wrap::Map),
                    Ty::Ref(j, Wrap::Vec) => Ty::Ref(*j, Wrap::VecOpt),
                    Ty::Ref(j, Wrap::VecOpt) => Ty::Ref(*j, Wrap::Vec),
                    Ty::Ref(j, Wrap::Option) => Ty::Ref(*j, Wrap::Box),
                    Ty::Ref(j, Wrap::Box) => Ty::Ref(*j, Wrap::Plain),
                    Ty::Ref(j, Wrap::Plain) => Ty::Ref(*j, Wrap::Option),
                    Ty::Ref(j, Wrap::ResOk) => Ty::Ref(*j, Wrap::ResErr),
                    Ty::Ref(j, Wrap::ResErr) => Ty::Ref(*j, Wrap::ResOk),
                    Ty::Arr4U32 => Ty::Arr5U32,
                    Ty::Arr5U32 => Ty::Arr4U32,
                    Ty::VecU8 => Ty::Bytes,
                    Ty::Bytes => Ty::VecU8,
                    Ty::U32 => Ty::I64,
                    Ty::I64 => Ty::U32,
                    _ => return None,
                })
            };
            if n.kind == Kind::Newtype {
                let cur = n.target.clone().unwrap_or(Ty::U32);
                n.target = Some(swap(&cur)?);
            } else {
                let is_struct = n.kind == Kind::Struct;
                let m = n.members.get_mut(mi)?;
                let cur = if is_struct { m.ty.clone().unwrap_or(Ty::U32) } else { m.ty.clone()? };
                m.ty = Some(swap(&cur)?);
            }
            "edit:wrapper-or-length"
        }
        18 => {
            if n.kind == Kind::Newtype || n.members.len() < 2 {
                return None;
            }
            n.members.remove(mi);
            "edit:member-removed"
        }
        19 => {
            // enum variant gains or loses its payload
            if n.kind != Kind::Enum {
                return None;
            }
            let m = n.members.get_mut(mi)?;
            m.ty = match m.ty {
                Some(_) => None,
                None => Some(Ty::Str),
            };
            "edit:variant-payload-toggled"
        }
        _ => {
            if n.kind == Kind::Newtype {
                return None;
            }
            // add a member
            let id = n.members.iter().map(|m| m.id).max().unwrap_or(0) + 7;
            let ty = if n.kind == Kind::Struct { Some(Ty::Bool) } else { None };
            n.members.push(Member { id, name: "added".into(), doc: None, required: false, ty, ok: None, err: None });
            "edit:member-added"
        }
    };
    Some((g, label))
}

// ---------------------------------------------------------------------------------------------
// the check

fn plan(t: Tier) -> Vec<ClassPlan> {
    let k = match t {
        Tier::Quick => 1,
        Tier::Thorough => 20,
    };
    vec![ClassPlan { class: "graph", cases: 12_000 * k, min_len: 24, max_len: 600 }]
}

pub fn render(_class: &str, tape: &[u8]) -> String {
    let mut t = Tape::new(tape);
    let _det = t.u32();
    let _sel = selectors(&mut t);
    let g = gen_graph(&mut t);
    let mut s = String::new();
    for (i, n) in g.iter().enumerate() {
        s.push_str(&format!(
            "#{} {:?} {}::{} members={:?} events={} target={:?} fallback={:?}\n",
            i,
            n.kind,
            n.schema,
            n.name,
            n.members.iter().map(|m| (m.id, m.name.as_str(), m.required, &m.ty)).collect::<Vec<_>>(),
            n.events.len(),
            n.target,
            n.fallback
        ));
    }
    s
}

pub fn case(_class: &str, tape: &[u8], _strict: bool) -> Outcome {
    let tape = tape.to_vec();
    let det = Tape::new(&tape).u32() as u64;
    match vcommon::with_det_seed(det, 4 << 20, move || case_inner(&tape)) {
        Ok(o) => o,
        Err(_) => {
            let p = vcommon::last_panic_any_thread();
            Outcome::fail(format!("panic:{}", p.location()), format!("panic: {}", p.0))
        }
    }
}

fn case_inner(tape: &[u8]) -> Outcome {
    let mut t = Tape::new(tape);
    let _det = t.u32();
    // the edit selectors sit at the front of the tape so that a long graph cannot starve them
    let sel = selectors(&mut t);
    let g = gen_graph(&mut t);
    let mut classes: Vec<&'static str> = vec![];
    let base = match catch(|| ids(&g)) {
        Ok(v) => v,
        Err(p) => return Outcome::fail(format!("panic:compute:{}", p.location()), format!("TypeId::compute panicked: {}\n{}", p.0, render("", tape))),
    };
    // same (schema, name, kind) => necessarily the same lexical id; the generator gives every slot
    // its own name, so ids of different slots must differ
    for i in 0..g.len() {
        for j in 0..i {
            if base[i] == base[j] && g[i] != g[j] {
                return Outcome::fail("type-id:collision", format!("slots {} and {} have different descriptions but the same type id {:?}\n{}", j, i, base[i], render("", tape)));
            }
        }
    }
    // neutral edits: nothing changes
    for k in 0..2 {
        let (g2, label) = neutral_edit(&g, sel[k], &mut t);
        classes.push(label);
        let ids2 = match catch(|| ids(&g2)) {
            Ok(v) => v,
            Err(p) => return Outcome::fail(format!("panic:compute:{}", p.location()), p.0),
        };
        for i in 0..g.len() {
            if ids2[i] != base[i] {
                return Outcome::fail(
                    format!("type-id:changed-by-{}", label),
                    format!("type id of slot {} changed although only {} was edited: {:?} -> {:?}\n{}", i, label, base[i], ids2[i], render("", tape)),
                );
            }
        }
    }
    // semantic edits: exactly the edited type and everything that references it change
    for k in 0..4 {
        let o = 2 + 4 * k;
        let e = sel[o] as usize % g.len();
        let Some((g2, label)) = semantic_edit(&g, e, [sel[o + 1], sel[o + 2], sel[o + 3]], &mut t) else { continue };
        classes.push(label);
        let ids2 = match catch(|| ids(&g2)) {
            Ok(v) => v,
            Err(p) => return Outcome::fail(format!("panic:compute:{}", p.location()), p.0),
        };
        // a type "references" e in the old or in the new graph
        let mut must_change = ancestors(&g, e);
        must_change.extend(ancestors(&g2, e));
        // nodes whose reference to e disappeared or appeared by the edit are covered by e itself
        for i in 0..g.len() {
            let changed = ids2[i] != base[i];
            if must_change.contains(&i) && !changed {
                return Outcome::fail(
                    format!("type-id:unchanged-after-{}", label),
                    format!("{} of slot {}: the type id of slot {} (which {} it) did not change: {:?}\n{}", label, e, i, if i == e { "is" } else { "references" }, base[i], render("", tape)),
                );
            }
            if !must_change.contains(&i) && changed {
                return Outcome::fail(
                    format!("type-id:unrelated-changed-after-{}", label),
                    format!("{} of slot {}: the type id of unrelated slot {} changed\n{}", label, e, i, render("", tape)),
                );
            }
        }
    }
    // introspection records: round trip and resolvable references
    TABLE.with(|tb| *tb.borrow_mut() = g.clone());
    for i in 0..g.len() {
        let rec = match catch(|| Introspection::from_dyn(dyn_slot(i))) {
            Ok(r) => r,
            Err(p) => return Outcome::fail(format!("panic:introspection:{}", p.location()), format!("Introspection::from_dyn panicked (unresolved reference?): {}\n{}", p.0, render("", tape))),
        };
        if rec.type_id() != base[i] {
            return Outcome::fail("introspection:type-id-differs", format!("record of slot {} carries {:?}, TypeId::compute gives {:?}", i, rec.type_id(), base[i]));
        }
        let ser = match SerializedValue::serialize(&rec) {
            Ok(s) => s,
            Err(e) => return Outcome::fail("introspection:serialize-failed", format!("{:?}", e)),
        };
        match ser.deserialize::<Introspection>() {
            Ok(back) => {
                if back != rec {
                    return Outcome::fail("introspection:roundtrip-differs", format!("slot {}: deserialized record differs\n{:?}\n{:?}", i, rec, back));
                }
            }
            Err(e) => return Outcome::fail("introspection:deserialize-failed", format!("slot {}: {:?}", i, e)),
        }
        // the direct references are exactly the types named by the layout
        let want: BTreeSet<TypeId> = types_of(&g[i])
            .iter()
            .map(|ty| {
                let mut v = vec![];
                add_ref(ty, &mut References::new(&mut v));
                TypeId::compute_from_dyn(v[0])
            })
            .collect();
        let got: BTreeSet<TypeId> = rec.references().iter().copied().collect();
        if got != want {
            return Outcome::fail("introspection:references-differ", format!("slot {}: record references {:?}, layout names {:?}", i, got, want));
        }
    }
    let (cycle, chain) = has_cycle_or_chain(&g);
    if cycle {
        classes.push("graph:cycle");
    }
    if chain {
        classes.push("graph:chain>=2");
    }
    let mut key = vec![];
    for id in &base {
        key.extend_from_slice(id.0.as_bytes());
    }
    Outcome::Pass(PassInfo { nontrivial: cycle || chain, fp: fingerprint(&key), classes })
}

pub static DEF_INPROCESS: CheckDef = CheckDef {
    id: "C20",
    level: "exploration",
    rule: "In-process class: random layout graphs (2-10 nodes: structs, enums, newtypes, services; references to other nodes plain or wrapped in Option/Vec/Box/Map, recursion and mutual recursion) built with the public IR builders behind const-generic Introspectable slots; ids computed for the graph, for neutral edits (docs, declaration order, reference visiting order, different HashMap seeds: must be identical) and for single semantic edits of a tape-chosen member (schema/type/member name, member id, required flag, referenced type incl. wrapper-only and array-length-only changes, function ok/err type, event id/name/type, fallback and event fallback added/removed/renamed, service uuid/version, member or event added, member removed, variant payload toggled: the edited type and exactly the types that reference it, transitively, must change); every Introspection record round-trips and its references are exactly the types its layout names. Non-trivial: the graph has a cycle or a >= 2-hop reference chain. Distinct = distinct id vector.",
    assumptions: &["the IR builders are the statement of the wire-relevant description; Rust-level field types are limited to the wrappers listed"],
    plan,
    case,
    render,
    crashy: false,
    floors: &[("graph:cycle", 0.2), ("graph:chain>=2", 0.3), ("edit:referenced-type", 0.05), ("neutral:docs", 0.2)],
    extra: None,
    extra_coverage: None,
};
