//! Independent reference implementation of the aldrin value wire format.
//!
//! Written from the format description, never calling the crate's
//! Serializer / Deserializer. It keeps everything the wire can express
//! (container epoch, varint width, raw bool byte, raw string bytes, chunking of
//! epoch-2 byte strings, element order incl. duplicates) in `RTree`, and maps
//! trees to their meaning with `sem`.

use std::collections::{BTreeMap, BTreeSet};

pub const MAX_DEPTH: u32 = 32;

// value kinds (shared numeric table; checked against ValueKind at start-up)
pub const K_NONE: u8 = 0;
pub const K_SOME: u8 = 1;
pub const K_BOOL: u8 = 2;
pub const K_U8: u8 = 3;
pub const K_I8: u8 = 4;
pub const K_U16: u8 = 5;
pub const K_I16: u8 = 6;
pub const K_U32: u8 = 7;
pub const K_I32: u8 = 8;
pub const K_U64: u8 = 9;
pub const K_I64: u8 = 10;
pub const K_F32: u8 = 11;
pub const K_F64: u8 = 12;
pub const K_STRING: u8 = 13;
pub const K_UUID: u8 = 14;
pub const K_OBJECT_ID: u8 = 15;
pub const K_SERVICE_ID: u8 = 16;
pub const K_VEC1: u8 = 17;
pub const K_BYTES1: u8 = 18;
pub const K_MAP1_BASE: u8 = 19; // + key kind index 0..10
pub const K_SET1_BASE: u8 = 29;
pub const K_STRUCT1: u8 = 39;
pub const K_ENUM: u8 = 40;
pub const K_SENDER: u8 = 41;
pub const K_RECEIVER: u8 = 42;
pub const K_VEC2: u8 = 43;
pub const K_BYTES2: u8 = 44;
pub const K_MAP2_BASE: u8 = 45;
pub const K_SET2_BASE: u8 = 55;
pub const K_STRUCT2: u8 = 65;
pub const K_MAX: u8 = 65;

#[derive(Clone, Copy, Debug, PartialEq, Eq, PartialOrd, Ord, Hash)]
pub enum Epoch {
    V1,
    V2,
}

/// Key kinds in wire-table order.
#[derive(Clone, Copy, Debug, PartialEq, Eq, PartialOrd, Ord, Hash)]
pub enum KeyKind {
    U8 = 0,
    I8 = 1,
    U16 = 2,
    I16 = 3,
    U32 = 4,
    I32 = 5,
    U64 = 6,
    I64 = 7,
    String = 8,
    Uuid = 9,
}

pub const KEY_KINDS: [KeyKind; 10] = [
    KeyKind::U8,
    KeyKind::I8,
    KeyKind::U16,
    KeyKind::I16,
    KeyKind::U32,
    KeyKind::I32,
    KeyKind::U64,
    KeyKind::I64,
    KeyKind::String,
    KeyKind::Uuid,
];

/// A variable-length integer as it appears on the wire. `raw` is the unsigned
/// image (zigzag image for signed kinds). `form` 0 = single-byte form, k>0 =
/// marker byte followed by k little-endian bytes.
#[derive(Clone, Copy, Debug, PartialEq, Eq, PartialOrd, Ord, Hash)]
pub struct VarInt {
    pub raw: u64,
    pub form: u8,
}

impl VarInt {
    /// Canonical (shortest) form for an N-byte integer type.
    pub fn canonical(raw: u64, n: u8) -> Self {
        if raw <= (255 - n as u64) {
            return VarInt { raw, form: 0 };
        }
        let mut k = 1u8;
        while k < 8 && (raw >> (8 * k as u32)) != 0 {
            k += 1;
        }
        VarInt { raw, form: k }
    }

    /// All forms that can carry `raw` for an N-byte type.
    pub fn forms_for(raw: u64, n: u8) -> Vec<u8> {
        let mut v = vec![];
        if raw <= (255 - n as u64) {
            v.push(0);
        }
        for k in 1..=n {
            if k == 8 || (raw >> (8 * k as u32)) == 0 {
                v.push(k);
            }
        }
        v
    }
}

pub fn zigzag_enc(v: i64, bits: u32) -> u64 {
    // image within `bits` bits
    let mask = if bits == 64 { u64::MAX } else { (1u64 << bits) - 1 };
    (((v << 1) ^ (v >> 63)) as u64) & mask
}

pub fn zigzag_dec(raw: u64) -> i64 {
    ((raw >> 1) as i64) ^ -((raw & 1) as i64)
}

#[derive(Clone, Debug, PartialEq, Eq, PartialOrd, Ord, Hash)]
pub enum RKey {
    U8(u8),
    I8(i8),
    /// U16/I16/U32/I32/U64/I64: raw varint image
    Int(VarInt),
    /// length varint + raw bytes
    Str(VarInt, Vec<u8>),
    Uuid([u8; 16]),
}

#[derive(Clone, Debug, PartialEq, Eq, Hash)]
pub enum RTree {
    None,
    Some(Box<RTree>),
    Bool(u8),
    U8(u8),
    I8(i8),
    U16(VarInt),
    I16(VarInt),
    U32(VarInt),
    I32(VarInt),
    U64(VarInt),
    I64(VarInt),
    F32(u32),
    F64(u64),
    String(VarInt, Vec<u8>),
    Uuid([u8; 16]),
    ObjectId([u8; 32]),
    ServiceId([u8; 64]),
    /// epoch, length varint form (V1 only), elements
    Vec(Epoch, u8, Vec<RTree>),
    /// V1: one chunk (may be empty) with its length form; V2: non-empty chunks, terminator form
    Bytes(Epoch, Vec<(u8, Vec<u8>)>, u8),
    Map(KeyKind, Epoch, u8, Vec<(RKey, RTree)>),
    Set(KeyKind, Epoch, u8, Vec<RKey>),
    Struct(Epoch, u8, Vec<(VarInt, RTree)>),
    Enum(VarInt, Box<RTree>),
    Sender([u8; 16]),
    Receiver([u8; 16]),
}

#[derive(Clone, Debug, PartialEq, Eq, PartialOrd, Ord, Hash)]
pub enum SemKey {
    U8(u8),
    I8(i8),
    U16(u16),
    I16(i16),
    U32(u32),
    I32(i32),
    U64(u64),
    I64(i64),
    Str(Vec<u8>),
    Uuid([u8; 16]),
}

/// The meaning of a value: epochs, varint widths, chunking and element order erased.
#[derive(Clone, Debug, PartialEq, Eq, PartialOrd, Ord, Hash)]
pub enum Sem {
    None,
    Some(Box<Sem>),
    Bool(bool),
    U8(u8),
    I8(i8),
    U16(u16),
    I16(i16),
    U32(u32),
    I32(i32),
    U64(u64),
    I64(i64),
    F32(u32),
    F64(u64),
    Str(Vec<u8>),
    Uuid([u8; 16]),
    ObjectId([u8; 32]),
    ServiceId([u8; 64]),
    Vec(Vec<Sem>),
    Bytes(Vec<u8>),
    Map(KeyKind, BTreeMap<SemKey, Sem>),
    Set(KeyKind, BTreeSet<SemKey>),
    Struct(BTreeMap<u32, Sem>),
    Enum(u32, Box<Sem>),
    Sender([u8; 16]),
    Receiver([u8; 16]),
}

#[derive(Clone, Copy, Debug, PartialEq, Eq)]
pub enum RefError {
    /// Ran out of input.
    Eoi(usize),
    /// Unknown kind / bad marker / bad length at this offset.
    Invalid(usize),
    /// Nesting deeper than 32.
    TooDeep(usize),
    /// Invalid UTF-8 in a string or string key (strict mode only).
    Utf8(usize),
}

impl RefError {
    pub fn pos(&self) -> usize {
        match *self {
            RefError::Eoi(p) | RefError::Invalid(p) | RefError::TooDeep(p) | RefError::Utf8(p) => p,
        }
    }
}

#[derive(Clone, Copy, Debug, PartialEq, Eq)]
pub enum Mode {
    /// What full decoding into a dynamic value demands.
    Strict,
    /// What skipping / measuring demands: no UTF-8 validation.
    Skip,
}

pub fn key_kind_of_map(kind: u8) -> Option<(KeyKind, Epoch)> {
    if (K_MAP1_BASE..K_MAP1_BASE + 10).contains(&kind) {
        Some((KEY_KINDS[(kind - K_MAP1_BASE) as usize], Epoch::V1))
    } else if (K_MAP2_BASE..K_MAP2_BASE + 10).contains(&kind) {
        Some((KEY_KINDS[(kind - K_MAP2_BASE) as usize], Epoch::V2))
    } else {
        None
    }
}

pub fn key_kind_of_set(kind: u8) -> Option<(KeyKind, Epoch)> {
    if (K_SET1_BASE..K_SET1_BASE + 10).contains(&kind) {
        Some((KEY_KINDS[(kind - K_SET1_BASE) as usize], Epoch::V1))
    } else if (K_SET2_BASE..K_SET2_BASE + 10).contains(&kind) {
        Some((KEY_KINDS[(kind - K_SET2_BASE) as usize], Epoch::V2))
    } else {
        None
    }
}

pub fn map_kind(k: KeyKind, e: Epoch) -> u8 {
    match e {
        Epoch::V1 => K_MAP1_BASE + k as u8,
        Epoch::V2 => K_MAP2_BASE + k as u8,
    }
}

pub fn set_kind(k: KeyKind, e: Epoch) -> u8 {
    match e {
        Epoch::V1 => K_SET1_BASE + k as u8,
        Epoch::V2 => K_SET2_BASE + k as u8,
    }
}

struct Rd<'a> {
    b: &'a [u8],
    p: usize,
    mode: Mode,
    /// When set, a too-deep nesting is not an error (used to parse adversarial inputs for C01).
    no_depth_limit: bool,
    /// Statistics gathered while decoding.
    max_depth: u32,
    saw_v2: bool,
    saw_v1: bool,
    nodes: usize,
}

impl<'a> Rd<'a> {
    fn u8(&mut self) -> Result<u8, RefError> {
        let v = *self.b.get(self.p).ok_or(RefError::Eoi(self.p))?;
        self.p += 1;
        Ok(v)
    }

    fn take(&mut self, n: usize) -> Result<&'a [u8], RefError> {
        if self.b.len() - self.p < n {
            return Err(RefError::Eoi(self.p));
        }
        let s = &self.b[self.p..self.p + n];
        self.p += n;
        Ok(s)
    }

    fn arr<const N: usize>(&mut self) -> Result<[u8; N], RefError> {
        let s = self.take(N)?;
        let mut a = [0u8; N];
        a.copy_from_slice(s);
        Ok(a)
    }

    fn varint(&mut self, n: u8) -> Result<VarInt, RefError> {
        let first = self.u8()?;
        if first as u16 > 255 - n as u16 {
            let k = (first as u16 + n as u16 - 255) as u8;
            let s = self.take(k as usize)?;
            let mut raw = 0u64;
            for (i, b) in s.iter().enumerate() {
                raw |= (*b as u64) << (8 * i);
            }
            Ok(VarInt { raw, form: k })
        } else {
            Ok(VarInt {
                raw: first as u64,
                form: 0,
            })
        }
    }

    fn key(&mut self, k: KeyKind) -> Result<RKey, RefError> {
        Ok(match k {
            KeyKind::U8 => RKey::U8(self.u8()?),
            KeyKind::I8 => RKey::I8(self.u8()? as i8),
            KeyKind::U16 | KeyKind::I16 => RKey::Int(self.varint(2)?),
            KeyKind::U32 | KeyKind::I32 => RKey::Int(self.varint(4)?),
            KeyKind::U64 | KeyKind::I64 => RKey::Int(self.varint(8)?),
            KeyKind::String => {
                let l = self.varint(4)?;
                let at = self.p;
                let s = self.take(l.raw as usize)?;
                if self.mode == Mode::Strict && std::str::from_utf8(s).is_err() {
                    return Err(RefError::Utf8(at));
                }
                RKey::Str(l, s.to_vec())
            }
            KeyKind::Uuid => RKey::Uuid(self.arr()?),
        })
    }

    /// `level` is the nesting level of the value about to be read (a bare value is level 1).
    fn value(&mut self, level: u32) -> Result<RTree, RefError> {
        if level > MAX_DEPTH && !self.no_depth_limit {
            return Err(RefError::TooDeep(self.p));
        }
        self.max_depth = self.max_depth.max(level);
        self.nodes += 1;
        let at = self.p;
        let kind = self.u8()?;
        Ok(match kind {
            K_NONE => RTree::None,
            K_SOME => RTree::Some(Box::new(self.value(level + 1)?)),
            K_BOOL => RTree::Bool(self.u8()?),
            K_U8 => RTree::U8(self.u8()?),
            K_I8 => RTree::I8(self.u8()? as i8),
            K_U16 => RTree::U16(self.varint(2)?),
            K_I16 => RTree::I16(self.varint(2)?),
            K_U32 => RTree::U32(self.varint(4)?),
            K_I32 => RTree::I32(self.varint(4)?),
            K_U64 => RTree::U64(self.varint(8)?),
            K_I64 => RTree::I64(self.varint(8)?),
            K_F32 => RTree::F32(u32::from_le_bytes(self.arr()?)),
            K_F64 => RTree::F64(u64::from_le_bytes(self.arr()?)),
            K_STRING => {
                let l = self.varint(4)?;
                let sat = self.p;
                let s = self.take(l.raw as usize)?;
                if self.mode == Mode::Strict && std::str::from_utf8(s).is_err() {
                    return Err(RefError::Utf8(sat));
                }
                RTree::String(l, s.to_vec())
            }
            K_UUID => RTree::Uuid(self.arr()?),
            K_OBJECT_ID => RTree::ObjectId(self.arr()?),
            K_SERVICE_ID => RTree::ServiceId(self.arr()?),
            K_SENDER => RTree::Sender(self.arr()?),
            K_RECEIVER => RTree::Receiver(self.arr()?),
            K_VEC1 => {
                self.saw_v1 = true;
                let l = self.varint(4)?;
                let mut v = vec![];
                for _ in 0..l.raw {
                    v.push(self.value(level + 1)?);
                }
                RTree::Vec(Epoch::V1, l.form, v)
            }
            K_VEC2 => {
                self.saw_v2 = true;
                let mut v = vec![];
                loop {
                    let mat = self.p;
                    match self.u8()? {
                        K_NONE => break,
                        K_SOME => v.push(self.value(level + 1)?),
                        _ => return Err(RefError::Invalid(mat)),
                    }
                }
                RTree::Vec(Epoch::V2, 0, v)
            }
            K_BYTES1 => {
                self.saw_v1 = true;
                let l = self.varint(4)?;
                if self.b.len() - self.p < l.raw as usize {
                    return Err(RefError::Invalid(self.p));
                }
                let s = self.take(l.raw as usize)?;
                RTree::Bytes(Epoch::V1, vec![(l.form, s.to_vec())], 0)
            }
            K_BYTES2 => {
                self.saw_v2 = true;
                let mut chunks = vec![];
                loop {
                    let l = self.varint(4)?;
                    if l.raw == 0 {
                        break RTree::Bytes(Epoch::V2, chunks, l.form);
                    }
                    if self.b.len() - self.p < l.raw as usize {
                        return Err(RefError::Invalid(self.p));
                    }
                    let s = self.take(l.raw as usize)?;
                    chunks.push((l.form, s.to_vec()));
                }
            }
            K_STRUCT1 => {
                self.saw_v1 = true;
                let l = self.varint(4)?;
                let mut v = vec![];
                for _ in 0..l.raw {
                    let id = self.varint(4)?;
                    v.push((id, self.value(level + 1)?));
                }
                RTree::Struct(Epoch::V1, l.form, v)
            }
            K_STRUCT2 => {
                self.saw_v2 = true;
                let mut v = vec![];
                loop {
                    let mat = self.p;
                    match self.u8()? {
                        K_NONE => break,
                        K_SOME => {
                            let id = self.varint(4)?;
                            v.push((id, self.value(level + 1)?));
                        }
                        _ => return Err(RefError::Invalid(mat)),
                    }
                }
                RTree::Struct(Epoch::V2, 0, v)
            }
            K_ENUM => {
                let id = self.varint(4)?;
                RTree::Enum(id, Box::new(self.value(level + 1)?))
            }
            k => {
                if let Some((kk, e)) = key_kind_of_map(k) {
                    match e {
                        Epoch::V1 => {
                            self.saw_v1 = true;
                            let l = self.varint(4)?;
                            let mut v = vec![];
                            for _ in 0..l.raw {
                                let key = self.key(kk)?;
                                v.push((key, self.value(level + 1)?));
                            }
                            RTree::Map(kk, e, l.form, v)
                        }
                        Epoch::V2 => {
                            self.saw_v2 = true;
                            let mut v = vec![];
                            loop {
                                let mat = self.p;
                                match self.u8()? {
                                    K_NONE => break,
                                    K_SOME => {
                                        let key = self.key(kk)?;
                                        v.push((key, self.value(level + 1)?));
                                    }
                                    _ => return Err(RefError::Invalid(mat)),
                                }
                            }
                            RTree::Map(kk, e, 0, v)
                        }
                    }
                } else if let Some((kk, e)) = key_kind_of_set(k) {
                    match e {
                        Epoch::V1 => {
                            self.saw_v1 = true;
                            let l = self.varint(4)?;
                            let mut v = vec![];
                            for _ in 0..l.raw {
                                v.push(self.key(kk)?);
                            }
                            RTree::Set(kk, e, l.form, v)
                        }
                        Epoch::V2 => {
                            self.saw_v2 = true;
                            let mut v = vec![];
                            loop {
                                let mat = self.p;
                                match self.u8()? {
                                    K_NONE => break,
                                    K_SOME => v.push(self.key(kk)?),
                                    _ => return Err(RefError::Invalid(mat)),
                                }
                            }
                            RTree::Set(kk, e, 0, v)
                        }
                    }
                } else {
                    return Err(RefError::Invalid(at));
                }
            }
        })
    }
}

#[derive(Clone, Debug)]
pub struct Decoded {
    pub tree: RTree,
    pub consumed: usize,
    pub max_depth: u32,
    pub saw_v1: bool,
    pub saw_v2: bool,
    pub nodes: usize,
}

/// Decodes one value starting at nesting level `level` (1 for a bare value).
pub fn decode_at(bytes: &[u8], mode: Mode, level: u32) -> Result<Decoded, RefError> {
    let mut rd = Rd {
        b: bytes,
        p: 0,
        mode,
        no_depth_limit: false,
        max_depth: 0,
        saw_v1: false,
        saw_v2: false,
        nodes: 0,
    };
    let tree = rd.value(level)?;
    Ok(Decoded {
        tree,
        consumed: rd.p,
        max_depth: rd.max_depth,
        saw_v1: rd.saw_v1,
        saw_v2: rd.saw_v2,
        nodes: rd.nodes,
    })
}

pub fn decode(bytes: &[u8], mode: Mode) -> Result<Decoded, RefError> {
    decode_at(bytes, mode, 1)
}

/// Decode requiring that all bytes are consumed.
pub fn decode_all(bytes: &[u8], mode: Mode) -> Result<Decoded, RefError> {
    let d = decode(bytes, mode)?;
    if d.consumed != bytes.len() {
        return Err(RefError::Invalid(d.consumed));
    }
    Ok(d)
}

// ---------------------------------------------------------------------------------------------
// encoder (no depth limit, emits exactly the forms recorded in the tree)

pub fn put_varint(out: &mut Vec<u8>, v: VarInt, n: u8) {
    if v.form == 0 {
        out.push(v.raw as u8);
    } else {
        out.push((255 - n as u16 + v.form as u16) as u8);
        for i in 0..v.form {
            out.push((v.raw >> (8 * i as u32)) as u8);
        }
    }
}

fn key_width(k: KeyKind) -> u8 {
    match k {
        KeyKind::U16 | KeyKind::I16 => 2,
        KeyKind::U32 | KeyKind::I32 => 4,
        KeyKind::U64 | KeyKind::I64 => 8,
        _ => 0,
    }
}

fn put_key(out: &mut Vec<u8>, kk: KeyKind, k: &RKey) {
    match k {
        RKey::U8(v) => out.push(*v),
        RKey::I8(v) => out.push(*v as u8),
        RKey::Int(v) => put_varint(out, *v, key_width(kk)),
        RKey::Str(l, s) => {
            put_varint(out, *l, 4);
            out.extend_from_slice(s);
        }
        RKey::Uuid(u) => out.extend_from_slice(u),
    }
}

pub fn encode_into(out: &mut Vec<u8>, t: &RTree) {
    // iterative enough: recursion depth equals nesting depth, callers that build
    // very deep trees use encode_chain instead
    match t {
        RTree::None => out.push(K_NONE),
        RTree::Some(x) => {
            out.push(K_SOME);
            encode_into(out, x);
        }
        RTree::Bool(b) => {
            out.push(K_BOOL);
            out.push(*b);
        }
        RTree::U8(v) => {
            out.push(K_U8);
            out.push(*v);
        }
        RTree::I8(v) => {
            out.push(K_I8);
            out.push(*v as u8);
        }
        RTree::U16(v) => {
            out.push(K_U16);
            put_varint(out, *v, 2);
        }
        RTree::I16(v) => {
            out.push(K_I16);
            put_varint(out, *v, 2);
        }
        RTree::U32(v) => {
            out.push(K_U32);
            put_varint(out, *v, 4);
        }
        RTree::I32(v) => {
            out.push(K_I32);
            put_varint(out, *v, 4);
        }
        RTree::U64(v) => {
            out.push(K_U64);
            put_varint(out, *v, 8);
        }
        RTree::I64(v) => {
            out.push(K_I64);
            put_varint(out, *v, 8);
        }
        RTree::F32(v) => {
            out.push(K_F32);
            out.extend_from_slice(&v.to_le_bytes());
        }
        RTree::F64(v) => {
            out.push(K_F64);
            out.extend_from_slice(&v.to_le_bytes());
        }
        RTree::String(l, s) => {
            out.push(K_STRING);
            put_varint(out, *l, 4);
            out.extend_from_slice(s);
        }
        RTree::Uuid(u) => {
            out.push(K_UUID);
            out.extend_from_slice(u);
        }
        RTree::ObjectId(u) => {
            out.push(K_OBJECT_ID);
            out.extend_from_slice(u);
        }
        RTree::ServiceId(u) => {
            out.push(K_SERVICE_ID);
            out.extend_from_slice(u);
        }
        RTree::Sender(u) => {
            out.push(K_SENDER);
            out.extend_from_slice(u);
        }
        RTree::Receiver(u) => {
            out.push(K_RECEIVER);
            out.extend_from_slice(u);
        }
        RTree::Vec(Epoch::V1, form, v) => {
            out.push(K_VEC1);
            put_varint(out, VarInt { raw: v.len() as u64, form: *form }, 4);
            for e in v {
                encode_into(out, e);
            }
        }
        RTree::Vec(Epoch::V2, _, v) => {
            out.push(K_VEC2);
            for e in v {
                out.push(K_SOME);
                encode_into(out, e);
            }
            out.push(K_NONE);
        }
        RTree::Bytes(Epoch::V1, chunks, _) => {
            out.push(K_BYTES1);
            let (form, data) = chunks.first().cloned().unwrap_or((0, vec![]));
            put_varint(out, VarInt { raw: data.len() as u64, form }, 4);
            out.extend_from_slice(&data);
        }
        RTree::Bytes(Epoch::V2, chunks, tform) => {
            out.push(K_BYTES2);
            for (form, data) in chunks {
                put_varint(out, VarInt { raw: data.len() as u64, form: *form }, 4);
                out.extend_from_slice(data);
            }
            put_varint(out, VarInt { raw: 0, form: *tform }, 4);
        }
        RTree::Map(kk, Epoch::V1, form, v) => {
            out.push(map_kind(*kk, Epoch::V1));
            put_varint(out, VarInt { raw: v.len() as u64, form: *form }, 4);
            for (k, e) in v {
                put_key(out, *kk, k);
                encode_into(out, e);
            }
        }
        RTree::Map(kk, Epoch::V2, _, v) => {
            out.push(map_kind(*kk, Epoch::V2));
            for (k, e) in v {
                out.push(K_SOME);
                put_key(out, *kk, k);
                encode_into(out, e);
            }
            out.push(K_NONE);
        }
        RTree::Set(kk, Epoch::V1, form, v) => {
            out.push(set_kind(*kk, Epoch::V1));
            put_varint(out, VarInt { raw: v.len() as u64, form: *form }, 4);
            for k in v {
                put_key(out, *kk, k);
            }
        }
        RTree::Set(kk, Epoch::V2, _, v) => {
            out.push(set_kind(*kk, Epoch::V2));
            for k in v {
                out.push(K_SOME);
                put_key(out, *kk, k);
            }
            out.push(K_NONE);
        }
        RTree::Struct(Epoch::V1, form, v) => {
            out.push(K_STRUCT1);
            put_varint(out, VarInt { raw: v.len() as u64, form: *form }, 4);
            for (id, e) in v {
                put_varint(out, *id, 4);
                encode_into(out, e);
            }
        }
        RTree::Struct(Epoch::V2, _, v) => {
            out.push(K_STRUCT2);
            for (id, e) in v {
                out.push(K_SOME);
                put_varint(out, *id, 4);
                encode_into(out, e);
            }
            out.push(K_NONE);
        }
        RTree::Enum(id, x) => {
            out.push(K_ENUM);
            put_varint(out, *id, 4);
            encode_into(out, x);
        }
    }
}

pub fn encode(t: &RTree) -> Vec<u8> {
    let mut out = vec![];
    encode_into(&mut out, t);
    out
}

// ---------------------------------------------------------------------------------------------
// meaning

fn sem_key(kk: KeyKind, k: &RKey) -> SemKey {
    match (kk, k) {
        (_, RKey::U8(v)) => SemKey::U8(*v),
        (_, RKey::I8(v)) => SemKey::I8(*v),
        (KeyKind::U16, RKey::Int(v)) => SemKey::U16(v.raw as u16),
        (KeyKind::I16, RKey::Int(v)) => SemKey::I16(zigzag_dec(v.raw & 0xFFFF) as i16),
        (KeyKind::U32, RKey::Int(v)) => SemKey::U32(v.raw as u32),
        (KeyKind::I32, RKey::Int(v)) => SemKey::I32(zigzag_dec(v.raw & 0xFFFF_FFFF) as i32),
        (KeyKind::U64, RKey::Int(v)) => SemKey::U64(v.raw),
        (KeyKind::I64, RKey::Int(v)) => SemKey::I64(zigzag_dec(v.raw)),
        (_, RKey::Str(_, s)) => SemKey::Str(s.clone()),
        (_, RKey::Uuid(u)) => SemKey::Uuid(*u),
        (_, RKey::Int(v)) => SemKey::U64(v.raw),
    }
}

pub fn sem(t: &RTree) -> Sem {
    match t {
        RTree::None => Sem::None,
        RTree::Some(x) => Sem::Some(Box::new(sem(x))),
        RTree::Bool(b) => Sem::Bool(*b != 0),
        RTree::U8(v) => Sem::U8(*v),
        RTree::I8(v) => Sem::I8(*v),
        RTree::U16(v) => Sem::U16(v.raw as u16),
        RTree::I16(v) => Sem::I16(zigzag_dec(v.raw & 0xFFFF) as i16),
        RTree::U32(v) => Sem::U32(v.raw as u32),
        RTree::I32(v) => Sem::I32(zigzag_dec(v.raw & 0xFFFF_FFFF) as i32),
        RTree::U64(v) => Sem::U64(v.raw),
        RTree::I64(v) => Sem::I64(zigzag_dec(v.raw)),
        RTree::F32(v) => Sem::F32(*v),
        RTree::F64(v) => Sem::F64(*v),
        RTree::String(_, s) => Sem::Str(s.clone()),
        RTree::Uuid(u) => Sem::Uuid(*u),
        RTree::ObjectId(u) => Sem::ObjectId(*u),
        RTree::ServiceId(u) => Sem::ServiceId(*u),
        RTree::Sender(u) => Sem::Sender(*u),
        RTree::Receiver(u) => Sem::Receiver(*u),
        RTree::Vec(_, _, v) => Sem::Vec(v.iter().map(sem).collect()),
        RTree::Bytes(_, chunks, _) => {
            let mut all = vec![];
            for (_, c) in chunks {
                all.extend_from_slice(c);
            }
            Sem::Bytes(all)
        }
        RTree::Map(kk, _, _, v) => {
            let mut m = BTreeMap::new();
            for (k, e) in v {
                // last duplicate wins: what decoding into a hash map means
                m.insert(sem_key(*kk, k), sem(e));
            }
            Sem::Map(*kk, m)
        }
        RTree::Set(kk, _, _, v) => Sem::Set(*kk, v.iter().map(|k| sem_key(*kk, k)).collect()),
        RTree::Struct(_, _, v) => {
            let mut m = BTreeMap::new();
            for (id, e) in v {
                m.insert(id.raw as u32, sem(e));
            }
            Sem::Struct(m)
        }
        RTree::Enum(id, x) => Sem::Enum(id.raw as u32, Box::new(sem(x))),
    }
}

/// Nesting depth of a tree (a bare leaf is 1).
pub fn depth(t: &RTree) -> u32 {
    match t {
        RTree::Some(x) | RTree::Enum(_, x) => 1 + depth(x),
        RTree::Vec(_, _, v) => 1 + v.iter().map(depth).max().unwrap_or(0),
        RTree::Map(_, _, _, v) => 1 + v.iter().map(|(_, e)| depth(e)).max().unwrap_or(0),
        RTree::Struct(_, _, v) => 1 + v.iter().map(|(_, e)| depth(e)).max().unwrap_or(0),
        _ => 1,
    }
}

/// True if the tree contains any epoch-2 container encoding.
pub fn has_v2(t: &RTree) -> bool {
    match t {
        RTree::Some(x) | RTree::Enum(_, x) => has_v2(x),
        RTree::Vec(e, _, v) => *e == Epoch::V2 || v.iter().any(has_v2),
        RTree::Bytes(e, _, _) => *e == Epoch::V2,
        RTree::Map(_, e, _, v) => *e == Epoch::V2 || v.iter().any(|(_, x)| has_v2(x)),
        RTree::Set(_, e, _, _) => *e == Epoch::V2,
        RTree::Struct(e, _, v) => *e == Epoch::V2 || v.iter().any(|(_, x)| has_v2(x)),
        _ => false,
    }
}

/// Largest value-kind byte that a reference walk of the tree meets.
pub fn kinds_used(t: &RTree, out: &mut BTreeSet<u8>) {
    match t {
        RTree::None => {
            out.insert(K_NONE);
        }
        RTree::Some(x) => {
            out.insert(K_SOME);
            kinds_used(x, out);
        }
        RTree::Bool(_) => {
            out.insert(K_BOOL);
        }
        RTree::U8(_) => {
            out.insert(K_U8);
        }
        RTree::I8(_) => {
            out.insert(K_I8);
        }
        RTree::U16(_) => {
            out.insert(K_U16);
        }
        RTree::I16(_) => {
            out.insert(K_I16);
        }
        RTree::U32(_) => {
            out.insert(K_U32);
        }
        RTree::I32(_) => {
            out.insert(K_I32);
        }
        RTree::U64(_) => {
            out.insert(K_U64);
        }
        RTree::I64(_) => {
            out.insert(K_I64);
        }
        RTree::F32(_) => {
            out.insert(K_F32);
        }
        RTree::F64(_) => {
            out.insert(K_F64);
        }
        RTree::String(..) => {
            out.insert(K_STRING);
        }
        RTree::Uuid(_) => {
            out.insert(K_UUID);
        }
        RTree::ObjectId(_) => {
            out.insert(K_OBJECT_ID);
        }
        RTree::ServiceId(_) => {
            out.insert(K_SERVICE_ID);
        }
        RTree::Sender(_) => {
            out.insert(K_SENDER);
        }
        RTree::Receiver(_) => {
            out.insert(K_RECEIVER);
        }
        RTree::Vec(e, _, v) => {
            out.insert(if *e == Epoch::V1 { K_VEC1 } else { K_VEC2 });
            for x in v {
                kinds_used(x, out);
            }
        }
        RTree::Bytes(e, _, _) => {
            out.insert(if *e == Epoch::V1 { K_BYTES1 } else { K_BYTES2 });
        }
        RTree::Map(kk, e, _, v) => {
            out.insert(map_kind(*kk, *e));
            for (_, x) in v {
                kinds_used(x, out);
            }
        }
        RTree::Set(kk, e, _, _) => {
            out.insert(set_kind(*kk, *e));
        }
        RTree::Struct(e, _, v) => {
            out.insert(if *e == Epoch::V1 { K_STRUCT1 } else { K_STRUCT2 });
            for (_, x) in v {
                kinds_used(x, out);
            }
        }
        RTree::Enum(_, x) => {
            out.insert(K_ENUM);
            kinds_used(x, out);
        }
    }
}

/// Rewrites every container of the tree into the given epoch (canonical forms).
pub fn with_epoch(t: &RTree, pick: &mut dyn FnMut() -> Epoch) -> RTree {
    match t {
        RTree::Some(x) => RTree::Some(Box::new(with_epoch(x, pick))),
        RTree::Enum(id, x) => RTree::Enum(*id, Box::new(with_epoch(x, pick))),
        RTree::Vec(_, _, v) => {
            let e = pick();
            let vv: Vec<RTree> = v.iter().map(|x| with_epoch(x, pick)).collect();
            RTree::Vec(e, VarInt::canonical(vv.len() as u64, 4).form, vv)
        }
        RTree::Bytes(_, chunks, _) => {
            let e = pick();
            let mut all = vec![];
            for (_, c) in chunks {
                all.extend_from_slice(c);
            }
            match e {
                Epoch::V1 => {
                    let f = VarInt::canonical(all.len() as u64, 4).form;
                    RTree::Bytes(Epoch::V1, vec![(f, all)], 0)
                }
                Epoch::V2 => {
                    if all.is_empty() {
                        RTree::Bytes(Epoch::V2, vec![], 0)
                    } else {
                        let f = VarInt::canonical(all.len() as u64, 4).form;
                        RTree::Bytes(Epoch::V2, vec![(f, all)], 0)
                    }
                }
            }
        }
        RTree::Map(kk, _, _, v) => {
            let e = pick();
            let vv: Vec<(RKey, RTree)> =
                v.iter().map(|(k, x)| (k.clone(), with_epoch(x, pick))).collect();
            RTree::Map(*kk, e, VarInt::canonical(vv.len() as u64, 4).form, vv)
        }
        RTree::Set(kk, _, _, v) => {
            let e = pick();
            RTree::Set(*kk, e, VarInt::canonical(v.len() as u64, 4).form, v.clone())
        }
        RTree::Struct(_, _, v) => {
            let e = pick();
            let vv: Vec<(VarInt, RTree)> =
                v.iter().map(|(k, x)| (*k, with_epoch(x, pick))).collect();
            RTree::Struct(e, VarInt::canonical(vv.len() as u64, 4).form, vv)
        }
        other => other.clone(),
    }
}
