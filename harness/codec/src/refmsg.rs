//! Reference description of the message frame format for all 63 message kinds, written from
//! the wire layout (table-driven), plus a builder from the generic form to the crate's
//! `Message` structs (used only to *construct* test messages, never to judge them).

use crate::glue::sv_from_bytes;
use crate::refcodec::{put_varint, VarInt};
use aldrin_core::message::*;
use aldrin_core::{
    BusEvent, BusListenerCookie, BusListenerFilter, BusListenerScope, ChannelCookie, ChannelEnd,
    ChannelEndWithCapacity, ObjectCookie, ObjectId, ObjectUuid, SerializedValue, ServiceCookie,
    ServiceId, ServiceUuid, TypeId,
};
use uuid::Uuid;

/// Field layout element.
#[derive(Debug)]
pub enum F {
    /// varint u32
    V,
    /// 16 raw bytes
    U,
    /// one discriminant byte selecting one of the alternatives, followed by its fields
    Alt(&'static [&'static [F]]),
}

pub struct Layout {
    pub kind: u8,
    pub name: &'static str,
    pub has_value: bool,
    pub fields: &'static [F],
    /// For value-carrying kinds: the alternatives (path of discriminants) for which the value is
    /// ignored by the receiver. `discard(alts)` says whether the value is discarded.
    pub discard: fn(&[u8]) -> bool,
}

fn never(_: &[u8]) -> bool {
    false
}

const E0: &[F] = &[];
const D2: F = F::Alt(&[E0, E0]);
const D3: F = F::Alt(&[E0, E0, E0]);
const OPT_V: F = F::Alt(&[E0, &[F::V]]);
const OPT_U: F = F::Alt(&[E0, &[F::U]]);
const END: F = D2;
const END_CAP: F = F::Alt(&[E0, &[F::V]]);
const FILTER: F = F::Alt(&[E0, &[F::U], E0, &[F::U], &[F::U], &[F::U, F::U]]);
const BUS_EVENT: F = F::Alt(&[&[F::U, F::U], &[F::U, F::U], &[F::U, F::U, F::U, F::U], &[F::U, F::U, F::U, F::U]]);

macro_rules! lay {
    ($k:expr, $n:expr, novalue, $f:expr) => {
        Layout { kind: $k, name: $n, has_value: false, fields: $f, discard: never }
    };
    ($k:expr, $n:expr, value, $f:expr) => {
        Layout { kind: $k, name: $n, has_value: true, fields: $f, discard: never }
    };
    ($k:expr, $n:expr, value, $f:expr, $d:expr) => {
        Layout { kind: $k, name: $n, has_value: true, fields: $f, discard: $d }
    };
}

pub static LAYOUTS: [Layout; 63] = [
    lay!(0, "Connect", value, &[F::V]),
    lay!(1, "ConnectReply", value, &[F::Alt(&[E0, &[F::V], E0])], |a| a == [1]),
    lay!(2, "Shutdown", novalue, &[]),
    lay!(3, "CreateObject", novalue, &[F::V, F::U]),
    lay!(4, "CreateObjectReply", novalue, &[F::V, F::Alt(&[&[F::U], E0])]),
    lay!(5, "DestroyObject", novalue, &[F::V, F::U]),
    lay!(6, "DestroyObjectReply", novalue, &[F::V, D3]),
    lay!(7, "CreateService", novalue, &[F::V, F::U, F::U, F::V]),
    lay!(8, "CreateServiceReply", novalue, &[F::V, F::Alt(&[&[F::U], E0, E0, E0])]),
    lay!(9, "DestroyService", novalue, &[F::V, F::U]),
    lay!(10, "DestroyServiceReply", novalue, &[F::V, D3]),
    lay!(11, "CallFunction", value, &[F::V, F::U, F::V]),
    lay!(12, "CallFunctionReply", value, &[F::V, F::Alt(&[E0, E0, E0, E0, E0, E0])], |a| a[0] >= 2),
    lay!(13, "SubscribeEvent", novalue, &[OPT_V, F::U, F::V]),
    lay!(14, "SubscribeEventReply", novalue, &[F::V, D2]),
    lay!(15, "UnsubscribeEvent", novalue, &[F::U, F::V]),
    lay!(16, "EmitEvent", value, &[F::U, F::V]),
    lay!(17, "QueryServiceVersion", novalue, &[F::V, F::U]),
    lay!(18, "QueryServiceVersionReply", novalue, &[F::V, F::Alt(&[&[F::V], E0])]),
    lay!(19, "CreateChannel", novalue, &[F::V, END_CAP]),
    lay!(20, "CreateChannelReply", novalue, &[F::V, F::U]),
    lay!(21, "CloseChannelEnd", novalue, &[F::V, F::U, END]),
    lay!(22, "CloseChannelEndReply", novalue, &[F::V, D3]),
    lay!(23, "ChannelEndClosed", novalue, &[F::U, END]),
    lay!(24, "ClaimChannelEnd", novalue, &[F::V, F::U, END_CAP]),
    lay!(25, "ClaimChannelEndReply", novalue, &[F::V, F::Alt(&[&[F::V], E0, E0, E0])]),
    lay!(26, "ChannelEndClaimed", novalue, &[F::U, END_CAP]),
    lay!(27, "SendItem", value, &[F::U]),
    lay!(28, "ItemReceived", value, &[F::U]),
    lay!(29, "AddChannelCapacity", novalue, &[F::U, F::V]),
    lay!(30, "Sync", novalue, &[F::V]),
    lay!(31, "SyncReply", novalue, &[F::V]),
    lay!(32, "ServiceDestroyed", novalue, &[F::U]),
    lay!(33, "CreateBusListener", novalue, &[F::V]),
    lay!(34, "CreateBusListenerReply", novalue, &[F::V, F::U]),
    lay!(35, "DestroyBusListener", novalue, &[F::V, F::U]),
    lay!(36, "DestroyBusListenerReply", novalue, &[F::V, D2]),
    lay!(37, "AddBusListenerFilter", novalue, &[F::U, FILTER]),
    lay!(38, "RemoveBusListenerFilter", novalue, &[F::U, FILTER]),
    lay!(39, "ClearBusListenerFilters", novalue, &[F::U]),
    lay!(40, "StartBusListener", novalue, &[F::V, F::U, D3]),
    lay!(41, "StartBusListenerReply", novalue, &[F::V, D3]),
    lay!(42, "StopBusListener", novalue, &[F::V, F::U]),
    lay!(43, "StopBusListenerReply", novalue, &[F::V, D3]),
    lay!(44, "EmitBusEvent", novalue, &[OPT_U, BUS_EVENT]),
    lay!(45, "BusListenerCurrentFinished", novalue, &[F::U]),
    lay!(46, "Connect2", value, &[F::V, F::V]),
    lay!(47, "ConnectReply2", value, &[F::Alt(&[&[F::V], E0, E0])]),
    lay!(48, "AbortFunctionCall", novalue, &[F::V]),
    lay!(49, "RegisterIntrospection", value, &[]),
    lay!(50, "QueryIntrospection", novalue, &[F::V, F::U]),
    lay!(51, "QueryIntrospectionReply", value, &[F::V, D2], |a| a[0] == 1),
    lay!(52, "CreateService2", value, &[F::V, F::U, F::U]),
    lay!(53, "QueryServiceInfo", novalue, &[F::V, F::U]),
    lay!(54, "QueryServiceInfoReply", value, &[F::V, D2], |a| a[0] == 1),
    lay!(55, "SubscribeService", novalue, &[F::V, F::U]),
    lay!(56, "SubscribeServiceReply", novalue, &[F::V, D2]),
    lay!(57, "UnsubscribeService", novalue, &[F::U]),
    lay!(58, "SubscribeAllEvents", novalue, &[OPT_V, F::U]),
    lay!(59, "SubscribeAllEventsReply", novalue, &[F::V, D3]),
    lay!(60, "UnsubscribeAllEvents", novalue, &[OPT_V, F::U]),
    lay!(61, "UnsubscribeAllEventsReply", novalue, &[F::V, D3]),
    lay!(62, "CallFunction2", value, &[F::V, F::U, F::V, OPT_V]),
];

/// A decoded field.
#[derive(Clone, Debug, PartialEq, Eq)]
pub enum RF {
    V(VarInt),
    U([u8; 16]),
    Alt(u8, Vec<RF>),
}

#[derive(Clone, Debug, PartialEq, Eq)]
pub struct RMsg {
    pub kind: u8,
    pub value: Option<Vec<u8>>,
    pub fields: Vec<RF>,
}

#[derive(Clone, Copy, Debug, PartialEq, Eq)]
pub enum FrameError {
    TooShort,
    LengthMismatch,
    UnknownKind,
    ValueLength,
    Field(usize),
    Trailing(usize),
}

struct Rd<'a> {
    b: &'a [u8],
    p: usize,
}

impl Rd<'_> {
    fn u8(&mut self) -> Result<u8, FrameError> {
        let v = *self.b.get(self.p).ok_or(FrameError::Field(self.p))?;
        self.p += 1;
        Ok(v)
    }

    fn fields(&mut self, fs: &[F]) -> Result<Vec<RF>, FrameError> {
        let mut out = vec![];
        for f in fs {
            out.push(match f {
                F::V => {
                    let first = self.u8()?;
                    if first > 251 {
                        let k = first - 251;
                        let mut raw = 0u64;
                        for i in 0..k {
                            raw |= (self.u8()? as u64) << (8 * i as u32);
                        }
                        RF::V(VarInt { raw, form: k })
                    } else {
                        RF::V(VarInt { raw: first as u64, form: 0 })
                    }
                }
                F::U => {
                    let mut a = [0u8; 16];
                    for x in a.iter_mut() {
                        *x = self.u8()?;
                    }
                    RF::U(a)
                }
                F::Alt(alts) => {
                    let at = self.p;
                    let d = self.u8()?;
                    let Some(sub) = alts.get(d as usize) else {
                        return Err(FrameError::Field(at));
                    };
                    RF::Alt(d, self.fields(sub)?)
                }
            });
        }
        Ok(out)
    }
}

/// Strict frame decoder: length prefix equals the frame length, kind known, value-carrying
/// kinds have a 4-byte value length >= 1 right after the kind byte, every field well-formed,
/// nothing left over.
pub fn decode_frame(b: &[u8]) -> Result<RMsg, FrameError> {
    if b.len() < 5 {
        return Err(FrameError::TooShort);
    }
    let len = u32::from_le_bytes([b[0], b[1], b[2], b[3]]) as usize;
    let kind = b[4];
    let Some(lay) = LAYOUTS.get(kind as usize) else {
        return Err(FrameError::UnknownKind);
    };
    if len != b.len() {
        return Err(FrameError::LengthMismatch);
    }
    let mut rd = Rd { b, p: 5 };
    let mut value = None;
    if lay.has_value {
        if b.len() < 10 {
            return Err(FrameError::TooShort);
        }
        let vl = u32::from_le_bytes([b[5], b[6], b[7], b[8]]) as usize;
        if vl < 1 || vl > b.len() - 9 {
            return Err(FrameError::ValueLength);
        }
        value = Some(b[9..9 + vl].to_vec());
        rd.p = 9 + vl;
    }
    let fields = rd.fields(lay.fields)?;
    if rd.p != b.len() {
        return Err(FrameError::Trailing(rd.p));
    }
    Ok(RMsg { kind, value, fields })
}

fn put_fields(out: &mut Vec<u8>, fs: &[RF]) {
    for f in fs {
        match f {
            RF::V(v) => put_varint(out, *v, 4),
            RF::U(u) => out.extend_from_slice(u),
            RF::Alt(d, sub) => {
                out.push(*d);
                put_fields(out, sub);
            }
        }
    }
}

pub fn encode_frame(m: &RMsg) -> Vec<u8> {
    let mut out = vec![0, 0, 0, 0, m.kind];
    if let Some(v) = &m.value {
        out.extend_from_slice(&(v.len() as u32).to_le_bytes());
        out.extend_from_slice(v);
    }
    put_fields(&mut out, &m.fields);
    let l = out.len() as u32;
    out[..4].copy_from_slice(&l.to_le_bytes());
    out
}

fn canon_fields(fs: &[RF]) -> Vec<RF> {
    fs.iter()
        .map(|f| match f {
            RF::V(v) => RF::V(VarInt::canonical(v.raw, 4)),
            RF::U(u) => RF::U(*u),
            RF::Alt(d, sub) => RF::Alt(*d, canon_fields(sub)),
        })
        .collect()
}

pub fn alt_path(fs: &[RF]) -> Vec<u8> {
    let mut p = vec![];
    for f in fs {
        if let RF::Alt(d, sub) = f {
            p.push(*d);
            p.extend(alt_path(sub));
        }
    }
    p
}

/// Canonical form: shortest varints; a value the receiver ignores is replaced by the unit value.
pub fn canonical(m: &RMsg) -> RMsg {
    let lay = &LAYOUTS[m.kind as usize];
    let mut value = m.value.clone();
    if lay.has_value && (lay.discard)(&alt_path(&m.fields)) {
        value = Some(vec![0]);
    }
    RMsg { kind: m.kind, value, fields: canon_fields(&m.fields) }
}

// ---------------------------------------------------------------------------------------------
// generic form -> crate Message (construction only)

struct It<'a> {
    f: &'a [RF],
    i: usize,
}

impl<'a> It<'a> {
    fn v(&mut self) -> u32 {
        let r = match &self.f[self.i] {
            RF::V(v) => v.raw as u32,
            _ => panic!("harness: layout mismatch (V)"),
        };
        self.i += 1;
        r
    }

    fn u(&mut self) -> Uuid {
        let r = match &self.f[self.i] {
            RF::U(u) => Uuid::from_bytes(*u),
            _ => panic!("harness: layout mismatch (U)"),
        };
        self.i += 1;
        r
    }

    fn alt(&mut self) -> (u8, It<'a>) {
        let r = match &self.f[self.i] {
            RF::Alt(d, sub) => (*d, It { f: sub, i: 0 }),
            _ => panic!("harness: layout mismatch (Alt)"),
        };
        self.i += 1;
        r
    }

    fn opt_v(&mut self) -> Option<u32> {
        let (d, mut s) = self.alt();
        if d == 1 {
            Some(s.v())
        } else {
            None
        }
    }

    fn end(&mut self) -> ChannelEnd {
        if self.alt().0 == 0 {
            ChannelEnd::Sender
        } else {
            ChannelEnd::Receiver
        }
    }

    fn end_cap(&mut self) -> ChannelEndWithCapacity {
        let (d, mut s) = self.alt();
        if d == 0 {
            ChannelEndWithCapacity::Sender
        } else {
            ChannelEndWithCapacity::Receiver(s.v())
        }
    }

    fn filter(&mut self) -> BusListenerFilter {
        let (d, mut s) = self.alt();
        match d {
            0 => BusListenerFilter::any_object(),
            1 => BusListenerFilter::object(ObjectUuid(s.u())),
            2 => BusListenerFilter::any_object_any_service(),
            3 => BusListenerFilter::specific_object_any_service(ObjectUuid(s.u())),
            4 => BusListenerFilter::any_object_specific_service(ServiceUuid(s.u())),
            _ => {
                let o = ObjectUuid(s.u());
                let sv = ServiceUuid(s.u());
                BusListenerFilter::specific_object_and_service(o, sv)
            }
        }
    }
}

/// Builds the crate's message from the generic form. `value` must be present for
/// value-carrying kinds (ignored where the alternative carries none).
pub fn build(m: &RMsg) -> Message {
    let mut it = It { f: &m.fields, i: 0 };
    let val = || -> SerializedValue { sv_from_bytes(m.value.as_ref().expect("value")) };
    match m.kind {
        0 => Message::Connect(Connect { version: it.v(), value: val() }),
        1 => {
            let (d, mut s) = it.alt();
            Message::ConnectReply(match d {
                0 => ConnectReply::Ok(val()),
                1 => ConnectReply::IncompatibleVersion(s.v()),
                _ => ConnectReply::Rejected(val()),
            })
        }
        2 => Message::Shutdown(Shutdown),
        3 => Message::CreateObject(CreateObject { serial: it.v(), uuid: ObjectUuid(it.u()) }),
        4 => {
            let serial = it.v();
            let (d, mut s) = it.alt();
            Message::CreateObjectReply(CreateObjectReply {
                serial,
                result: if d == 0 { CreateObjectResult::Ok(ObjectCookie(s.u())) } else { CreateObjectResult::DuplicateObject },
            })
        }
        5 => Message::DestroyObject(DestroyObject { serial: it.v(), cookie: ObjectCookie(it.u()) }),
        6 => {
            let serial = it.v();
            let result = match it.alt().0 {
                0 => DestroyObjectResult::Ok,
                1 => DestroyObjectResult::InvalidObject,
                _ => DestroyObjectResult::ForeignObject,
            };
            Message::DestroyObjectReply(DestroyObjectReply { serial, result })
        }
        7 => Message::CreateService(CreateService {
            serial: it.v(),
            object_cookie: ObjectCookie(it.u()),
            uuid: ServiceUuid(it.u()),
            version: it.v(),
        }),
        8 => {
            let serial = it.v();
            let (d, mut s) = it.alt();
            let result = match d {
                0 => CreateServiceResult::Ok(ServiceCookie(s.u())),
                1 => CreateServiceResult::DuplicateService,
                2 => CreateServiceResult::InvalidObject,
                _ => CreateServiceResult::ForeignObject,
            };
            Message::CreateServiceReply(CreateServiceReply { serial, result })
        }
        9 => Message::DestroyService(DestroyService { serial: it.v(), cookie: ServiceCookie(it.u()) }),
        10 => {
            let serial = it.v();
            let result = match it.alt().0 {
                0 => DestroyServiceResult::Ok,
                1 => DestroyServiceResult::InvalidService,
                _ => DestroyServiceResult::ForeignObject,
            };
            Message::DestroyServiceReply(DestroyServiceReply { serial, result })
        }
        11 => Message::CallFunction(CallFunction {
            serial: it.v(),
            service_cookie: ServiceCookie(it.u()),
            function: it.v(),
            value: val(),
        }),
        12 => {
            let serial = it.v();
            let result = match it.alt().0 {
                0 => CallFunctionResult::Ok(val()),
                1 => CallFunctionResult::Err(val()),
                2 => CallFunctionResult::Aborted,
                3 => CallFunctionResult::InvalidService,
                4 => CallFunctionResult::InvalidFunction,
                _ => CallFunctionResult::InvalidArgs,
            };
            Message::CallFunctionReply(CallFunctionReply { serial, result })
        }
        13 => Message::SubscribeEvent(SubscribeEvent {
            serial: it.opt_v(),
            service_cookie: ServiceCookie(it.u()),
            event: it.v(),
        }),
        14 => {
            let serial = it.v();
            let result = if it.alt().0 == 0 { SubscribeEventResult::Ok } else { SubscribeEventResult::InvalidService };
            Message::SubscribeEventReply(SubscribeEventReply { serial, result })
        }
        15 => Message::UnsubscribeEvent(UnsubscribeEvent { service_cookie: ServiceCookie(it.u()), event: it.v() }),
        16 => Message::EmitEvent(EmitEvent { service_cookie: ServiceCookie(it.u()), event: it.v(), value: val() }),
        17 => Message::QueryServiceVersion(QueryServiceVersion { serial: it.v(), cookie: ServiceCookie(it.u()) }),
        18 => {
            let serial = it.v();
            let (d, mut s) = it.alt();
            let result = if d == 0 { QueryServiceVersionResult::Ok(s.v()) } else { QueryServiceVersionResult::InvalidService };
            Message::QueryServiceVersionReply(QueryServiceVersionReply { serial, result })
        }
        19 => Message::CreateChannel(CreateChannel { serial: it.v(), end: it.end_cap() }),
        20 => Message::CreateChannelReply(CreateChannelReply { serial: it.v(), cookie: ChannelCookie(it.u()) }),
        21 => Message::CloseChannelEnd(CloseChannelEnd { serial: it.v(), cookie: ChannelCookie(it.u()), end: it.end() }),
        22 => {
            let serial = it.v();
            let result = match it.alt().0 {
                0 => CloseChannelEndResult::Ok,
                1 => CloseChannelEndResult::InvalidChannel,
                _ => CloseChannelEndResult::ForeignChannel,
            };
            Message::CloseChannelEndReply(CloseChannelEndReply { serial, result })
        }
        23 => Message::ChannelEndClosed(ChannelEndClosed { cookie: ChannelCookie(it.u()), end: it.end() }),
        24 => Message::ClaimChannelEnd(ClaimChannelEnd { serial: it.v(), cookie: ChannelCookie(it.u()), end: it.end_cap() }),
        25 => {
            let serial = it.v();
            let (d, mut s) = it.alt();
            let result = match d {
                0 => ClaimChannelEndResult::SenderClaimed(s.v()),
                1 => ClaimChannelEndResult::ReceiverClaimed,
                2 => ClaimChannelEndResult::InvalidChannel,
                _ => ClaimChannelEndResult::AlreadyClaimed,
            };
            Message::ClaimChannelEndReply(ClaimChannelEndReply { serial, result })
        }
        26 => Message::ChannelEndClaimed(ChannelEndClaimed { cookie: ChannelCookie(it.u()), end: it.end_cap() }),
        27 => Message::SendItem(SendItem { cookie: ChannelCookie(it.u()), value: val() }),
        28 => Message::ItemReceived(ItemReceived { cookie: ChannelCookie(it.u()), value: val() }),
        29 => Message::AddChannelCapacity(AddChannelCapacity { cookie: ChannelCookie(it.u()), capacity: it.v() }),
        30 => Message::Sync(Sync { serial: it.v() }),
        31 => Message::SyncReply(SyncReply { serial: it.v() }),
        32 => Message::ServiceDestroyed(ServiceDestroyed { service_cookie: ServiceCookie(it.u()) }),
        33 => Message::CreateBusListener(CreateBusListener { serial: it.v() }),
        34 => Message::CreateBusListenerReply(CreateBusListenerReply { serial: it.v(), cookie: BusListenerCookie(it.u()) }),
        35 => Message::DestroyBusListener(DestroyBusListener { serial: it.v(), cookie: BusListenerCookie(it.u()) }),
        36 => {
            let serial = it.v();
            let result = if it.alt().0 == 0 { DestroyBusListenerResult::Ok } else { DestroyBusListenerResult::InvalidBusListener };
            Message::DestroyBusListenerReply(DestroyBusListenerReply { serial, result })
        }
        37 => Message::AddBusListenerFilter(AddBusListenerFilter { cookie: BusListenerCookie(it.u()), filter: it.filter() }),
        38 => Message::RemoveBusListenerFilter(RemoveBusListenerFilter { cookie: BusListenerCookie(it.u()), filter: it.filter() }),
        39 => Message::ClearBusListenerFilters(ClearBusListenerFilters { cookie: BusListenerCookie(it.u()) }),
        40 => {
            let serial = it.v();
            let cookie = BusListenerCookie(it.u());
            let scope = match it.alt().0 {
                0 => BusListenerScope::Current,
                1 => BusListenerScope::New,
                _ => BusListenerScope::All,
            };
            Message::StartBusListener(StartBusListener { serial, cookie, scope })
        }
        41 => {
            let serial = it.v();
            let result = match it.alt().0 {
                0 => StartBusListenerResult::Ok,
                1 => StartBusListenerResult::InvalidBusListener,
                _ => StartBusListenerResult::AlreadyStarted,
            };
            Message::StartBusListenerReply(StartBusListenerReply { serial, result })
        }
        42 => Message::StopBusListener(StopBusListener { serial: it.v(), cookie: BusListenerCookie(it.u()) }),
        43 => {
            let serial = it.v();
            let result = match it.alt().0 {
                0 => StopBusListenerResult::Ok,
                1 => StopBusListenerResult::InvalidBusListener,
                _ => StopBusListenerResult::NotStarted,
            };
            Message::StopBusListenerReply(StopBusListenerReply { serial, result })
        }
        44 => {
            let (d, mut s) = it.alt();
            let cookie = if d == 1 { Some(BusListenerCookie(s.u())) } else { None };
            let (e, mut s) = it.alt();
            let event = match e {
                0 | 1 => {
                    let o = ObjectId::new(ObjectUuid(s.u()), ObjectCookie(s.u()));
                    if e == 0 { BusEvent::ObjectCreated(o) } else { BusEvent::ObjectDestroyed(o) }
                }
                _ => {
                    let o = ObjectId::new(ObjectUuid(s.u()), ObjectCookie(s.u()));
                    let sid = ServiceId::new(o, ServiceUuid(s.u()), ServiceCookie(s.u()));
                    if e == 2 { BusEvent::ServiceCreated(sid) } else { BusEvent::ServiceDestroyed(sid) }
                }
            };
            Message::EmitBusEvent(EmitBusEvent { cookie, event })
        }
        45 => Message::BusListenerCurrentFinished(BusListenerCurrentFinished { cookie: BusListenerCookie(it.u()) }),
        46 => Message::Connect2(Connect2 { major_version: it.v(), minor_version: it.v(), value: val() }),
        47 => {
            let (d, mut s) = it.alt();
            let result = match d {
                0 => ConnectResult::Ok(s.v()),
                1 => ConnectResult::Rejected,
                _ => ConnectResult::IncompatibleVersion,
            };
            Message::ConnectReply2(ConnectReply2 { result, value: val() })
        }
        48 => Message::AbortFunctionCall(AbortFunctionCall { serial: it.v() }),
        49 => Message::RegisterIntrospection(RegisterIntrospection { value: val() }),
        50 => Message::QueryIntrospection(QueryIntrospection { serial: it.v(), type_id: TypeId(it.u()) }),
        51 => {
            let serial = it.v();
            let result = if it.alt().0 == 0 { QueryIntrospectionResult::Ok(val()) } else { QueryIntrospectionResult::Unavailable };
            Message::QueryIntrospectionReply(QueryIntrospectionReply { serial, result })
        }
        52 => Message::CreateService2(CreateService2 {
            serial: it.v(),
            object_cookie: ObjectCookie(it.u()),
            uuid: ServiceUuid(it.u()),
            value: val(),
        }),
        53 => Message::QueryServiceInfo(QueryServiceInfo { serial: it.v(), cookie: ServiceCookie(it.u()) }),
        54 => {
            let serial = it.v();
            let result = if it.alt().0 == 0 { QueryServiceInfoResult::Ok(val()) } else { QueryServiceInfoResult::InvalidService };
            Message::QueryServiceInfoReply(QueryServiceInfoReply { serial, result })
        }
        55 => Message::SubscribeService(SubscribeService { serial: it.v(), service_cookie: ServiceCookie(it.u()) }),
        56 => {
            let serial = it.v();
            let result = if it.alt().0 == 0 { SubscribeServiceResult::Ok } else { SubscribeServiceResult::InvalidService };
            Message::SubscribeServiceReply(SubscribeServiceReply { serial, result })
        }
        57 => Message::UnsubscribeService(UnsubscribeService { service_cookie: ServiceCookie(it.u()) }),
        58 => Message::SubscribeAllEvents(SubscribeAllEvents { serial: it.opt_v(), service_cookie: ServiceCookie(it.u()) }),
        59 => {
            let serial = it.v();
            let result = match it.alt().0 {
                0 => SubscribeAllEventsResult::Ok,
                1 => SubscribeAllEventsResult::InvalidService,
                _ => SubscribeAllEventsResult::NotSupported,
            };
            Message::SubscribeAllEventsReply(SubscribeAllEventsReply { serial, result })
        }
        60 => Message::UnsubscribeAllEvents(UnsubscribeAllEvents { serial: it.opt_v(), service_cookie: ServiceCookie(it.u()) }),
        61 => {
            let serial = it.v();
            let result = match it.alt().0 {
                0 => UnsubscribeAllEventsResult::Ok,
                1 => UnsubscribeAllEventsResult::InvalidService,
                _ => UnsubscribeAllEventsResult::NotSupported,
            };
            Message::UnsubscribeAllEventsReply(UnsubscribeAllEventsReply { serial, result })
        }
        62 => Message::CallFunction2(CallFunction2 {
            serial: it.v(),
            service_cookie: ServiceCookie(it.u()),
            function: it.v(),
            version: it.opt_v(),
            value: val(),
        }),
        k => panic!("harness: unknown kind {}", k),
    }
}
