//! Generators: entropy tape -> reference trees, byte mutations.

use crate::refcodec::*;
use vcommon::{SplitMix, Tape};

#[derive(Clone, Copy, Debug, PartialEq, Eq)]
pub enum EpochPolicy {
    V1,
    V2,
    Mixed,
}

#[derive(Clone, Debug)]
pub struct GenCfg {
    pub max_depth: u32,
    pub max_nodes: usize,
    /// allow non-canonical varints, odd bool bytes, chunked byte strings
    pub noncanon: bool,
    pub bad_utf8: bool,
    pub dups: bool,
    pub epoch: EpochPolicy,
    /// allow large strings / containers
    pub big: bool,
    /// terminated byte strings in several segments (what the serializer emits for a
    /// `VecDeque<u8>` that wraps around, or for repeated `Bytes2Serializer::serialize` calls)
    pub segmented: bool,
}

impl GenCfg {
    pub fn canonical(epoch: EpochPolicy) -> Self {
        GenCfg {
            max_depth: 32,
            max_nodes: 400,
            noncanon: false,
            bad_utf8: false,
            dups: false,
            epoch,
            big: true,
            segmented: true,
        }
    }

    pub fn wild() -> Self {
        GenCfg {
            max_depth: 32,
            max_nodes: 300,
            noncanon: true,
            bad_utf8: true,
            dups: true,
            epoch: EpochPolicy::Mixed,
            big: true,
            segmented: true,
        }
    }
}

pub struct Gen<'a, 'b> {
    pub t: &'a mut Tape<'b>,
    pub cfg: GenCfg,
    pub nodes: usize,
}

const U_POOL: [u64; 30] = [
    0,
    1,
    2,
    127,
    128,
    246,
    247,
    248,
    250,
    251,
    252,
    253,
    254,
    255,
    256,
    257,
    0x7FFF,
    0x8000,
    0xFFFF,
    0x1_0000,
    0xFF_FFFF,
    0x100_0000,
    0x7FFF_FFFF,
    0x8000_0000,
    0xFFFF_FFFF,
    0x1_0000_0000,
    0xFF_FFFF_FFFF_FFFF,
    0x100_0000_0000_0000,
    0x7FFF_FFFF_FFFF_FFFF,
    u64::MAX,
];

const F32_POOL: [u32; 12] = [
    0,
    0x8000_0000,
    0x3F80_0000,
    0x7F80_0000,
    0xFF80_0000,
    0x7FC0_0000,
    0x7FA0_0000,
    0xFFC0_0001,
    0x7FFF_FFFF,
    0x0000_0001,
    0x007F_FFFF,
    0x4049_0FDB,
];

const F64_POOL: [u64; 12] = [
    0,
    0x8000_0000_0000_0000,
    0x3FF0_0000_0000_0000,
    0x7FF0_0000_0000_0000,
    0xFFF0_0000_0000_0000,
    0x7FF8_0000_0000_0000,
    0x7FF4_0000_0000_0000,
    0xFFF8_0000_0000_0001,
    0x7FFF_FFFF_FFFF_FFFF,
    0x0000_0000_0000_0001,
    0x000F_FFFF_FFFF_FFFF,
    0x4009_21FB_5444_2D18,
];

impl<'a, 'b> Gen<'a, 'b> {
    pub fn new(t: &'a mut Tape<'b>, cfg: GenCfg) -> Self {
        Gen { t, cfg, nodes: 0 }
    }

    fn uint(&mut self, bits: u32) -> u64 {
        let mask = if bits == 64 { u64::MAX } else { (1u64 << bits) - 1 };
        match self.t.below(4) {
            0 => *self.t.pick(&U_POOL) & mask,
            1 => self.t.u8() as u64,
            2 => (self.t.u64() >> self.t.below(64)) & mask,
            _ => self.t.u64() & mask,
        }
    }

    fn sint(&mut self, bits: u32) -> i64 {
        // value within the signed range of `bits`
        let u = self.uint(bits);
        // interpret as zigzag image so that boundaries of the image are hit
        zigzag_dec(u)
    }

    fn varint(&mut self, raw: u64, n: u8) -> VarInt {
        if self.cfg.noncanon && self.t.chance(40) {
            let forms = VarInt::forms_for(raw, n);
            let f = *self.t.pick(&forms);
            VarInt { raw, form: f }
        } else {
            VarInt::canonical(raw, n)
        }
    }

    fn len_form(&mut self, len: usize) -> u8 {
        self.varint(len as u64, 4).form
    }

    fn string_bytes(&mut self) -> Vec<u8> {
        let shape = self.t.weighted(&[30, 60, 40, 30, 12, 6]);
        let mut rng = SplitMix(self.t.u32() as u64);
        let mut out = match shape {
            0 => vec![],
            1 => {
                let n = self.t.range(1, 12);
                (0..n).map(|_| b'a' + (rng.below(26) as u8)).collect()
            }
            2 => {
                let n = self.t.range(1, 10);
                let pool = ["é", "ß", "€", "𝄞", "a", "\u{0}", "\u{7f}", "\u{80}", "\u{7ff}", "\u{800}", "\u{ffff}", "\u{10000}", "\u{10ffff}", " "];
                let mut s = String::new();
                for _ in 0..n {
                    s.push_str(pool[rng.below(pool.len())]);
                }
                s.into_bytes()
            }
            3 => {
                // around the 1 -> 2 byte length-prefix boundary (251/252)
                let n = self.t.range(245, 260);
                (0..n).map(|_| b'A' + (rng.below(26) as u8)).collect()
            }
            4 => {
                let n = self.t.range(300, 2000);
                (0..n).map(|_| b' ' + (rng.below(90) as u8)).collect()
            }
            _ => {
                if self.cfg.big {
                    // crosses the 2 -> 3 byte length prefix at 65536
                    let n = self.t.range(65_500, 70_000);
                    (0..n).map(|_| b'0' + (rng.below(10) as u8)).collect()
                } else {
                    vec![b'x'; 40]
                }
            }
        };
        if self.cfg.bad_utf8 && self.t.chance(20) {
            let bad: &[&[u8]] = &[&[0xFF], &[0xC0, 0x80], &[0xED, 0xA0, 0x80], &[0xF4, 0x90, 0x80, 0x80], &[0xE2, 0x82], &[0x80]];
            let ins = *self.t.pick(bad);
            let at = if out.is_empty() { 0 } else { rng.below(out.len() + 1) };
            // insert on a char boundary of the ascii shapes only approximately: any position is fine for invalidity
            let mut v = out[..at].to_vec();
            v.extend_from_slice(ins);
            v.extend_from_slice(&out[at..]);
            out = v;
        }
        out
    }

    fn key(&mut self, kk: KeyKind) -> RKey {
        match kk {
            KeyKind::U8 => RKey::U8(self.uint(8) as u8),
            KeyKind::I8 => RKey::I8(self.uint(8) as u8 as i8),
            KeyKind::U16 | KeyKind::I16 => {
                let r = self.uint(16);
                RKey::Int(self.varint(r, 2))
            }
            KeyKind::U32 | KeyKind::I32 => {
                let r = self.uint(32);
                RKey::Int(self.varint(r, 4))
            }
            KeyKind::U64 | KeyKind::I64 => {
                let r = self.uint(64);
                RKey::Int(self.varint(r, 8))
            }
            KeyKind::String => {
                let s = self.string_bytes();
                let l = self.varint(s.len() as u64, 4);
                RKey::Str(l, s)
            }
            KeyKind::Uuid => RKey::Uuid(self.uuid()),
        }
    }

    fn uuid(&mut self) -> [u8; 16] {
        let mut a = [0u8; 16];
        match self.t.below(3) {
            0 => {}
            1 => a = [0xFF; 16],
            _ => {
                let mut r = SplitMix(self.t.u32() as u64);
                for c in a.chunks_mut(8) {
                    c.copy_from_slice(&r.next().to_le_bytes());
                }
            }
        }
        a
    }

    fn arr<const N: usize>(&mut self) -> [u8; N] {
        let mut a = [0u8; N];
        let mut r = SplitMix(self.t.u32() as u64);
        if self.t.bool() {
            for c in a.chunks_mut(8) {
                let x = r.next().to_le_bytes();
                c.copy_from_slice(&x[..c.len()]);
            }
        }
        a
    }

    fn epoch(&mut self) -> Epoch {
        match self.cfg.epoch {
            EpochPolicy::V1 => Epoch::V1,
            EpochPolicy::V2 => Epoch::V2,
            EpochPolicy::Mixed => {
                if self.t.bool() {
                    Epoch::V2
                } else {
                    Epoch::V1
                }
            }
        }
    }

    fn count(&mut self) -> usize {
        let budget = self.cfg.max_nodes.saturating_sub(self.nodes);
        let c = match self.t.weighted(&[20, 30, 30, 40, 6]) {
            0 => 0,
            1 => 1,
            2 => 2,
            3 => self.t.range(3, 8),
            _ => {
                if self.cfg.big {
                    self.t.range(9, 300)
                } else {
                    9
                }
            }
        };
        c.min(budget)
    }

    pub fn leaf(&mut self) -> RTree {
        self.nodes += 1;
        match self.t.weighted(&[8, 6, 5, 5, 7, 7, 7, 7, 7, 7, 5, 5, 10, 4, 4, 4, 3, 3, 8, 10]) {
            0 => RTree::None,
            1 => {
                let b = if self.cfg.noncanon && self.t.chance(60) {
                    self.t.u8()
                } else {
                    self.t.u8() & 1
                };
                RTree::Bool(b)
            }
            2 => RTree::U8(self.uint(8) as u8),
            3 => RTree::I8(self.uint(8) as u8 as i8),
            4 => {
                let r = self.uint(16);
                RTree::U16(self.varint(r, 2))
            }
            5 => {
                let r = self.uint(16);
                RTree::I16(self.varint(r, 2))
            }
            6 => {
                let r = self.uint(32);
                RTree::U32(self.varint(r, 4))
            }
            7 => {
                let r = self.uint(32);
                RTree::I32(self.varint(r, 4))
            }
            8 => {
                let r = self.uint(64);
                RTree::U64(self.varint(r, 8))
            }
            9 => {
                let r = self.uint(64);
                RTree::I64(self.varint(r, 8))
            }
            10 => RTree::F32(if self.t.bool() { *self.t.pick(&F32_POOL) } else { self.t.u32() }),
            11 => RTree::F64(if self.t.bool() { *self.t.pick(&F64_POOL) } else { self.t.u64() }),
            12 => {
                let s = self.string_bytes();
                let l = self.varint(s.len() as u64, 4);
                RTree::String(l, s)
            }
            13 => RTree::Uuid(self.uuid()),
            14 => RTree::ObjectId(self.arr()),
            15 => RTree::ServiceId(self.arr()),
            16 => RTree::Sender(self.uuid()),
            17 => RTree::Receiver(self.uuid()),
            18 => self.bytes_node(),
            _ => self.set_node(),
        }
    }

    fn bytes_node(&mut self) -> RTree {
        let e = self.epoch();
        let n = match self.t.weighted(&[20, 40, 20, 8, 4]) {
            0 => 0,
            1 => self.t.range(1, 16),
            2 => self.t.range(240, 260),
            3 => self.t.range(300, 3000),
            _ => {
                if self.cfg.big {
                    self.t.range(65_000, 70_000)
                } else {
                    64
                }
            }
        };
        let mut r = SplitMix(self.t.u32() as u64);
        let data: Vec<u8> = (0..n).map(|_| r.next() as u8).collect();
        match e {
            Epoch::V1 => {
                let f = self.len_form(n);
                RTree::Bytes(Epoch::V1, vec![(f, data)], 0)
            }
            Epoch::V2 => {
                let mut chunks = vec![];
                if (self.cfg.noncanon || self.cfg.segmented) && n > 1 && self.t.bool() {
                    let parts = self.t.range(2, 4.min(n));
                    let mut rest = &data[..];
                    for i in 0..parts {
                        let take = if i == parts - 1 {
                            rest.len()
                        } else {
                            1 + r.below(rest.len() - (parts - 1 - i))
                        };
                        let f = self.len_form(take);
                        chunks.push((f, rest[..take].to_vec()));
                        rest = &rest[take..];
                    }
                } else if n > 0 {
                    let f = self.len_form(n);
                    chunks.push((f, data));
                }
                let tf = self.varint(0, 4).form;
                RTree::Bytes(Epoch::V2, chunks, tf)
            }
        }
    }

    fn set_node(&mut self) -> RTree {
        let kk = *self.t.pick(&KEY_KINDS);
        let e = self.epoch();
        let n = self.count();
        let mut v: Vec<RKey> = vec![];
        for _ in 0..n {
            let k = self.key(kk);
            if !self.cfg.dups && v.iter().any(|x| same_key(kk, x, &k)) {
                continue;
            }
            v.push(k);
        }
        if self.cfg.dups && !v.is_empty() && self.t.chance(40) {
            let d = v[0].clone();
            v.push(d);
        }
        let f = self.len_form(v.len());
        RTree::Set(kk, e, f, v)
    }

    /// A value with at most `depth_left` nesting levels (>= 1).
    pub fn value(&mut self, depth_left: u32) -> RTree {
        if depth_left <= 1 || self.nodes >= self.cfg.max_nodes {
            return if self.t.chance(30) { self.empty_container() } else { self.leaf() };
        }
        // containers with nesting
        match self.t.weighted(&[55, 8, 10, 10, 9, 8, if self.cfg.big { 3 } else { 0 }]) {
            0 => self.leaf(),
            1 => {
                self.nodes += 1;
                RTree::Some(Box::new(self.value(depth_left - 1)))
            }
            2 => {
                self.nodes += 1;
                let e = self.epoch();
                let n = self.count();
                let v: Vec<RTree> = (0..n).map(|_| self.value(depth_left - 1)).collect();
                let f = self.len_form(v.len());
                RTree::Vec(e, f, v)
            }
            3 => {
                self.nodes += 1;
                let kk = *self.t.pick(&KEY_KINDS);
                let e = self.epoch();
                let n = self.count();
                let mut v: Vec<(RKey, RTree)> = vec![];
                for _ in 0..n {
                    let k = self.key(kk);
                    let x = self.value(depth_left - 1);
                    if !self.cfg.dups && v.iter().any(|(y, _)| same_key(kk, y, &k)) {
                        continue;
                    }
                    v.push((k, x));
                }
                if self.cfg.dups && !v.is_empty() && self.t.chance(40) {
                    let k = v[0].0.clone();
                    let x = self.leaf();
                    v.push((k, x));
                }
                let f = self.len_form(v.len());
                RTree::Map(kk, e, f, v)
            }
            4 => {
                self.nodes += 1;
                let e = self.epoch();
                let n = self.count().min(40);
                let mut v: Vec<(VarInt, RTree)> = vec![];
                for _ in 0..n {
                    let idr = match self.t.below(3) {
                        0 => self.t.below(8) as u64,
                        1 => self.uint(32),
                        _ => self.t.u8() as u64,
                    };
                    let id = self.varint(idr, 4);
                    let x = self.value(depth_left - 1);
                    if !self.cfg.dups && v.iter().any(|(y, _)| y.raw == id.raw) {
                        continue;
                    }
                    v.push((id, x));
                }
                let f = self.len_form(v.len());
                RTree::Struct(e, f, v)
            }
            5 => {
                self.nodes += 1;
                let idr = if self.t.bool() { self.t.below(6) as u64 } else { self.uint(32) };
                let id = self.varint(idr, 4);
                RTree::Enum(id, Box::new(self.value(depth_left - 1)))
            }
            _ => self.wide_container(),
        }
    }

    /// An empty container of a drawn kind (vector, map of any key kind, struct), either epoch: a
    /// value that nests nothing and therefore sits exactly at the level it is placed at.
    pub fn empty_container(&mut self) -> RTree {
        self.nodes += 1;
        let e = self.epoch();
        let f = self.len_form(0);
        match self.t.below(12) {
            0 => RTree::Vec(e, f, vec![]),
            1 => RTree::Struct(e, f, vec![]),
            k => RTree::Map(KEY_KINDS[k - 2], e, f, vec![]),
        }
    }

    /// A container whose element count sits on a boundary of the length encodings (single-byte
    /// varints end at 251; 255/256 are the u8 boundary), filled with one-byte elements.
    pub fn wide_container(&mut self) -> RTree {
        self.nodes += 1;
        let n = *self.t.pick(&[252usize, 251, 253, 254, 255, 256, 257, 250, 300]);
        let e = self.epoch();
        let f = self.len_form(n);
        match self.t.below(4) {
            0 => RTree::Vec(e, f, (0..n).map(|i| if i % 7 == 3 { RTree::None } else { RTree::U8(i as u8) }).collect()),
            1 => {
                let v = (0..n).map(|i| (RKey::Int(self.varint(i as u64, 2)), RTree::U8(i as u8))).collect();
                RTree::Map(KeyKind::U16, e, f, v)
            }
            2 => {
                let v = (0..n).map(|i| RKey::Int(self.varint(i as u64, 2))).collect();
                RTree::Set(KeyKind::U16, e, f, v)
            }
            _ => {
                let v = (0..n).map(|i| (self.varint(i as u64, 4), RTree::Bool((i & 1) as u8))).collect();
                RTree::Struct(e, f, v)
            }
        }
    }

    /// A chain of exactly `d` nesting levels (d >= 1): d-1 nesting steps around a leaf, each
    /// step drawn from every kind that nests.
    pub fn depth_chain(&mut self, d: u32) -> RTree {
        // the innermost value: a scalar-like leaf or an empty container (which must be accepted at
        // the deepest permitted level just like a scalar)
        let mut cur = if self.t.chance(90) { self.empty_container() } else { self.leaf() };
        for _ in 1..d {
            let step = self.t.below(14);
            cur = match step {
                0 => RTree::Some(Box::new(cur)),
                1 => {
                    let e = self.epoch();
                    // sometimes with siblings
                    let mut v = vec![];
                    if self.t.chance(60) {
                        v.push(RTree::U8(1));
                    }
                    v.push(cur);
                    let f = self.len_form(v.len());
                    RTree::Vec(e, f, v)
                }
                2 => {
                    let e = self.epoch();
                    let idr = self.t.below(5) as u64;
                    let id = self.varint(idr, 4);
                    RTree::Struct(e, 0, vec![(id, cur)])
                }
                3 => {
                    let idr = self.t.below(5) as u64;
                    let id = self.varint(idr, 4);
                    RTree::Enum(id, Box::new(cur))
                }
                k => {
                    let kk = KEY_KINDS[k - 4];
                    let e = self.epoch();
                    let key = self.key(kk);
                    RTree::Map(kk, e, 0, vec![(key, cur)])
                }
            };
        }
        cur
    }
}

pub fn same_key(kk: KeyKind, a: &RKey, b: &RKey) -> bool {
    match (a, b) {
        (RKey::Int(x), RKey::Int(y)) => {
            let _ = kk;
            x.raw == y.raw
        }
        (RKey::Str(_, x), RKey::Str(_, y)) => x == y,
        _ => a == b,
    }
}

// ---------------------------------------------------------------------------------------------
// byte mutations

/// Applies 1..=3 mutations drawn from the tape.
pub fn mutate(bytes: &[u8], t: &mut Tape) -> Vec<u8> {
    let mut b = bytes.to_vec();
    let n = t.range(1, 3);
    for _ in 0..n {
        let op = t.below(9);
        match op {
            0 => {
                if !b.is_empty() {
                    let i = t.below(b.len());
                    b[i] ^= 1 << t.below(8);
                }
            }
            1 => {
                if !b.is_empty() {
                    let i = t.below(b.len());
                    let pool = [0u8, 1, 0xFF, 0xFE, 0xFB, 0xFC, 17, 18, 39, 40, 43, 44, 65, 66, 13];
                    b[i] = if t.bool() { *t.pick(&pool) } else { t.u8() };
                }
            }
            2 => {
                let i = t.below(b.len() + 1);
                b.insert(i, t.u8());
            }
            3 => {
                if !b.is_empty() {
                    let i = t.below(b.len());
                    b.remove(i);
                }
            }
            4 => {
                let n = t.below(b.len() + 1);
                b.truncate(n);
            }
            5 => {
                // chop a few bytes from the end
                let k = t.range(1, 4).min(b.len());
                b.truncate(b.len() - k);
            }
            6 => {
                // duplicate a slice
                if !b.is_empty() {
                    let i = t.below(b.len());
                    let l = t.range(1, 8).min(b.len() - i);
                    let s = b[i..i + l].to_vec();
                    let at = t.below(b.len() + 1);
                    for (k, x) in s.into_iter().enumerate() {
                        b.insert(at + k, x);
                    }
                }
            }
            7 => {
                // increment / decrement a byte (length fields, markers)
                if !b.is_empty() {
                    let i = t.below(b.len());
                    b[i] = if t.bool() { b[i].wrapping_add(1) } else { b[i].wrapping_sub(1) };
                }
            }
            _ => {
                b.push(t.u8());
            }
        }
    }
    b
}

/// Random bytes biased to start with a valid kind.
pub fn random_bytes(t: &mut Tape) -> Vec<u8> {
    let n = t.range(0, 40);
    let mut b = vec![];
    if n > 0 {
        b.push(if t.chance(200) { t.below(66) as u8 } else { t.u8() });
    }
    while b.len() < n {
        let x = match t.below(4) {
            0 => t.below(66) as u8,
            1 => *t.pick(&[0u8, 1, 0xFF, 0xFB, 0xFC]),
            _ => t.u8(),
        };
        b.push(x);
    }
    b
}
