//! C08 Message codec round-trip and strict parsing of all message kinds.

use crate::refcodec::{encode, VarInt};
use crate::refmsg::*;
use crate::vgen::*;
use aldrin_core::message::{Message, MessageKind, MessageOps};
use bytes::BytesMut;
use vcommon::vfail;
use vcommon::{catch, fingerprint, hex, CheckDef, ClassPlan, Ctx, Outcome, PassInfo, Tape, Tier};

pub static DEF: CheckDef = CheckDef {
    id: "C08",
    level: "exploration",
    rule: "(message) Message values of all 63 kinds built from tape-generated fields (every enum alternative, serial/id/capacity boundary pool, payloads from the value generator); (bytes) reference-built frames with non-canonical varints and 1-3 mutations (outer length, value length, kind, discriminants, truncation, trailing bytes) and random frames. Non-trivial: message kind has >=2 fields or a payload; for bytes: the frame passes the length and kind checks so that field parsing is reached. Distinct = distinct frame bytes.",
    assumptions: &[
        "refmsg.rs (table-driven layout of the 63 kinds) states the frame format; it is pinned to the golden byte vectors in /repo/core/src/message/*.rs by the golden class of every run",
    ],
    plan,
    case,
    render,
    crashy: false,
    floors: &[("reaches-fields", 0.25), ("both-accept", 0.10), ("ref-rejects", 0.15)],
    extra: Some(golden),
    extra_coverage: None,
};

fn plan(t: Tier) -> Vec<ClassPlan> {
    let k = match t {
        Tier::Quick => 40,
        Tier::Thorough => 600,
    };
    vec![
        ClassPlan { class: "message", cases: 63 * 400 * k, min_len: 2, max_len: 300 },
        ClassPlan { class: "bytes", cases: 60_000 * k, min_len: 2, max_len: 300 },
    ]
}

const V_POOL: [u32; 14] = [0, 1, 2, 250, 251, 252, 254, 255, 256, 65535, 65536, 0xFF_FFFF, 0x100_0000, u32::MAX];

fn gen_fields(t: &mut Tape, fs: &[F], noncanon: bool) -> Vec<RF> {
    fs.iter()
        .map(|f| match f {
            F::V => {
                let raw = if t.bool() { *t.pick(&V_POOL) } else { t.u32() >> t.below(32) } as u64;
                if noncanon && t.chance(60) {
                    let forms = VarInt::forms_for(raw, 4);
                    RF::V(VarInt { raw, form: *t.pick(&forms) })
                } else {
                    RF::V(VarInt::canonical(raw, 4))
                }
            }
            F::U => {
                let mut a = [0u8; 16];
                match t.below(3) {
                    0 => {}
                    1 => a = [0xFF; 16],
                    _ => {
                        for x in a.iter_mut() {
                            *x = t.u8();
                        }
                    }
                }
                RF::U(a)
            }
            F::Alt(alts) => {
                let d = t.below(alts.len());
                RF::Alt(d as u8, gen_fields(t, alts[d], noncanon))
            }
        })
        .collect()
}

fn gen_value(t: &mut Tape) -> Vec<u8> {
    match t.below(4) {
        0 => vec![0],
        1 => vec![3, t.u8()],
        _ => {
            let mut cfg = GenCfg::wild();
            cfg.big = t.chance(8);
            cfg.max_nodes = 30;
            let dl = t.range(1, 5) as u32;
            encode(&Gen::new(t, cfg).value(dl))
        }
    }
}

fn gen_rmsg(t: &mut Tape, noncanon: bool) -> RMsg {
    let kind = t.below(63) as u8;
    let lay = &LAYOUTS[kind as usize];
    let fields = gen_fields(t, lay.fields, noncanon);
    let value = if lay.has_value { Some(gen_value(t)) } else { None };
    RMsg { kind, value, fields }
}

fn bytes_input(tape: &[u8]) -> Vec<u8> {
    let mut t = Tape::new(tape);
    match t.below(8) {
        0 => {
            // random frame with a consistent length prefix
            let n = t.range(5, 60);
            let mut b = vec![0u8; n];
            b[..4].copy_from_slice(&(n as u32).to_le_bytes());
            b[4] = if t.chance(230) { t.below(63) as u8 } else { t.u8() };
            for x in b[5..].iter_mut() {
                *x = match t.below(3) {
                    0 => t.below(8) as u8,
                    _ => t.u8(),
                };
            }
            if LAYOUTS.get(b[4] as usize).map(|l| l.has_value).unwrap_or(false) && n >= 10 && t.chance(200) {
                let vl = t.range(1, n - 9) as u32;
                b[5..9].copy_from_slice(&vl.to_le_bytes());
            }
            b
        }
        1 => {
            // valid frame, non-canonical varints, untouched
            encode_frame(&gen_rmsg(&mut t, true))
        }
        2 => {
            // wrong outer length
            let mut f = encode_frame(&gen_rmsg(&mut t, true));
            let l = f.len() as u32;
            let nl = match t.below(4) {
                0 => l + 1,
                1 => l.wrapping_sub(1),
                2 => l << 8,
                _ => u32::MAX,
            };
            f[..4].copy_from_slice(&nl.to_le_bytes());
            f
        }
        3 => {
            // wrong value length (outer length kept consistent)
            let m = gen_rmsg(&mut t, true);
            let mut f = encode_frame(&m);
            if m.value.is_some() {
                let vl = u32::from_le_bytes([f[5], f[6], f[7], f[8]]);
                let nl = match t.below(5) {
                    0 => 0,
                    1 => vl + 1,
                    2 => vl.wrapping_sub(1),
                    3 => (f.len() - 9) as u32,
                    _ => (f.len() - 8) as u32,
                };
                f[5..9].copy_from_slice(&nl.to_le_bytes());
            }
            f
        }
        4 => {
            // trailing bytes, length fixed up
            let mut f = encode_frame(&gen_rmsg(&mut t, true));
            let extra = t.range(1, 3);
            for _ in 0..extra {
                f.push(t.u8());
            }
            let l = f.len() as u32;
            f[..4].copy_from_slice(&l.to_le_bytes());
            f
        }
        5 => {
            // truncated, length fixed up
            let mut f = encode_frame(&gen_rmsg(&mut t, true));
            let n = t.range(0, f.len());
            f.truncate(n);
            if f.len() >= 4 {
                let l = f.len() as u32;
                f[..4].copy_from_slice(&l.to_le_bytes());
            }
            f
        }
        _ => {
            // generic mutations of the body, length fixed up half of the time
            let f = encode_frame(&gen_rmsg(&mut t, true));
            let mut body = mutate(&f[4..], &mut t);
            let mut out = f[..4].to_vec();
            out.append(&mut body);
            if t.bool() && out.len() >= 4 {
                let l = out.len() as u32;
                out[..4].copy_from_slice(&l.to_le_bytes());
            }
            out
        }
    }
}

fn render(class: &str, tape: &[u8]) -> String {
    match class {
        "message" => {
            let mut t = Tape::new(tape);
            let m = gen_rmsg(&mut t, false);
            format!("{} {:?}", LAYOUTS[m.kind as usize].name, m).chars().take(1200).collect()
        }
        "golden" => format!("golden vector #{} from /repo/core/src/message", u32::from_le_bytes([tape[0], tape[1], tape[2], tape[3]])),
        "bytes-raw" => format!("frame({})={}\nreference: {:?}", tape.len(), hex(&tape[..tape.len().min(400)]), decode_frame(tape).map(|m| LAYOUTS[m.kind as usize].name)),
        _ => {
            let b = bytes_input(tape);
            format!("frame({})={}\nreference: {:?}", b.len(), hex(&b[..b.len().min(400)]), decode_frame(&b).map(|m| LAYOUTS[m.kind as usize].name))
        }
    }
}

fn case(class: &str, tape: &[u8], _strict: bool) -> Outcome {
    match class {
        "message" => {
            let mut t = Tape::new(tape);
            let m = gen_rmsg(&mut t, false);
            message_case(&m)
        }
        "golden" => {
            let idx = u32::from_le_bytes([tape[0], tape[1], tape[2], tape[3]]) as usize;
            let g = golden_vectors();
            match g.get(idx) {
                Some((file, bytes)) => golden_case(file, bytes),
                None => Outcome::fail("harness:golden-index", "no such golden vector"),
            }
        }
        // raw class for the coverage-guided target: the tape is the frame
        "bytes-raw" => bytes_case(tape),
        _ => bytes_case(&bytes_input(tape)),
    }
}

fn message_case(r: &RMsg) -> Outcome {
    let lay = &LAYOUTS[r.kind as usize];
    let built = match catch(|| build(r)) {
        Ok(m) => m,
        Err(p) => vfail!("harness:build", "cannot build message: {}", p.0),
    };
    let mut classes: Vec<&'static str> = vec![lay.name];
    if u8::from(built.kind()) != r.kind {
        vfail!("kind:differs", "kind() = {:?} for kind byte {}", built.kind(), r.kind);
    }
    if built.kind().has_value() != lay.has_value {
        vfail!("has-value:differs", "{}: has_value() = {}", lay.name, built.kind().has_value());
    }
    let frame = match catch(|| built.clone().serialize_message()) {
        Ok(Ok(f)) => f,
        Ok(Err(e)) => vfail!("serialize:failed", "{}: serialize_message failed: {:?}", lay.name, e),
        Err(p) => vfail!(format!("panic:serialize:{}", p.location()), "{}", p.0),
    };
    let fb: Vec<u8> = frame.to_vec();
    if fb.len() < 5 || u32::from_le_bytes([fb[0], fb[1], fb[2], fb[3]]) as usize != fb.len() {
        vfail!("serialize:length-prefix", "{}: length prefix does not equal the frame length: {}", lay.name, hex(&fb[..fb.len().min(64)]));
    }
    // the frame is what the format says this message looks like
    let want = canonical(r);
    match decode_frame(&fb) {
        Ok(d) => {
            if d != want {
                vfail!("serialize:layout-differs", "{}: serialized frame does not carry the message's fields in the format's layout\nframe={}\nreference sees {:?}\nexpected      {:?}", lay.name, hex(&fb[..fb.len().min(300)]), d, want);
            }
        }
        Err(e) => vfail!("serialize:reference-rejects", "{}: reference rejects the serialized frame: {:?} {}", lay.name, e, hex(&fb[..fb.len().min(300)])),
    }
    // parsing yields an equal message with an identical payload
    let parsed = match catch(|| Message::deserialize_message(frame.clone())) {
        Ok(Ok(m)) => m,
        Ok(Err(e)) => vfail!("roundtrip:parse-failed", "{}: own frame rejected: {:?} {}", lay.name, e, hex(&fb[..fb.len().min(300)])),
        Err(p) => vfail!(format!("panic:deserialize:{}", p.location()), "{}", p.0),
    };
    if parsed != built {
        vfail!("roundtrip:message-differs", "{}: parse(serialize(m)) != m\n m={:?}\n got={:?}", lay.name, built, parsed);
    }
    match (built.value(), parsed.value(), &want.value) {
        (Some(a), Some(b), Some(w)) => {
            let discarded = (lay.discard)(&alt_path(&r.fields));
            if !discarded && (&a[..] != &w[..] || &b[..] != &w[..]) {
                vfail!("roundtrip:payload-differs", "{}: payload changed", lay.name);
            }
            classes.push("has-payload");
        }
        (None, None, _) => {}
        (a, b, _) => {
            // kinds whose chosen alternative carries no payload report None
            if a.is_some() != b.is_some() {
                vfail!("roundtrip:payload-presence", "{}: value() presence differs", lay.name);
            }
        }
    }
    let nontrivial = lay.has_value || lay.fields.len() >= 2;
    Outcome::Pass(PassInfo { nontrivial, fp: fingerprint(&fb), classes })
}

fn bytes_case(b: &[u8]) -> Outcome {
    let reference = decode_frame(b);
    let mut classes: Vec<&'static str> = vec![];
    let reaches = !matches!(reference, Err(FrameError::TooShort) | Err(FrameError::LengthMismatch) | Err(FrameError::UnknownKind));
    if reaches {
        classes.push("reaches-fields");
    }
    let got = match catch(|| Message::deserialize_message(BytesMut::from(b))) {
        Ok(r) => r,
        Err(p) => vfail!(format!("panic:deserialize:{}", p.location()), "parsing panicked: {}\nframe={}", p.0, hex(&b[..b.len().min(400)])),
    };
    match (&got, &reference) {
        (Err(_), Err(_)) => {
            classes.push("ref-rejects");
        }
        (Ok(m), Err(e)) => vfail!(
            "parse:accepts-what-format-rejects",
            "accepted as {:?} but the frame is not well-formed: {:?}\nframe={}",
            m.kind(),
            e,
            hex(&b[..b.len().min(400)])
        ),
        (Err(e), Ok(r)) => vfail!(
            "parse:rejects-wellformed-frame",
            "{:?} for a well-formed {} frame\nframe={}",
            e,
            LAYOUTS[r.kind as usize].name,
            hex(&b[..b.len().min(400)])
        ),
        (Ok(m), Ok(r)) => {
            classes.push("both-accept");
            classes.push(LAYOUTS[r.kind as usize].name);
            if u8::from(m.kind()) != r.kind {
                vfail!("parse:kind-differs", "parsed as {:?}, kind byte {}", m.kind(), r.kind);
            }
            // fields agree: re-serialising gives the canonical form of what the reference saw
            let re = match catch(|| m.clone().serialize_message()) {
                Ok(Ok(f)) => f.to_vec(),
                Ok(Err(e)) => vfail!("reserialize:failed", "{:?}", e),
                Err(p) => vfail!(format!("panic:serialize:{}", p.location()), "{}", p.0),
            };
            let want = encode_frame(&canonical(r));
            if re != want {
                vfail!(
                    "parse:fields-differ",
                    "{}: re-serialised frame differs from the canonical form of the input\ninput={}\n  got={}\n want={}",
                    LAYOUTS[r.kind as usize].name,
                    hex(&b[..b.len().min(300)]),
                    hex(&re[..re.len().min(300)]),
                    hex(&want[..want.len().min(300)])
                );
            }
            // closure: it parses to the same message again
            match catch(|| Message::deserialize_message(BytesMut::from(&re[..]))) {
                Ok(Ok(m2)) => {
                    if &m2 != m {
                        vfail!("reserialize:message-differs", "parse(serialize(parse(b))) != parse(b)");
                    }
                }
                Ok(Err(e)) => vfail!("reserialize:rejected", "re-serialised frame rejected: {:?}", e),
                Err(p) => vfail!(format!("panic:deserialize:{}", p.location()), "{}", p.0),
            }
            let _ = MessageKind::Sync;
        }
    }
    Outcome::Pass(PassInfo { nontrivial: reaches, fp: fingerprint(b), classes })
}

// ---------------------------------------------------------------------------------------------
// golden vectors harvested from upstream's unit tests (pins the reference layout)

pub fn golden_vectors() -> Vec<(String, Vec<u8>)> {
    let mut out = vec![];
    let dir = vcommon::repo_root().join("core/src/message");
    let Ok(rd) = std::fs::read_dir(&dir) else {
        return out;
    };
    let mut files: Vec<_> = rd.filter_map(|e| e.ok()).map(|e| e.path()).filter(|p| p.extension().map(|x| x == "rs").unwrap_or(false)).collect();
    files.sort();
    for p in files {
        let Ok(text) = std::fs::read_to_string(&p) else { continue };
        let name = p.file_name().unwrap().to_string_lossy().to_string();
        let mut rest = &text[..];
        while let Some(i) = rest.find("let serialized = [") {
            let after = &rest[i + "let serialized = [".len()..];
            let Some(j) = after.find("];") else { break };
            let body = &after[..j];
            let mut bytes = vec![];
            let mut ok = true;
            for tok in body.split(',') {
                let tok = tok.trim();
                if tok.is_empty() {
                    continue;
                }
                let v = if let Some(h) = tok.strip_prefix("0x") { u8::from_str_radix(h, 16).ok() } else { tok.parse::<u8>().ok() };
                match v {
                    Some(v) => bytes.push(v),
                    None => {
                        ok = false;
                        break;
                    }
                }
            }
            if ok && bytes.len() >= 5 {
                out.push((name.clone(), bytes));
            }
            rest = &after[j..];
        }
    }
    out
}

fn golden_case(file: &str, b: &[u8]) -> Outcome {
    // upstream's tests tie these bytes to their messages; the reference must read them
    match decode_frame(b) {
        Ok(r) => {
            let stem = file.trim_end_matches(".rs").replace('_', "");
            if LAYOUTS[r.kind as usize].name.to_lowercase() != stem {
                // Message-level tests may live in other files; only count
            }
        }
        Err(e) => {
            return Outcome::fail(
                "harness:reference-rejects-golden-vector",
                format!("reference frame decoder rejects upstream golden vector from {}: {:?} {}", file, e, hex(b)),
            )
        }
    }
    match bytes_case(b) {
        Outcome::Pass(mut p) => {
            p.classes.push("golden");
            p.nontrivial = true;
            Outcome::Pass(p)
        }
        f => f,
    }
}

fn golden(ctx: &mut Ctx) {
    let n = golden_vectors().len();
    for i in 0..n {
        ctx.eval_case("golden", &(i as u32).to_le_bytes());
    }
}
