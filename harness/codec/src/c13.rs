//! C13 Value epoch conversion preserves meaning and removes new encodings.

use crate::glue::*;
use crate::refcodec::*;
use crate::refmsg::{build, RMsg, LAYOUTS, RF};
use crate::vgen::*;
use aldrin_core::message::MessageOps;
use aldrin_core::{ProtocolVersion, SerializedValue, ValueConversionError};
use std::borrow::Cow;
use vcommon::vfail;
use vcommon::{catch, fingerprint, hex, CheckDef, ClassPlan, Outcome, PassInfo, Tape, Tier};

pub static DEF: CheckDef = CheckDef {
    id: "C13",
    level: "exploration",
    rule: "Inputs: (wellformed) reference encodings of tape-generated trees in either/mixed epoch with non-canonical varints, odd bool bytes, duplicate keys, chunked byte strings, invalid UTF-8, depth up to 32 incl. depth chains ending in a new-epoch container; (malformed) mutations/truncations and random bytes; each with a (from,to) pair over {None, 0.9, 1.13, 1.14..1.20, 1.21, 2.0} and all three entry points (slice convert, in-place convert, convert_value on each of the 14 value-carrying message kinds). Non-trivial: the input contains >=1 new-epoch container and the target epoch is older. Distinct = input bytes + version pair.",
    assumptions: &[
        "refcodec (skip mode) defines well-formedness ('UTF-8 validity aside') and meaning",
        "versions outside 1.14..1.20 are expected to be refused with InvalidVersion (the documented error), before looking at the input",
    ],
    plan,
    case,
    render,
    crashy: false,
    floors: &[("converted", 0.10), ("borrowed", 0.10), ("invalid-version", 0.05), ("malformed-input", 0.10), ("depth32-new-epoch-bottom", 0.002)],
    extra: None,
    extra_coverage: None,
};

fn plan(t: Tier) -> Vec<ClassPlan> {
    let k = match t {
        Tier::Quick => 40,
        Tier::Thorough => 600,
    };
    vec![
        ClassPlan { class: "wellformed", cases: 40_000 * k, min_len: 2, max_len: 400 },
        ClassPlan { class: "malformed", cases: 30_000 * k, min_len: 2, max_len: 400 },
    ]
}

const VERSIONS: [Option<(u32, u32)>; 13] = [
    None,
    Some((0, 9)),
    Some((1, 13)),
    Some((1, 14)),
    Some((1, 15)),
    Some((1, 16)),
    Some((1, 17)),
    Some((1, 18)),
    Some((1, 19)),
    Some((1, 20)),
    Some((1, 21)),
    Some((2, 0)),
    Some((1, u32::MAX)),
];

/// Epoch of a version restated from the property: 1 = before 1.20, 2 = 1.20, None = unsupported.
fn epoch_of(v: (u32, u32)) -> Option<u8> {
    match v {
        (1, 14..=19) => Some(1),
        (1, 20) => Some(2),
        _ => None,
    }
}

struct Case {
    input: Vec<u8>,
    from: Option<(u32, u32)>,
    to: (u32, u32),
    carrier: u8,
}

fn decode_case(class: &str, tape: &[u8]) -> Case {
    let mut t = Tape::new(tape);
    // bias towards valid pairs
    let from = if t.chance(200) { VERSIONS[[0usize, 3, 5, 8, 9, 9, 9, 0][t.below(8)]] } else { *t.pick(&VERSIONS) };
    let to = if t.chance(200) {
        VERSIONS[[3usize, 4, 6, 8, 8, 3, 9][t.below(7)]].unwrap()
    } else {
        t.pick(&VERSIONS[1..]).unwrap()
    };
    let carrier = t.below(15) as u8;
    let mut cfg = GenCfg::wild();
    cfg.big = t.chance(6);
    cfg.max_nodes = 80;
    let tree = match t.below(8) {
        0 => {
            // depth chain close to the limit ending in a new-epoch container
            let d = t.range(29, 32) as u32;
            cfg.epoch = EpochPolicy::V2;
            let chain = Gen::new(&mut t, cfg).depth_chain(d - 1);
            wrap_bottom(chain)
        }
        1 => {
            cfg.epoch = EpochPolicy::V2;
            Gen::new(&mut t, cfg).value(6)
        }
        2 => {
            cfg.epoch = EpochPolicy::V1;
            Gen::new(&mut t, cfg).value(6)
        }
        _ => {
            let dl = t.range(1, 10) as u32;
            Gen::new(&mut t, cfg).value(dl)
        }
    };
    let mut input = encode(&tree);
    if class == "malformed" {
        input = if t.chance(40) { random_bytes(&mut t) } else { mutate(&input, &mut t) };
        if input.is_empty() {
            input.push(0xEE);
        }
    }
    Case { input, from, to, carrier }
}

/// Replaces the innermost leaf of a chain by an empty new-epoch container (keeps the depth).
fn wrap_bottom(t: RTree) -> RTree {
    match t {
        RTree::Some(x) => RTree::Some(Box::new(wrap_bottom(*x))),
        RTree::Enum(id, x) => RTree::Enum(id, Box::new(wrap_bottom(*x))),
        RTree::Vec(e, f, mut v) => {
            if let Some(last) = v.pop() {
                v.push(wrap_bottom(last));
            }
            RTree::Vec(e, f, v)
        }
        RTree::Map(kk, e, f, mut v) => {
            if let Some((k, last)) = v.pop() {
                v.push((k, wrap_bottom(last)));
            }
            RTree::Map(kk, e, f, v)
        }
        RTree::Struct(e, f, mut v) => {
            if let Some((k, last)) = v.pop() {
                v.push((k, wrap_bottom(last)));
            }
            RTree::Struct(e, f, v)
        }
        _leaf => RTree::Vec(Epoch::V2, 0, vec![RTree::Bytes(Epoch::V2, vec![], 0)]),
    }
}

fn render(class: &str, tape: &[u8]) -> String {
    let c = decode_case(class, tape);
    format!(
        "from={:?} to={:?} carrier={} input({})={}\nreference(skip): {}",
        c.from,
        c.to,
        c.carrier,
        c.input.len(),
        hex(&c.input[..c.input.len().min(400)]),
        match decode_all(&c.input, Mode::Skip) {
            Ok(d) => format!("well-formed, depth {}, v1={} v2={}", d.max_depth, d.saw_v1, d.saw_v2),
            Err(e) => format!("{:?}", e),
        }
    )
}

fn pv(v: (u32, u32)) -> ProtocolVersion {
    ProtocolVersion::new(v.0, v.1)
}

fn case(class: &str, tape: &[u8], _strict: bool) -> Outcome {
    let c = decode_case(class, tape);
    let mut classes: Vec<&'static str> = vec![];
    let from_pv = c.from.map(pv);
    let to_pv = pv(c.to);
    let from_epoch = match c.from {
        None => Some(2),
        Some(v) => epoch_of(v),
    };
    let to_epoch = epoch_of(c.to);
    let wf = decode_all(&c.input, Mode::Skip);

    let sv = sv_from_bytes(&c.input);
    // entry point 1: slice
    let r1 = match catch(|| aldrin_core::SerializedValueSlice::convert(&sv, from_pv, to_pv).map(|c| match c {
        Cow::Borrowed(b) => (true, b.to_vec()),
        Cow::Owned(o) => (false, o.to_vec()),
    })) {
        Ok(r) => r,
        Err(p) => vfail!(format!("panic:convert:{}", p.location()), "convert panicked: {}\ninput={}", p.0, hex(&c.input[..c.input.len().min(400)])),
    };
    // entry point 2: in place
    let mut sv2 = sv_from_bytes(&c.input);
    let r2 = match catch(|| sv2.convert(from_pv, to_pv)) {
        Ok(r) => r.map(|()| sv2.to_vec()),
        Err(p) => vfail!(format!("panic:convert-mut:{}", p.location()), "in-place convert panicked: {}", p.0),
    };
    // entry point 3: inside a message
    let r3 = if c.carrier < 14 {
        let kinds: Vec<u8> = LAYOUTS.iter().filter(|l| l.has_value).map(|l| l.kind).collect();
        let kind = kinds[c.carrier as usize % kinds.len()];
        let fields = default_fields(LAYOUTS[kind as usize].fields);
        let mut msg = match catch(|| build(&RMsg { kind, value: Some(c.input.clone()), fields })) {
            Ok(m) => m,
            Err(p) => vfail!("harness:build", "{}", p.0),
        };
        let r = match catch(|| msg.convert_value(from_pv, to_pv)) {
            Ok(r) => r,
            Err(p) => vfail!(format!("panic:convert-in-message:{}", p.location()), "convert_value panicked: {}", p.0),
        };
        Some(r.map(|()| msg.value().map(|v| v.to_vec())))
    } else {
        None
    };

    // the three entry points agree
    let e1 = r1.as_ref().map(|x| x.1.clone()).map_err(|e| *e);
    if e1 != r2 {
        vfail!("entry-points:differ", "slice convert = {:?}, in-place convert = {:?}", e1.as_ref().map(|b| hex(b)), r2.as_ref().map(|b| hex(b)));
    }
    if let Some(r3) = &r3 {
        let same = match (r3, &e1) {
            (Ok(Some(b)), Ok(a)) => a == b,
            (Ok(None), _) => false,
            (Err(x), Err(y)) => x == y,
            _ => false,
        };
        if !same {
            vfail!("entry-points:message-differs", "convert_value in message kind (carrier {}) = {:?}, slice convert = {:?}", c.carrier, r3.as_ref().map(|b| b.as_ref().map(|x| hex(x))), e1.as_ref().map(|b| hex(b)));
        }
    }

    let (fe, te) = match (from_epoch, to_epoch) {
        (Some(f), Some(t)) => (f, t),
        _ => {
            classes.push("invalid-version");
            match &r1 {
                Err(ValueConversionError::InvalidVersion) => {}
                other => vfail!(
                    "invalid-version:not-refused",
                    "from={:?} to={:?}: expected InvalidVersion, got {:?}",
                    c.from,
                    c.to,
                    other.as_ref().map(|x| hex(&x.1))
                ),
            }
            let mut key = c.input.clone();
            key.extend_from_slice(format!("{:?}{:?}", c.from, c.to).as_bytes());
            return Outcome::Pass(PassInfo { nontrivial: false, fp: fingerprint(&key), classes });
        }
    };

    let mut nontrivial = false;
    if te >= fe {
        classes.push("borrowed");
        match &r1 {
            Ok((true, b)) if *b == c.input => {}
            other => vfail!(
                "same-or-newer-epoch:not-unchanged",
                "from={:?} to={:?}: expected the input back unchanged (borrowed), got {:?}",
                c.from,
                c.to,
                other.as_ref().map(|x| (x.0, hex(&x.1)))
            ),
        }
    } else {
        match &wf {
            Ok(d) => {
                classes.push("converted");
                if d.saw_v2 {
                    nontrivial = true;
                    classes.push("had-new-epoch");
                }
                if d.max_depth == 32 && d.saw_v2 {
                    classes.push("depth32-new-epoch-bottom");
                }
                let out = match &r1 {
                    Ok((_, out)) => out,
                    Err(e) => vfail!(
                        "convert:rejects-wellformed",
                        "conversion of a well-formed value failed: {:?}\ninput={}",
                        e,
                        hex(&c.input[..c.input.len().min(400)])
                    ),
                };
                let od = match decode_all(out, Mode::Skip) {
                    Ok(o) => o,
                    Err(e) => vfail!("convert:output-malformed", "converted value is not well-formed: {:?}\ninput={}\noutput={}", e, hex(&c.input[..c.input.len().min(300)]), hex(&out[..out.len().min(300)])),
                };
                if sem(&od.tree) != sem(&d.tree) {
                    vfail!("convert:meaning-differs", "converted value means something else\ninput={}\noutput={}", hex(&c.input[..c.input.len().min(300)]), hex(&out[..out.len().min(300)]));
                }
                if has_v2(&od.tree) {
                    let mut ks = std::collections::BTreeSet::new();
                    kinds_used(&od.tree, &mut ks);
                    vfail!("convert:new-encoding-remains", "converted value still contains encodings introduced in 1.20: kinds {:?}\noutput={}", ks.iter().filter(|k| **k >= 43).collect::<Vec<_>>(), hex(&out[..out.len().min(300)]));
                }
                // converting twice equals converting once
                let svo = sv_from_bytes(out);
                match catch(|| aldrin_core::SerializedValueSlice::convert(&svo, from_pv, to_pv).map(|c| c.to_vec())) {
                    Ok(Ok(again)) => {
                        if &again != out {
                            vfail!("convert:not-idempotent", "second conversion changed the value\nonce ={}\ntwice={}", hex(&out[..out.len().min(300)]), hex(&again[..again.len().min(300)]));
                        }
                    }
                    Ok(Err(e)) => vfail!("convert:second-conversion-failed", "{:?}", e),
                    Err(p) => vfail!(format!("panic:convert:{}", p.location()), "{}", p.0),
                }
            }
            Err(_) => {
                classes.push("malformed-input");
                // nothing is demanded beyond: no panic (checked) and a clean result
                if let Ok((_, out)) = &r1 {
                    // whatever it returns must at least not be bigger than a small multiple of the input
                    if out.len() > 64 + 4 * c.input.len() {
                        vfail!("convert:malformed-output-blowup", "{} bytes out of {} bytes in", out.len(), c.input.len());
                    }
                }
            }
        }
    }
    let mut key = c.input.clone();
    key.extend_from_slice(format!("{:?}{:?}", c.from, c.to).as_bytes());
    Outcome::Pass(PassInfo { nontrivial, fp: fingerprint(&key), classes })
}

fn default_fields(fs: &[crate::refmsg::F]) -> Vec<RF> {
    fs.iter()
        .map(|f| match f {
            crate::refmsg::F::V => RF::V(VarInt { raw: 1, form: 0 }),
            crate::refmsg::F::U => RF::U([7; 16]),
            crate::refmsg::F::Alt(alts) => RF::Alt(0, default_fields(alts[0])),
        })
        .collect()
}

#[allow(dead_code)]
fn unused(_: SerializedValue) {}
