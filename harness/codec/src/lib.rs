#![allow(dead_code)]
pub mod alloc;
pub mod c01;
pub mod c07;
pub mod c08;
pub mod c13;
pub mod c14;
pub mod glue;
pub mod refcodec;
pub mod refmsg;
pub mod vgen;

pub fn defs() -> Vec<&'static vcommon::CheckDef> {
    vec![&c01::DEF, &c07::DEF, &c08::DEF, &c13::DEF, &c14::DEF]
}
