#![allow(dead_code)]
mod alloc;
mod c01;
mod c07;
mod c08;
mod c13;
mod c14;
mod glue;
mod refcodec;
mod refmsg;
mod vgen;

#[global_allocator]
static ALLOC: alloc::Counting = alloc::Counting;

fn main() {
    vcommon::main(&[&c01::DEF, &c07::DEF, &c08::DEF, &c13::DEF, &c14::DEF])
}
