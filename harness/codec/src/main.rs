#[global_allocator]
static ALLOC: codec::alloc::Counting = codec::alloc::Counting;

fn main() {
    vcommon::main(&codec::defs())
}
