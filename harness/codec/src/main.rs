#![allow(dead_code)]
mod alloc;
mod c01;
mod c07;
mod glue;
mod refcodec;
mod vgen;

#[global_allocator]
static ALLOC: alloc::Counting = alloc::Counting;

fn main() {
    vcommon::main(&[&c01::DEF, &c07::DEF])
}
