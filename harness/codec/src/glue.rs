//! Bridges between the reference world (RTree / Sem) and the crate's public API.

use crate::refcodec::*;
use aldrin_core::message::{Message, MessageOps, SendItem};
use aldrin_core::tags;
use aldrin_core::{
    Bytes, ChannelCookie, Enum, ObjectCookie, ObjectId, ObjectUuid, Serialize, SerializeError,
    SerializedValue, Serializer, ServiceCookie, ServiceId, ServiceUuid, Struct, Value,
};
use bytes::BytesMut;
use std::collections::{BTreeMap, BTreeSet, HashMap, HashSet};
use uuid::Uuid;

/// Builds a `SerializedValue` holding exactly `b`, the way untrusted bytes really enter the
/// system: as the payload of a received message frame. `b` must be non-empty.
pub fn sv_from_bytes(b: &[u8]) -> SerializedValue {
    assert!(!b.is_empty());
    let total = 4 + 1 + 4 + b.len() + 16;
    let mut f = Vec::with_capacity(total);
    f.extend_from_slice(&(total as u32).to_le_bytes());
    f.push(27); // SendItem
    f.extend_from_slice(&(b.len() as u32).to_le_bytes());
    f.extend_from_slice(b);
    f.extend_from_slice(&[0u8; 16]);
    let msg = SendItem::deserialize_message(BytesMut::from(&f[..]))
        .expect("harness: SendItem frame must parse");
    msg.value
}

pub fn frame_with_value(kind: u8, value: &[u8], tail: &[u8]) -> Vec<u8> {
    let total = 4 + 1 + 4 + value.len() + tail.len();
    let mut f = Vec::with_capacity(total);
    f.extend_from_slice(&(total as u32).to_le_bytes());
    f.push(kind);
    f.extend_from_slice(&(value.len() as u32).to_le_bytes());
    f.extend_from_slice(value);
    f.extend_from_slice(tail);
    f
}

pub fn message_from_frame(f: &[u8]) -> Result<Message, aldrin_core::message::MessageDeserializeError> {
    Message::deserialize_message(BytesMut::from(f))
}

macro_rules! keyed {
    ($kk:expr, $m:ident) => {
        match $kk {
            KeyKind::U8 => $m!(tags::U8, |k: &RKey| if let RKey::U8(x) = k { Ok(*x) } else { Err(bad()) }),
            KeyKind::I8 => $m!(tags::I8, |k: &RKey| if let RKey::I8(x) = k { Ok(*x) } else { Err(bad()) }),
            KeyKind::U16 => $m!(tags::U16, |k: &RKey| if let RKey::Int(x) = k { Ok(x.raw as u16) } else { Err(bad()) }),
            KeyKind::I16 => $m!(tags::I16, |k: &RKey| if let RKey::Int(x) = k { Ok(i16_of(x)) } else { Err(bad()) }),
            KeyKind::U32 => $m!(tags::U32, |k: &RKey| if let RKey::Int(x) = k { Ok(x.raw as u32) } else { Err(bad()) }),
            KeyKind::I32 => $m!(tags::I32, |k: &RKey| if let RKey::Int(x) = k { Ok(i32_of(x)) } else { Err(bad()) }),
            KeyKind::U64 => $m!(tags::U64, |k: &RKey| if let RKey::Int(x) = k { Ok(x.raw) } else { Err(bad()) }),
            KeyKind::I64 => $m!(tags::I64, |k: &RKey| if let RKey::Int(x) = k { Ok(i64_of(x)) } else { Err(bad()) }),
            KeyKind::String => $m!(tags::String, |k: &RKey| if let RKey::Str(_, b) = k {
                sstr(b).map(|s| s.to_string())
            } else {
                Err(bad())
            }),
            KeyKind::Uuid => $m!(tags::Uuid, |k: &RKey| if let RKey::Uuid(x) = k { Ok(u(x)) } else { Err(bad()) }),
        }
    };
}

fn u(a: &[u8; 16]) -> Uuid {
    Uuid::from_bytes(*a)
}

fn oid(a: &[u8; 32]) -> ObjectId {
    let mut x = [0u8; 16];
    let mut y = [0u8; 16];
    x.copy_from_slice(&a[..16]);
    y.copy_from_slice(&a[16..]);
    ObjectId::new(ObjectUuid(u(&x)), ObjectCookie(u(&y)))
}

fn sid(a: &[u8; 64]) -> ServiceId {
    let mut o = [0u8; 32];
    o.copy_from_slice(&a[..32]);
    let mut x = [0u8; 16];
    let mut y = [0u8; 16];
    x.copy_from_slice(&a[32..48]);
    y.copy_from_slice(&a[48..]);
    ServiceId::new(oid(&o), ServiceUuid(u(&x)), ServiceCookie(u(&y)))
}

fn i16_of(v: &VarInt) -> i16 {
    zigzag_dec(v.raw & 0xFFFF) as i16
}

fn i32_of(v: &VarInt) -> i32 {
    zigzag_dec(v.raw & 0xFFFF_FFFF) as i32
}

fn i64_of(v: &VarInt) -> i64 {
    zigzag_dec(v.raw)
}

fn key_str(k: &RKey) -> Option<String> {
    match k {
        RKey::Str(_, s) => String::from_utf8(s.clone()).ok(),
        _ => None,
    }
}

/// Converts a reference tree into the crate's dynamic `Value`. `None` if a string is not UTF-8.
/// Duplicate keys collapse (last wins), exactly as `sem` does.
pub fn to_value(t: &RTree) -> Option<Value> {
    Some(match t {
        RTree::None => Value::None,
        RTree::Some(x) => Value::Some(Box::new(to_value(x)?)),
        RTree::Bool(b) => Value::Bool(*b != 0),
        RTree::U8(v) => Value::U8(*v),
        RTree::I8(v) => Value::I8(*v),
        RTree::U16(v) => Value::U16(v.raw as u16),
        RTree::I16(v) => Value::I16(i16_of(v)),
        RTree::U32(v) => Value::U32(v.raw as u32),
        RTree::I32(v) => Value::I32(i32_of(v)),
        RTree::U64(v) => Value::U64(v.raw),
        RTree::I64(v) => Value::I64(i64_of(v)),
        RTree::F32(v) => Value::F32(f32::from_bits(*v)),
        RTree::F64(v) => Value::F64(f64::from_bits(*v)),
        RTree::String(_, s) => Value::String(String::from_utf8(s.clone()).ok()?),
        RTree::Uuid(a) => Value::Uuid(u(a)),
        RTree::ObjectId(a) => Value::ObjectId(oid(a)),
        RTree::ServiceId(a) => Value::ServiceId(sid(a)),
        RTree::Sender(a) => Value::Sender(ChannelCookie(u(a))),
        RTree::Receiver(a) => Value::Receiver(ChannelCookie(u(a))),
        RTree::Vec(_, _, v) => Value::Vec(v.iter().map(to_value).collect::<Option<Vec<_>>>()?),
        RTree::Bytes(_, chunks, _) => {
            let mut all = vec![];
            for (_, c) in chunks {
                all.extend_from_slice(c);
            }
            Value::Bytes(Bytes(all))
        }
        RTree::Map(kk, _, _, v) => {
            macro_rules! m {
                ($variant:ident, $conv:expr) => {{
                    let mut h = HashMap::new();
                    for (k, x) in v {
                        h.insert($conv(k)?, to_value(x)?);
                    }
                    Value::$variant(h)
                }};
            }
            match kk {
                KeyKind::U8 => m!(U8Map, |k: &RKey| if let RKey::U8(x) = k { Some(*x) } else { None }),
                KeyKind::I8 => m!(I8Map, |k: &RKey| if let RKey::I8(x) = k { Some(*x) } else { None }),
                KeyKind::U16 => m!(U16Map, |k: &RKey| if let RKey::Int(x) = k { Some(x.raw as u16) } else { None }),
                KeyKind::I16 => m!(I16Map, |k: &RKey| if let RKey::Int(x) = k { Some(i16_of(x)) } else { None }),
                KeyKind::U32 => m!(U32Map, |k: &RKey| if let RKey::Int(x) = k { Some(x.raw as u32) } else { None }),
                KeyKind::I32 => m!(I32Map, |k: &RKey| if let RKey::Int(x) = k { Some(i32_of(x)) } else { None }),
                KeyKind::U64 => m!(U64Map, |k: &RKey| if let RKey::Int(x) = k { Some(x.raw) } else { None }),
                KeyKind::I64 => m!(I64Map, |k: &RKey| if let RKey::Int(x) = k { Some(i64_of(x)) } else { None }),
                KeyKind::String => m!(StringMap, key_str),
                KeyKind::Uuid => m!(UuidMap, |k: &RKey| if let RKey::Uuid(x) = k { Some(u(x)) } else { None }),
            }
        }
        RTree::Set(kk, _, _, v) => {
            macro_rules! s {
                ($variant:ident, $conv:expr) => {{
                    let mut h = HashSet::new();
                    for k in v {
                        h.insert($conv(k)?);
                    }
                    Value::$variant(h)
                }};
            }
            match kk {
                KeyKind::U8 => s!(U8Set, |k: &RKey| if let RKey::U8(x) = k { Some(*x) } else { None }),
                KeyKind::I8 => s!(I8Set, |k: &RKey| if let RKey::I8(x) = k { Some(*x) } else { None }),
                KeyKind::U16 => s!(U16Set, |k: &RKey| if let RKey::Int(x) = k { Some(x.raw as u16) } else { None }),
                KeyKind::I16 => s!(I16Set, |k: &RKey| if let RKey::Int(x) = k { Some(i16_of(x)) } else { None }),
                KeyKind::U32 => s!(U32Set, |k: &RKey| if let RKey::Int(x) = k { Some(x.raw as u32) } else { None }),
                KeyKind::I32 => s!(I32Set, |k: &RKey| if let RKey::Int(x) = k { Some(i32_of(x)) } else { None }),
                KeyKind::U64 => s!(U64Set, |k: &RKey| if let RKey::Int(x) = k { Some(x.raw) } else { None }),
                KeyKind::I64 => s!(I64Set, |k: &RKey| if let RKey::Int(x) = k { Some(i64_of(x)) } else { None }),
                KeyKind::String => s!(StringSet, key_str),
                KeyKind::Uuid => s!(UuidSet, |k: &RKey| if let RKey::Uuid(x) = k { Some(u(x)) } else { None }),
            }
        }
        RTree::Struct(_, _, v) => {
            let mut h = HashMap::new();
            for (id, x) in v {
                h.insert(id.raw as u32, to_value(x)?);
            }
            Value::Struct(Struct(h))
        }
        RTree::Enum(id, x) => Value::Enum(Box::new(Enum::new(id.raw as u32, to_value(x)?))),
    })
}

fn oid_bytes(o: &ObjectId) -> [u8; 32] {
    let mut a = [0u8; 32];
    a[..16].copy_from_slice(o.uuid.0.as_bytes());
    a[16..].copy_from_slice(o.cookie.0.as_bytes());
    a
}

/// Meaning of the crate's dynamic value, in the reference's terms. Never uses `Value`'s PartialEq.
pub fn sem_of_value(v: &Value) -> Sem {
    macro_rules! m {
        ($h:expr, $kk:ident, $f:expr) => {{
            let mut b = BTreeMap::new();
            for (k, x) in $h {
                b.insert($f(k), sem_of_value(x));
            }
            Sem::Map(KeyKind::$kk, b)
        }};
    }
    macro_rules! s {
        ($h:expr, $kk:ident, $f:expr) => {{
            let mut b = BTreeSet::new();
            for k in $h {
                b.insert($f(k));
            }
            Sem::Set(KeyKind::$kk, b)
        }};
    }
    match v {
        Value::None => Sem::None,
        Value::Some(x) => Sem::Some(Box::new(sem_of_value(x))),
        Value::Bool(b) => Sem::Bool(*b),
        Value::U8(x) => Sem::U8(*x),
        Value::I8(x) => Sem::I8(*x),
        Value::U16(x) => Sem::U16(*x),
        Value::I16(x) => Sem::I16(*x),
        Value::U32(x) => Sem::U32(*x),
        Value::I32(x) => Sem::I32(*x),
        Value::U64(x) => Sem::U64(*x),
        Value::I64(x) => Sem::I64(*x),
        Value::F32(x) => Sem::F32(x.to_bits()),
        Value::F64(x) => Sem::F64(x.to_bits()),
        Value::String(s) => Sem::Str(s.as_bytes().to_vec()),
        Value::Uuid(x) => Sem::Uuid(*x.as_bytes()),
        Value::ObjectId(o) => Sem::ObjectId(oid_bytes(o)),
        Value::ServiceId(s) => {
            let mut a = [0u8; 64];
            a[..32].copy_from_slice(&oid_bytes(&s.object_id));
            a[32..48].copy_from_slice(s.uuid.0.as_bytes());
            a[48..].copy_from_slice(s.cookie.0.as_bytes());
            Sem::ServiceId(a)
        }
        Value::Vec(v) => Sem::Vec(v.iter().map(sem_of_value).collect()),
        Value::Bytes(b) => Sem::Bytes(b.0.clone()),
        Value::U8Map(h) => m!(h, U8, |k: &u8| SemKey::U8(*k)),
        Value::I8Map(h) => m!(h, I8, |k: &i8| SemKey::I8(*k)),
        Value::U16Map(h) => m!(h, U16, |k: &u16| SemKey::U16(*k)),
        Value::I16Map(h) => m!(h, I16, |k: &i16| SemKey::I16(*k)),
        Value::U32Map(h) => m!(h, U32, |k: &u32| SemKey::U32(*k)),
        Value::I32Map(h) => m!(h, I32, |k: &i32| SemKey::I32(*k)),
        Value::U64Map(h) => m!(h, U64, |k: &u64| SemKey::U64(*k)),
        Value::I64Map(h) => m!(h, I64, |k: &i64| SemKey::I64(*k)),
        Value::StringMap(h) => m!(h, String, |k: &String| SemKey::Str(k.as_bytes().to_vec())),
        Value::UuidMap(h) => m!(h, Uuid, |k: &Uuid| SemKey::Uuid(*k.as_bytes())),
        Value::U8Set(h) => s!(h, U8, |k: &u8| SemKey::U8(*k)),
        Value::I8Set(h) => s!(h, I8, |k: &i8| SemKey::I8(*k)),
        Value::U16Set(h) => s!(h, U16, |k: &u16| SemKey::U16(*k)),
        Value::I16Set(h) => s!(h, I16, |k: &i16| SemKey::I16(*k)),
        Value::U32Set(h) => s!(h, U32, |k: &u32| SemKey::U32(*k)),
        Value::I32Set(h) => s!(h, I32, |k: &i32| SemKey::I32(*k)),
        Value::U64Set(h) => s!(h, U64, |k: &u64| SemKey::U64(*k)),
        Value::I64Set(h) => s!(h, I64, |k: &i64| SemKey::I64(*k)),
        Value::StringSet(h) => s!(h, String, |k: &String| SemKey::Str(k.as_bytes().to_vec())),
        Value::UuidSet(h) => s!(h, Uuid, |k: &Uuid| SemKey::Uuid(*k.as_bytes())),
        Value::Struct(s) => {
            let mut b = BTreeMap::new();
            for (k, x) in &s.0 {
                b.insert(*k, sem_of_value(x));
            }
            Sem::Struct(b)
        }
        Value::Enum(e) => Sem::Enum(e.id, Box::new(sem_of_value(&e.value))),
        Value::Sender(c) => Sem::Sender(*c.0.as_bytes()),
        Value::Receiver(c) => Sem::Receiver(*c.0.as_bytes()),
    }
}

/// Drives the crate's public `Serializer` API from a reference tree, choosing the legacy
/// (`*1`) or current (`*2`) container serializers per node as the tree says. Varint forms and
/// bool bytes are the crate's business; only structure, epochs, and chunking come from the tree.
pub struct Walk<'a>(pub &'a RTree);

impl aldrin_core::tags::PrimaryTag for Walk<'_> {
    type Tag = tags::Value;
}

impl Serialize<tags::Value> for Walk<'_> {
    fn serialize(self, s: Serializer) -> Result<(), SerializeError> {
        walk(self.0, s)
    }
}

fn sstr(b: &[u8]) -> Result<&str, SerializeError> {
    std::str::from_utf8(b).map_err(|_| SerializeError::UnexpectedValue)
}

fn walk(t: &RTree, s: Serializer) -> Result<(), SerializeError> {
    match t {
        RTree::None => s.serialize_none(),
        RTree::Some(x) => s.serialize_some::<tags::Value>(Walk(x)),
        RTree::Bool(b) => s.serialize_bool(*b != 0),
        RTree::U8(v) => s.serialize_u8(*v),
        RTree::I8(v) => s.serialize_i8(*v),
        RTree::U16(v) => s.serialize_u16(v.raw as u16),
        RTree::I16(v) => s.serialize_i16(i16_of(v)),
        RTree::U32(v) => s.serialize_u32(v.raw as u32),
        RTree::I32(v) => s.serialize_i32(i32_of(v)),
        RTree::U64(v) => s.serialize_u64(v.raw),
        RTree::I64(v) => s.serialize_i64(i64_of(v)),
        RTree::F32(v) => s.serialize_f32(f32::from_bits(*v)),
        RTree::F64(v) => s.serialize_f64(f64::from_bits(*v)),
        RTree::String(_, b) => s.serialize_string(sstr(b)?),
        RTree::Uuid(a) => s.serialize_uuid(u(a)),
        RTree::ObjectId(a) => s.serialize_object_id(oid(a)),
        RTree::ServiceId(a) => s.serialize_service_id(sid(a)),
        RTree::Sender(a) => s.serialize_sender(ChannelCookie(u(a))),
        RTree::Receiver(a) => s.serialize_receiver(ChannelCookie(u(a))),
        RTree::Vec(Epoch::V1, _, v) => {
            let mut vs = s.serialize_vec1(v.len())?;
            for x in v {
                vs.serialize::<tags::Value>(Walk(x))?;
            }
            vs.finish()
        }
        RTree::Vec(Epoch::V2, _, v) => {
            let mut vs = s.serialize_vec2()?;
            for x in v {
                vs.serialize::<tags::Value>(Walk(x))?;
            }
            vs.finish()
        }
        RTree::Bytes(Epoch::V1, chunks, _) => {
            let total: usize = chunks.iter().map(|c| c.1.len()).sum();
            let mut bs = s.serialize_bytes1(total)?;
            for (_, c) in chunks {
                bs.serialize(c)?;
            }
            bs.finish()
        }
        RTree::Bytes(Epoch::V2, chunks, _) => {
            let mut bs = s.serialize_bytes2()?;
            for (_, c) in chunks {
                bs.serialize(c)?;
            }
            bs.finish()
        }
        RTree::Map(kk, e, _, v) => {
            macro_rules! m {
                ($tag:ty, $conv:expr) => {{
                    match e {
                        Epoch::V1 => {
                            let mut ms = s.serialize_map1::<$tag>(v.len())?;
                            for (k, x) in v {
                                let key = $conv(k)?;
                                ms.serialize::<tags::Value>(&key, Walk(x))?;
                            }
                            ms.finish()
                        }
                        Epoch::V2 => {
                            let mut ms = s.serialize_map2::<$tag>()?;
                            for (k, x) in v {
                                let key = $conv(k)?;
                                ms.serialize::<tags::Value>(&key, Walk(x))?;
                            }
                            ms.finish()
                        }
                    }
                }};
            }
            keyed!(kk, m)
        }
        RTree::Set(kk, e, _, v) => {
            macro_rules! st {
                ($tag:ty, $conv:expr) => {{
                    match e {
                        Epoch::V1 => {
                            let mut ss = s.serialize_set1::<$tag>(v.len())?;
                            for k in v {
                                let key = $conv(k)?;
                                ss.serialize(&key)?;
                            }
                            ss.finish()
                        }
                        Epoch::V2 => {
                            let mut ss = s.serialize_set2::<$tag>()?;
                            for k in v {
                                let key = $conv(k)?;
                                ss.serialize(&key)?;
                            }
                            ss.finish()
                        }
                    }
                }};
            }
            keyed!(kk, st)
        }
        RTree::Struct(Epoch::V1, _, v) => {
            let mut ss = s.serialize_struct1(v.len())?;
            for (id, x) in v {
                ss.serialize::<tags::Value>(id.raw as u32, Walk(x))?;
            }
            ss.finish()
        }
        RTree::Struct(Epoch::V2, _, v) => {
            let mut ss = s.serialize_struct2()?;
            for (id, x) in v {
                ss.serialize::<tags::Value>(id.raw as u32, Walk(x))?;
            }
            ss.finish()
        }
        RTree::Enum(id, x) => s.serialize_enum::<tags::Value>(id.raw as u32, Walk(x)),
    }
}

fn bad() -> SerializeError {
    SerializeError::UnexpectedValue
}



/// Serialize a reference tree through the crate's public Serializer API.
pub fn serialize_walk(t: &RTree) -> Result<SerializedValue, SerializeError> {
    SerializedValue::serialize_as::<tags::Value>(Walk(t))
}
