//! C01 Value codec round-trip and nesting limit.

use crate::glue::*;
use crate::refcodec::*;
use crate::vgen::*;
use aldrin_core::{DeserializeError, SerializeError, SerializedValue};
use vcommon::vfail;
use vcommon::{fingerprint, on_thread, CheckDef, ClassPlan, Outcome, PassInfo, Tape, Tier};

const STACK: usize = 1 << 20;

pub static DEF: CheckDef = CheckDef {
    id: "C01",
    level: "exploration",
    rule: "Cases are Value trees decoded from a proptest-generated entropy tape (all 43 kinds, boundary-pool integers, NaN payloads, strings up to 70k, containers up to 300 elements, chains of 1..40 nesting steps over every nesting kind), each serialized in one of three encodings (current; legacy via Serializer::serialize_*1; per-container mix). A case is non-trivial if it contains a container, a multi-byte varint, a non-canonical float or has depth >= 30; distinct = distinct encoded bytes + encoding mode. Adversarial class: 10^4..10^6 nested openers on a 1 MiB stack.",
    assumptions: &[
        "refcodec (harness/codec/src/refcodec.rs) states the wire format; it is pinned to upstream's golden vectors by the selftest",
        "every case runs on a 1 MiB thread stack in a worker subprocess; death of the worker is reported as a violation",
    ],
    plan,
    case,
    render,
    crashy: true,
    floors: &[("nontrivial:roundtrip", 0.15), ("depth>=30", 0.015), ("too-deep", 0.02), ("enc:legacy", 0.08), ("enc:mixed", 0.08)],
    extra: None,
    extra_coverage: None,
};

fn plan(t: Tier) -> Vec<ClassPlan> {
    let k = match t {
        Tier::Quick => 1,
        Tier::Thorough => 20,
    };
    vec![
        ClassPlan { class: "roundtrip", cases: 30_000 * k, min_len: 0, max_len: 600 },
        ClassPlan { class: "depthchain", cases: 20_000 * k, min_len: 4, max_len: 300 },
        ClassPlan { class: "adversarial", cases: 320 * k, min_len: 4, max_len: 12 },
    ]
}

#[derive(Clone, Copy, Debug, PartialEq, Eq)]
enum Enc {
    Current,
    Legacy,
    Mixed,
}

struct RtCase {
    enc: Enc,
    tree: RTree,
}

fn decode_rt(class: &str, tape: &[u8]) -> RtCase {
    let mut t = Tape::new(tape);
    let enc = match t.below(3) {
        0 => Enc::Current,
        1 => Enc::Legacy,
        _ => Enc::Mixed,
    };
    let policy = match enc {
        Enc::Current => EpochPolicy::V2,
        Enc::Legacy => EpochPolicy::V1,
        Enc::Mixed => EpochPolicy::Mixed,
    };
    let mut cfg = GenCfg::canonical(policy);
    let tree = if class == "depthchain" {
        // half of the chains sit on the boundary 31..=34, the others anywhere in 1..=40
        let d = if t.chance(128) { 31 + t.below(4) as u32 } else { t.range(1, 40) as u32 };
        cfg.max_depth = 40;
        let mut g = Gen::new(&mut t, cfg);
        g.depth_chain(d)
    } else {
        let dl = match t.below(4) {
            0 => 2,
            1 => 4,
            2 => 8,
            _ => 32,
        };
        let mut g = Gen::new(&mut t, cfg);
        g.value(dl)
    };
    RtCase { enc, tree }
}

fn render(class: &str, tape: &[u8]) -> String {
    if class == "adversarial" {
        let (shape, n, inner) = decode_adv(tape);
        return format!("adversarial: {} x {} nested openers around {:?}", n, shape, inner);
    }
    let c = decode_rt(class, tape);
    let enc = encode(&c.tree);
    let mut s = format!(
        "enc={:?} depth={} ref_bytes({})={}",
        c.enc,
        depth(&c.tree),
        enc.len(),
        vcommon::hex(&enc[..enc.len().min(200)])
    );
    let dbg = format!("{:?}", c.tree);
    s.push_str("\ntree=");
    s.push_str(&dbg.chars().take(900).collect::<String>());
    s
}

fn nontrivial(t: &RTree) -> bool {
    fn walk(t: &RTree) -> bool {
        match t {
            RTree::Some(x) | RTree::Enum(_, x) => walk(x) || matches!(**x, RTree::Vec(..)),
            RTree::Vec(..) | RTree::Map(..) | RTree::Set(..) | RTree::Struct(..) | RTree::Bytes(..) => true,
            RTree::U16(v) | RTree::I16(v) | RTree::U32(v) | RTree::I32(v) | RTree::U64(v) | RTree::I64(v) => v.form > 0,
            RTree::String(l, _) => l.form > 0,
            RTree::F32(b) => {
                let f = f32::from_bits(*b);
                f.is_nan() || f.is_infinite() || (f != 0.0 && !f.is_normal()) || *b == 0x8000_0000
            }
            RTree::F64(b) => {
                let f = f64::from_bits(*b);
                f.is_nan() || f.is_infinite() || (f != 0.0 && !f.is_normal()) || *b == 0x8000_0000_0000_0000
            }
            _ => false,
        }
    }
    walk(t) || depth(t) >= 30
}

fn case(class: &str, tape: &[u8], _strict: bool) -> Outcome {
    let class = class.to_string();
    let tape = tape.to_vec();
    match on_thread(STACK, move || {
        if class == "adversarial" {
            adversarial(&tape)
        } else {
            roundtrip(&class, &tape)
        }
    }) {
        Ok(o) => o,
        Err(_) => {
            let p = vcommon::last_panic_any_thread();
            Outcome::fail(format!("panic:{}", p.location()), format!("panic: {}", p.0))
        }
    }
}

fn ser(c: &RtCase) -> Result<SerializedValue, SerializeError> {
    match c.enc {
        Enc::Current => {
            let v = to_value(&c.tree).expect("generator yields valid UTF-8");
            SerializedValue::serialize(&v)
        }
        Enc::Legacy | Enc::Mixed => serialize_walk(&c.tree),
    }
}

fn roundtrip(class: &str, tape: &[u8]) -> Outcome {
    let c = decode_rt(class, tape);
    let d = depth(&c.tree);
    let want = sem(&c.tree);
    let mut classes: Vec<&'static str> = vec![match c.enc {
        Enc::Current => "enc:current",
        Enc::Legacy => "enc:legacy",
        Enc::Mixed => "enc:mixed",
    }];
    if d >= 30 && d <= 32 {
        classes.push("depth>=30");
    }
    if d == 32 {
        classes.push("depth=32");
    }
    if d == 33 {
        classes.push("depth=33");
    }

    if d > MAX_DEPTH {
        classes.push("too-deep");
        // serialization must report the nesting error
        match ser(&c) {
            Err(SerializeError::TooDeeplyNested) => {}
            other => vfail!(
                "too-deep:serialize-accepted",
                "depth {} value: serialize returned {:?}",
                d,
                other.map(|s| s.len())
            ),
        }
        // and, symmetrically, deserialization of the same tree encoded without a limit
        let bytes = encode(&c.tree);
        let sv = sv_from_bytes(&bytes);
        match sv.deserialize_as_value() {
            Err(DeserializeError::TooDeeplyNested) => {}
            other => vfail!(
                "too-deep:deserialize",
                "depth {} value ({} bytes): deserialize_as_value returned {:?}",
                d,
                bytes.len(),
                other.map(|_| "Ok")
            ),
        }
        // the skip path too
        match sv.deserialize::<SerializedValue>() {
            Err(DeserializeError::TooDeeplyNested) => {}
            other => vfail!(
                "too-deep:skip",
                "depth {} value: splitting off as opaque value returned {:?}",
                d,
                other.map(|_| "Ok")
            ),
        }
        let fp = fingerprint(&bytes);
        return Outcome::Pass(PassInfo { nontrivial: true, fp, classes });
    }

    let sv = match ser(&c) {
        Ok(s) => s,
        Err(e) => vfail!("serialize-failed", "depth {} value failed to serialize: {:?}", d, e),
    };
    let bytes: Vec<u8> = sv.to_vec();

    // the bytes mean the value, according to the format
    let dec = match decode_all(&bytes, Mode::Strict) {
        Ok(d) => d,
        Err(e) => vfail!(
            "serialize:reference-rejects",
            "reference decoder rejects serializer output: {:?}; bytes={}",
            e,
            vcommon::hex(&bytes[..bytes.len().min(300)])
        ),
    };
    if sem(&dec.tree) != want {
        vfail!(
            "serialize:meaning-differs",
            "serialized bytes decode (reference) to a different value\nwant={:?}\n got={:?}",
            trunc(&want),
            trunc(&sem(&dec.tree))
        );
    }
    match c.enc {
        Enc::Legacy if has_v2(&dec.tree) => vfail!(
            "serialize:legacy-uses-new-kind",
            "legacy serializers emitted an epoch-2 container: {}",
            vcommon::hex(&bytes[..bytes.len().min(300)])
        ),
        Enc::Current if dec.saw_v1 => vfail!(
            "serialize:current-uses-legacy-kind",
            "Value serialization emitted a legacy container: {}",
            vcommon::hex(&bytes[..bytes.len().min(300)])
        ),
        _ => {}
    }

    // deserializing yields an equal value and consumes everything
    match sv.deserialize_as_value() {
        Ok(v) => {
            let got = sem_of_value(&v);
            if got != want {
                vfail!(
                    "roundtrip:value-differs",
                    "deserialize(serialize(v)) != v\nwant={:?}\n got={:?}",
                    trunc(&want),
                    trunc(&got)
                );
            }
        }
        Err(e) => vfail!(
            "roundtrip:deserialize-failed",
            "deserialize_as_value failed with {:?} on serializer output (depth {}), bytes={}",
            e,
            d,
            vcommon::hex(&bytes[..bytes.len().min(300)])
        ),
    }
    // one more byte => trailing data
    let mut longer = bytes.clone();
    longer.push(tape.first().copied().unwrap_or(0));
    match sv_from_bytes(&longer).deserialize_as_value() {
        Err(DeserializeError::TrailingData) => {}
        other => vfail!(
            "roundtrip:trailing-byte-accepted",
            "value + 1 byte: expected TrailingData, got {:?}",
            other.map(|_| "Ok")
        ),
    }
    // one byte less => error
    if bytes.len() > 1 {
        let shorter = &bytes[..bytes.len() - 1];
        if sv_from_bytes(shorter).deserialize_as_value().is_ok() {
            vfail!("roundtrip:truncated-accepted", "value minus its last byte still decodes");
        }
    }
    // reference encoding of the same tree (possibly with other epoch choices) decodes equal too
    let refbytes = encode(&c.tree);
    if refbytes != bytes {
        match sv_from_bytes(&refbytes).deserialize_as_value() {
            Ok(v) => {
                if sem_of_value(&v) != want {
                    vfail!("roundtrip:refbytes-value-differs", "reference encoding decodes to another value");
                }
            }
            Err(e) => vfail!(
                "roundtrip:refbytes-rejected",
                "reference encoding of a depth {} value rejected: {:?}; bytes={}",
                d,
                e,
                vcommon::hex(&refbytes[..refbytes.len().min(300)])
            ),
        }
    }
    let mut key = bytes.clone();
    key.push(c.enc as u8);
    Outcome::Pass(PassInfo { nontrivial: nontrivial(&c.tree), fp: fingerprint(&key), classes })
}

fn trunc<T: std::fmt::Debug>(x: &T) -> String {
    let s = format!("{:?}", x);
    if s.len() > 700 {
        let mut cut = 700;
        while !s.is_char_boundary(cut) {
            cut -= 1;
        }
        format!("{}...", &s[..cut])
    } else {
        s
    }
}

fn decode_adv(tape: &[u8]) -> (&'static str, usize, u8) {
    let mut t = Tape::new(tape);
    let shape = *t.pick(&["some", "vec2", "vec1", "enum", "struct2", "struct1", "u8map2", "u8map1", "strmap1", "mixed"]);
    let n = match t.below(3) {
        0 => t.range(33, 100),
        1 => t.range(10_000, 100_000),
        _ => t.range(100_000, 1_000_000),
    };
    let inner = t.below(4) as u8;
    (shape, n, inner)
}

fn opener(shape: &str, i: usize, out: &mut Vec<u8>) {
    match shape {
        "some" => out.push(K_SOME),
        "vec2" => out.extend_from_slice(&[K_VEC2, K_SOME]),
        "vec1" => out.extend_from_slice(&[K_VEC1, 1]),
        "enum" => out.extend_from_slice(&[K_ENUM, 0]),
        "struct2" => out.extend_from_slice(&[K_STRUCT2, K_SOME, 0]),
        "struct1" => out.extend_from_slice(&[K_STRUCT1, 1, 0]),
        "u8map2" => out.extend_from_slice(&[K_MAP2_BASE, K_SOME, 7]),
        "u8map1" => out.extend_from_slice(&[K_MAP1_BASE, 1, 7]),
        "strmap1" => out.extend_from_slice(&[K_MAP1_BASE + 8, 1, 1, b'k']),
        _ => {
            const ALL: [&str; 9] = ["some", "vec2", "vec1", "enum", "struct2", "struct1", "u8map2", "u8map1", "strmap1"];
            opener(ALL[i % ALL.len()], i, out)
        }
    }
}

fn adversarial(tape: &[u8]) -> Outcome {
    let (shape, n, inner) = decode_adv(tape);
    let mut bytes = Vec::with_capacity(n * 4 + 8);
    for i in 0..n {
        opener(shape, i, &mut bytes);
    }
    match inner {
        0 => bytes.push(K_NONE),
        1 => bytes.extend_from_slice(&[K_U8, 1]),
        2 => {} // truncated: no leaf at all
        _ => bytes.extend_from_slice(&[K_VEC2, K_NONE]),
    }
    // (closers are irrelevant: decoding must stop at level 33 long before)
    let sv = sv_from_bytes(&bytes);
    match sv.deserialize_as_value() {
        Err(DeserializeError::TooDeeplyNested) => {}
        other => vfail!(
            "adversarial:deserialize",
            "{} x {}: expected TooDeeplyNested, got {:?}",
            n,
            shape,
            other.map(|_| "Ok")
        ),
    }
    match sv.deserialize::<SerializedValue>() {
        Err(DeserializeError::TooDeeplyNested) => {}
        other => vfail!(
            "adversarial:skip",
            "{} x {}: skip path expected TooDeeplyNested, got {:?}",
            n,
            shape,
            other.map(|_| "Ok")
        ),
    }
    // reference agrees that this is a depth error
    match decode(&bytes, Mode::Strict) {
        Err(RefError::TooDeep(_)) => {}
        other => vfail!("harness:adversarial-reference", "reference says {:?}", other.map(|_| "Ok")),
    }
    let mut key = shape.as_bytes().to_vec();
    key.extend_from_slice(&(n as u64).to_le_bytes());
    key.push(inner);
    Outcome::Pass(PassInfo {
        nontrivial: true,
        fp: fingerprint(&key),
        classes: vec!["adversarial", if n >= 100_000 { "adversarial>=1e5" } else { "adversarial<1e5" }],
    })
}
