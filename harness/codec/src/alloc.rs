//! Counting global allocator: live bytes, peak since the last mark, largest single request.

use std::alloc::{GlobalAlloc, Layout, System};
use std::sync::atomic::{AtomicUsize, Ordering::Relaxed};

pub struct Counting;

static LIVE: AtomicUsize = AtomicUsize::new(0);
static PEAK: AtomicUsize = AtomicUsize::new(0);
static LARGEST: AtomicUsize = AtomicUsize::new(0);

const HUGE: usize = 1 << 30;

unsafe impl GlobalAlloc for Counting {
    unsafe fn alloc(&self, l: Layout) -> *mut u8 {
        note(l.size());
        let p = System.alloc(l);
        if !p.is_null() {
            add(l.size());
        }
        p
    }

    unsafe fn dealloc(&self, p: *mut u8, l: Layout) {
        System.dealloc(p, l);
        LIVE.fetch_sub(l.size(), Relaxed);
    }

    unsafe fn alloc_zeroed(&self, l: Layout) -> *mut u8 {
        note(l.size());
        let p = System.alloc_zeroed(l);
        if !p.is_null() {
            add(l.size());
        }
        p
    }

    unsafe fn realloc(&self, p: *mut u8, l: Layout, new: usize) -> *mut u8 {
        note(new);
        let q = System.realloc(p, l, new);
        if !q.is_null() {
            LIVE.fetch_sub(l.size(), Relaxed);
            add(new);
        }
        q
    }
}

fn note(size: usize) {
    LARGEST.fetch_max(size, Relaxed);
    if size >= HUGE {
        // a single request of a gibibyte or more for a small input: make it visible even if the
        // process survives
        LARGEST.fetch_max(size, Relaxed);
    }
}

fn add(size: usize) {
    let live = LIVE.fetch_add(size, Relaxed) + size;
    PEAK.fetch_max(live, Relaxed);
}

/// Starts a measurement; returns the baseline.
pub fn mark() -> usize {
    let live = LIVE.load(Relaxed);
    PEAK.store(live, Relaxed);
    LARGEST.store(0, Relaxed);
    live
}

/// Peak live bytes above the baseline since `mark`, and the largest single request.
pub fn measure(base: usize) -> (usize, usize) {
    (PEAK.load(Relaxed).saturating_sub(base), LARGEST.load(Relaxed))
}
