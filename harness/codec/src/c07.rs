//! C07 Decoding untrusted bytes is total; skipping agrees with decoding.

use crate::alloc;
use crate::glue::*;
use crate::refcodec::*;
use crate::vgen::*;
use aldrin_core::tags;
use aldrin_core::{
    Deserialize, DeserializeError, Deserializer, Serialize, SerializeError, SerializedValue,
    Serializer, UnknownFields, UnknownVariant, ValueKind,
};
use vcommon::{catch, fingerprint, hex, CheckDef, ClassPlan, Outcome, PassInfo, Tape, Tier};

pub static DEF: CheckDef = CheckDef {
    id: "C07",
    level: "exploration",
    rule: "Inputs are byte strings decoded from a proptest-generated tape: (random) bytes biased to valid kind bytes; (valid) reference encodings of generated trees incl. mixed epochs, non-canonical varints, odd bool bytes, duplicate keys, chunked byte strings and invalid UTF-8, plus every proper prefix when <= 64 bytes; (mutated) 1-3 byte-level mutations of those. Each input is checked bare (level 1) and wrapped inside vectors/structs/enums (level 2). Non-trivial = the reference decoder accepts the input or rejects it at an offset >= 2; distinct = distinct input bytes.",
    assumptions: &[
        "refcodec states the wire format (strict mode = full decode, skip mode = no UTF-8 validation); pinned to upstream's golden vectors by the selftest",
        "allocation bound: peak live bytes during one decode <= 64 KiB + 512 * len(input), measured with a counting global allocator",
        "out-of-bounds reads are only visible through the sanitizer-built fuzz target (thorough tier) since aldrin-core's decoding path is safe Rust",
    ],
    plan,
    case,
    render,
    crashy: true,
    floors: &[("ref-accepts", 0.15), ("ref-rejects-deep", 0.10), ("utf8-only-defect", 0.002), ("varint-key-multibyte", 0.01)],
    extra: None,
    extra_coverage: None,
};

fn plan(t: Tier) -> Vec<ClassPlan> {
    let k = match t {
        Tier::Quick => 4,
        Tier::Thorough => 120,
    };
    vec![
        ClassPlan { class: "random", cases: 12_000 * k, min_len: 0, max_len: 80 },
        ClassPlan { class: "valid", cases: 14_000 * k, min_len: 0, max_len: 400 },
        ClassPlan { class: "mutated", cases: 20_000 * k, min_len: 0, max_len: 400 },
    ]
}

pub fn input_of(class: &str, tape: &[u8]) -> Vec<u8> {
    let mut t = Tape::new(tape);
    match class {
        "random" => random_bytes(&mut t),
        "bytes" => tape.to_vec(),
        _ => {
            let mut cfg = GenCfg::wild();
            cfg.big = false;
            cfg.max_nodes = 60;
            let dl = match t.below(4) {
                0 => 1,
                1 => 3,
                2 => 6,
                _ => 31,
            };
            let tree = if t.chance(30) {
                let d = t.range(28, 34) as u32;
                cfg.max_depth = 40;
                Gen::new(&mut t, cfg).depth_chain(d)
            } else {
                Gen::new(&mut t, cfg).value(dl)
            };
            let enc = encode(&tree);
            if class == "mutated" {
                mutate(&enc, &mut t)
            } else {
                enc
            }
        }
    }
}

fn render(class: &str, tape: &[u8]) -> String {
    let b = input_of(class, tape);
    let r = decode(&b, Mode::Skip);
    format!(
        "input({})={}\nreference(skip)={}",
        b.len(),
        hex(&b[..b.len().min(400)]),
        match r {
            Ok(d) => format!("accepts {} bytes: {}", d.consumed, format!("{:?}", d.tree).chars().take(600).collect::<String>()),
            Err(e) => format!("{:?}", e),
        }
    )
}

fn case(class: &str, tape: &[u8], _strict: bool) -> Outcome {
    let b = input_of(class, tape);
    let mut classes: Vec<&'static str> = vec![];
    let mut nontrivial = false;
    match check_input(&b, &mut classes, &mut nontrivial) {
        Some(f) => return f,
        None => {}
    }
    if class == "valid" && b.len() <= 64 {
        // systematic truncation
        for n in 1..b.len() {
            let mut c2 = vec![];
            let mut nt = false;
            if let Some(f) = check_input(&b[..n], &mut c2, &mut nt) {
                return f;
            }
        }
        classes.push("all-prefixes");
    }
    Outcome::Pass(PassInfo { nontrivial, fp: fingerprint(&b), classes })
}

/// Measures the length of the value via Deserializer::len and then skips it.
struct LenProbe(usize);

impl Deserialize<tags::Value> for LenProbe {
    fn deserialize(d: Deserializer) -> Result<Self, DeserializeError> {
        let n = d.len()?;
        d.skip()?;
        Ok(LenProbe(n))
    }
}

struct HolderTag;
impl tags::Tag for HolderTag {}

/// A hand-written struct with one known field and the fallback for unknown fields, written the
/// way the derive macro writes it.
struct Holder {
    known: Option<u8>,
    unknown: UnknownFields,
}

impl Deserialize<HolderTag> for Holder {
    fn deserialize(d: Deserializer) -> Result<Self, DeserializeError> {
        let mut sd = d.deserialize_struct()?;
        let mut known = None;
        while let Some(f) = sd.deserialize()? {
            match f.id() {
                0 => known = f.deserialize::<tags::Option<tags::U8>, Option<u8>>()?,
                _ => f.add_to_unknown_fields()?,
            }
        }
        sd.finish_with(|unknown| Ok(Holder { known, unknown }))
    }
}

impl Serialize<HolderTag> for &Holder {
    fn serialize(self, s: Serializer) -> Result<(), SerializeError> {
        let mut ss = s.serialize_struct2_with_unknown_fields(&self.unknown)?;
        ss.serialize_if_some::<tags::Option<tags::U8>>(0u32, self.known)?;
        ss.finish()
    }
}

struct VariantTag;
impl tags::Tag for VariantTag {}

enum Variant {
    Known(u8),
    Unknown(UnknownVariant),
}

impl Deserialize<VariantTag> for Variant {
    fn deserialize(d: Deserializer) -> Result<Self, DeserializeError> {
        let ed = d.deserialize_enum()?;
        match ed.id() {
            0 => ed.deserialize::<tags::U8, u8>().map(Variant::Known),
            _ => ed.into_unknown_variant().map(Variant::Unknown),
        }
    }
}

impl Serialize<VariantTag> for &Variant {
    fn serialize(self, s: Serializer) -> Result<(), SerializeError> {
        match self {
            Variant::Known(v) => s.serialize_enum::<tags::U8>(0u32, *v),
            Variant::Unknown(u) => s.serialize_unknown_variant(u),
        }
    }
}

fn alloc_bound(len: usize) -> usize {
    64 * 1024 + 512 * len
}

macro_rules! measured {
    ($what:expr, $len:expr, $body:expr) => {{
        let base = alloc::mark();
        let r = catch(|| $body);
        let (peak, largest) = alloc::measure(base);
        match r {
            Err(p) => {
                return Some(Outcome::fail(
                    format!("panic:{}:{}", $what, p.location()),
                    format!("{} panicked: {}", $what, p.0),
                ))
            }
            Ok(v) => {
                if peak > alloc_bound($len) {
                    return Some(Outcome::fail(
                        format!("alloc:{}", $what),
                        format!(
                            "{}: peak {} live bytes (largest request {}) for a {}-byte input (bound {})",
                            $what,
                            peak,
                            largest,
                            $len,
                            alloc_bound($len)
                        ),
                    ));
                }
                v
            }
        }
    }};
}

fn has_multibyte_varint_key(t: &RTree) -> bool {
    let kv = |k: &RKey| matches!(k, RKey::Int(v) if v.form > 0);
    match t {
        RTree::Some(x) | RTree::Enum(_, x) => has_multibyte_varint_key(x),
        RTree::Vec(_, _, v) => v.iter().any(has_multibyte_varint_key),
        RTree::Map(_, _, _, v) => v.iter().any(|(k, x)| kv(k) || has_multibyte_varint_key(x)),
        RTree::Set(_, _, _, v) => v.iter().any(kv),
        RTree::Struct(_, _, v) => v.iter().any(|(_, x)| has_multibyte_varint_key(x)),
        _ => false,
    }
}

/// All oracles for one input. Returns Some(failure) or None.
fn check_input(b: &[u8], classes: &mut Vec<&'static str>, nontrivial: &mut bool) -> Option<Outcome> {
    let fail = |sig: &str, detail: String| Some(Outcome::fail(sig, format!("{}\ninput({})={}", detail, b.len(), hex(&b[..b.len().min(400)]))));

    if b.is_empty() {
        // Outside the domain: there is no public path from bytes to an empty SerializedValue
        // (message frames require a value of >= 1 byte; SerializedValue::empty() is a moved-out
        // placeholder, not a decoded input). Empty *nested* inputs are covered by the wrappers.
        classes.push("empty-skipped");
        return None;
    }

    let strict = decode(b, Mode::Strict);
    let skip = decode(b, Mode::Skip);
    match &skip {
        Ok(d) => {
            classes.push("ref-accepts");
            *nontrivial = true;
            if d.consumed == b.len() {
                classes.push("ref-accepts-all");
            }
            if has_multibyte_varint_key(&d.tree) {
                classes.push("varint-key-multibyte");
            }
            if d.saw_v1 && d.saw_v2 {
                classes.push("mixed-epochs");
            }
            if strict.is_err() {
                classes.push("utf8-only-defect");
            }
        }
        Err(e) => {
            if e.pos() >= 2 {
                classes.push("ref-rejects-deep");
                *nontrivial = true;
            } else {
                classes.push("ref-rejects-shallow");
            }
            if matches!(e, RefError::TooDeep(_)) {
                classes.push("ref-too-deep");
            }
        }
    }

    let sv = sv_from_bytes(b);

    // kind()
    let k = measured!("kind", b.len(), sv.kind());
    let want_kind = if b[0] <= K_MAX { Some(b[0]) } else { None };
    match (k, want_kind) {
        (Ok(k), Some(w)) if u8::from(k) == w => {}
        (Err(_), None) => {}
        (k, w) => return fail("kind:differs", format!("kind() = {:?}, first byte says {:?}", k, w)),
    }

    // full decode <=> reference (strict) accepts everything
    let full = measured!("decode", b.len(), sv.deserialize_as_value());
    let ref_full_ok = matches!(&strict, Ok(d) if d.consumed == b.len());
    match (&full, ref_full_ok) {
        (Ok(v), true) => {
            let want = sem(&strict.as_ref().unwrap().tree);
            let got = sem_of_value(v);
            if want != got {
                return fail("decode:meaning-differs", format!("decoded value differs from the reference\nwant={:?}\n got={:?}", want, got).chars().take(1500).collect());
            }
        }
        (Err(_), false) => {}
        (Ok(_), false) => return fail("decode:accepts-what-reference-rejects", format!("deserialize_as_value accepted; reference(strict) = {:?}", strict.as_ref().map(|d| d.consumed))),
        (Err(e), true) => return fail("decode:rejects-what-reference-accepts", format!("deserialize_as_value = {:?}; reference accepts all {} bytes", e, b.len())),
    }
    drop(full);

    // splitting off the bare input as an opaque value <=> reference (skip) accepts everything
    let split = measured!("split", b.len(), sv.deserialize::<SerializedValue>());
    let ref_skip_all = matches!(&skip, Ok(d) if d.consumed == b.len());
    match (&split, ref_skip_all) {
        (Ok(x), true) => {
            if &x[..] != b {
                return fail("split:bytes-differ", format!("opaque copy differs: {}", hex(x)));
            }
        }
        (Err(_), false) => {}
        (Ok(_), false) => return fail("split:accepts-what-reference-rejects", format!("split-off accepted; reference(skip) = {:?}", skip.as_ref().map(|d| d.consumed))),
        (Err(e), true) => return fail("split:rejects-what-reference-accepts", format!("split-off = {:?}; reference(skip) accepts all {} bytes", e, b.len())),
    }

    // measuring: Deserializer::len + skip
    let probe = measured!("len", b.len(), sv.deserialize_as::<tags::Value, LenProbe>());
    match (&probe, &skip) {
        (Ok(LenProbe(n)), Ok(d)) if d.consumed == b.len() && *n == d.consumed => {}
        (Err(DeserializeError::TrailingData), Ok(d)) if d.consumed < b.len() => {}
        (Err(_), Err(_)) => {}
        (p, s) => {
            return fail(
                "len:differs",
                format!("len()+skip() = {:?}; reference(skip) consumed = {:?}", p.as_ref().map(|l| l.0), s.as_ref().map(|d| d.consumed)),
            )
        }
    }

    // wrapped in a vector next to a marker: the element boundaries found by skipping must be the
    // reference's. Both vector encodings.
    let marker: [u8; 2] = [K_U8, 0xA5];
    for wrapper in 0..2 {
        let mut w = vec![];
        if wrapper == 0 {
            w.push(K_VEC2);
            w.push(K_SOME);
            w.extend_from_slice(b);
            w.push(K_SOME);
            w.extend_from_slice(&marker);
            w.push(K_NONE);
        } else {
            w.extend_from_slice(&[K_VEC1, 2]);
            w.extend_from_slice(b);
            w.extend_from_slice(&marker);
        }
        let rw = decode(&w, Mode::Skip);
        let want: Option<Vec<Vec<u8>>> = match &rw {
            Ok(d) if d.consumed == w.len() => match &d.tree {
                RTree::Vec(_, _, v) => Some(v.iter().map(encode).collect()),
                _ => None,
            },
            _ => None,
        };
        let svw = sv_from_bytes(&w);
        let got = measured!("wrapped-split", w.len(), svw.deserialize_as::<tags::Vec<tags::Value>, Vec<SerializedValue>>());
        match (&got, &want) {
            (Ok(g), Some(wv)) => {
                let gb: Vec<Vec<u8>> = g.iter().map(|x| x.to_vec()).collect();
                if &gb != wv {
                    return fail(
                        "wrapped-split:boundaries-differ",
                        format!("vector wrapper {}: elements split off = {:?}, reference = {:?}", wrapper, gb.iter().map(|x| hex(x)).collect::<Vec<_>>(), wv.iter().map(|x| hex(x)).collect::<Vec<_>>()),
                    );
                }
            }
            (Err(_), None) => {}
            (Ok(g), None) => return fail("wrapped-split:accepts-what-reference-rejects", format!("vector wrapper {}: split into {} elements; reference(skip) = {:?}", wrapper, g.len(), rw.as_ref().map(|d| d.consumed))),
            (Err(e), Some(_)) => return fail("wrapped-split:rejects-what-reference-accepts", format!("vector wrapper {}: {:?}; reference accepts", wrapper, e)),
        }
    }

    // unknown field capture: struct {0: Some(U8 1), 7: input}. The expectation is derived from the
    // reference's view of the whole wrapper: field 0 must be an optional u8 (last occurrence
    // wins), every other id is captured opaquely (last occurrence wins).
    for wrapper in 0..2 {
        let mut w = vec![];
        if wrapper == 0 {
            w.extend_from_slice(&[K_STRUCT2, K_SOME, 0, K_SOME, K_U8, 1, K_SOME, 7]);
            w.extend_from_slice(b);
            w.push(K_NONE);
        } else {
            w.extend_from_slice(&[K_STRUCT1, 2, 0, K_SOME, K_U8, 1, 7]);
            w.extend_from_slice(b);
        }
        let rw = decode(&w, Mode::Skip);
        // Some((known, unknown)) if the wrapper must decode
        let mut want: Option<(Option<u8>, std::collections::BTreeMap<u32, Vec<u8>>)> = None;
        if let Ok(d) = &rw {
            if d.consumed == w.len() {
                if let RTree::Struct(_, _, f) = &d.tree {
                    let mut known = None;
                    let mut unknown = std::collections::BTreeMap::new();
                    let mut ok = true;
                    for (id, x) in f {
                        if id.raw == 0 {
                            match x {
                                RTree::None => known = None,
                                RTree::Some(inner) => match **inner {
                                    RTree::U8(v) => known = Some(v),
                                    _ => ok = false,
                                },
                                _ => ok = false,
                            }
                        } else {
                            unknown.insert(id.raw as u32, encode(x));
                        }
                    }
                    if ok {
                        want = Some((known, unknown));
                    }
                }
            }
        }
        let svw = sv_from_bytes(&w);
        let got = measured!("unknown-fields", w.len(), svw.deserialize_as::<HolderTag, Holder>());
        match (&got, &want) {
            (Ok(h), Some((wk, wu))) => {
                let gu: std::collections::BTreeMap<u32, Vec<u8>> = h.unknown.0.iter().map(|(k, v)| (*k, v.to_vec())).collect();
                if h.known != *wk || &gu != wu {
                    return fail(
                        "unknown-fields:capture-differs",
                        format!("struct wrapper {}: captured known={:?} unknown={:?}; want known={:?} unknown={:?}", wrapper, h.known, gu, wk, wu),
                    );
                }
                // carry and re-encode: every field arrives with the same bytes
                let re = measured!("unknown-fields-reencode", w.len(), SerializedValue::serialize_as::<HolderTag>(h));
                match re {
                    Ok(re) => match decode_all(&re, Mode::Skip) {
                        Ok(d2) => {
                            let mut seen = std::collections::BTreeMap::new();
                            let mut dup = false;
                            if let RTree::Struct(_, _, f) = &d2.tree {
                                for (id, x) in f {
                                    dup |= seen.insert(id.raw as u32, encode(x)).is_some();
                                }
                            } else {
                                dup = true;
                            }
                            let mut expect = wu.clone();
                            if let Some(k) = wk {
                                expect.insert(0, vec![K_SOME, K_U8, *k]);
                            }
                            if dup || seen != expect {
                                return fail("unknown-fields:reencode-differs", format!("re-encoded struct = {}; expected fields {:?}", hex(&re), expect));
                            }
                        }
                        Err(e) => return fail("unknown-fields:reencode-malformed", format!("re-encoded struct rejected by reference: {:?} {}", e, hex(&re))),
                    },
                    Err(e) => return fail("unknown-fields:reencode-failed", format!("{:?}", e)),
                }
            }
            (Err(_), None) => {}
            (Ok(_), None) => return fail("unknown-fields:accepts-what-reference-rejects", format!("struct wrapper {}: accepted; reference(skip) = {:?}", wrapper, rw.as_ref().map(|d| d.consumed))),
            (Err(e), Some(_)) => return fail("unknown-fields:rejects-what-reference-accepts", format!("struct wrapper {}: {:?}; reference accepts", wrapper, e)),
        }
    }

    // unknown variant capture: enum 9(input)
    {
        let mut w = vec![K_ENUM, 9];
        w.extend_from_slice(b);
        let rw = decode(&w, Mode::Skip);
        let want: Option<Vec<u8>> = match &rw {
            Ok(d) if d.consumed == w.len() => match &d.tree {
                RTree::Enum(_, x) => Some(encode(x)),
                _ => None,
            },
            _ => None,
        };
        let svw = sv_from_bytes(&w);
        let got = measured!("unknown-variant", w.len(), svw.deserialize_as::<VariantTag, Variant>());
        match (&got, &want) {
            (Ok(Variant::Unknown(u)), Some(wb)) => {
                if u.id() != 9 || &u.value()[..] != &wb[..] {
                    return fail("unknown-variant:capture-differs", format!("captured id {} value {}", u.id(), hex(u.value())));
                }
                let re = measured!("unknown-variant-reencode", w.len(), SerializedValue::serialize_as::<VariantTag>(got.as_ref().unwrap()));
                match re {
                    Ok(re) => {
                        if &re[..] != &w[..] {
                            return fail("unknown-variant:reencode-differs", format!("re-encoded = {}", hex(&re)));
                        }
                    }
                    Err(e) => return fail("unknown-variant:reencode-failed", format!("{:?}", e)),
                }
            }
            (Err(_), None) => {}
            (Ok(_), _) => return fail("unknown-variant:accepts-what-reference-rejects", format!("accepted; reference(skip) = {:?}", rw.as_ref().map(|d| d.consumed))),
            (Err(e), Some(_)) => return fail("unknown-variant:rejects-what-reference-accepts", format!("{:?}; reference accepts", e)),
        }
    }

    let _ = ValueKind::None;
    None
}
