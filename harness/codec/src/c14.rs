//! C14 Byte-stream framing is independent of fragmentation and backpressure.

use crate::glue::sv_from_bytes;
use crate::refcodec::{encode, Epoch, RTree};
use crate::refmsg::*;
use aldrin_core::message::{Message, MessageOps, Packetizer, SendItem};
use aldrin_core::tokio::{TokioTransport, TokioTransportError};
use aldrin_core::transport::{AsyncTransport, Buffered};
use aldrin_core::ChannelCookie;
use std::io::{Error as IoError, ErrorKind};
use std::pin::Pin;
use std::task::{Context, Poll, Waker};
use tokio::io::{AsyncRead, AsyncWrite, ReadBuf};
use vcommon::vfail;
use vcommon::{catch, fingerprint, CheckDef, ClassPlan, Outcome, PassInfo, SplitMix, Tape, Tier};

pub static DEF: CheckDef = CheckDef {
    id: "C14",
    level: "exploration",
    rule: "Cases: sequences of 1..40 real message frames (5 bytes .. 200 KiB; sizes around the 8 KiB back-pressure boundary and the 64 KiB reserve step) fed to Packetizer through extend_from_slice and spare_capacity_mut/bytes_written in tape-chosen pieces (single bytes, cuts inside the 4-byte header, exact boundaries, whole spare capacity, giant chunks) with draining at tape-chosen points (incl. none between two fills); TokioTransport (and Buffered in front of it) over a scripted AsyncRead+AsyncWrite whose every read/write/flush result (k bytes, 0, Pending, EOF, error) comes from the tape. Non-trivial: a frame was split across >=2 pieces, or a write was short/pending. Distinct = frame sizes + piece pattern.",
    assumptions: &[
        "the scripted I/O object honours the AsyncRead/AsyncWrite contracts (never reports more bytes than the buffer holds; Pending is followed by a re-poll)",
        "spare_capacity_mut's documented guarantee (non-empty slice) is part of the oracle: a caller cannot feed bytes otherwise",
    ],
    plan,
    case,
    render,
    crashy: false,
    floors: &[("split-frame", 0.20), ("fill-all-spare", 0.03), ("short-or-pending-write", 0.10), ("big-frame>64KiB", 0.02)],
    extra: None,
    extra_coverage: None,
};

fn plan(t: Tier) -> Vec<ClassPlan> {
    let k = match t {
        Tier::Quick => 1,
        Tier::Thorough => 30,
    };
    vec![
        ClassPlan { class: "packetizer", cases: 12_000 * k, min_len: 8, max_len: 500 },
        ClassPlan { class: "transport-read", cases: 10_000 * k, min_len: 8, max_len: 500 },
        ClassPlan { class: "transport-write", cases: 10_000 * k, min_len: 8, max_len: 500 },
        ClassPlan { class: "buffered-write", cases: 6_000 * k, min_len: 8, max_len: 500 },
    ]
}

// ---------------------------------------------------------------------------------------------
// message sequences

fn gen_messages(t: &mut Tape) -> Vec<Message> {
    let n = match t.below(4) {
        0 => 1,
        1 => t.range(2, 4),
        2 => t.range(5, 12),
        _ => t.range(13, 40),
    };
    let mut budget: usize = 600 * 1024;
    let mut out = vec![];
    for _ in 0..n {
        let m = match t.weighted(&[60, 14, 10, 8, 8]) {
            0 => small(t),
            1 => item(t.range(1, 300)),
            2 => item(t.range(7_900, 8_500)),
            3 => {
                if budget > 80_000 {
                    budget -= 70_000;
                    item(t.range(60_000, 70_000))
                } else {
                    small(t)
                }
            }
            _ => {
                if budget > 210_000 {
                    budget -= 200_000;
                    item(t.range(130_000, 200_000))
                } else {
                    small(t)
                }
            }
        };
        out.push(m);
    }
    out
}

fn small(t: &mut Tape) -> Message {
    let kind = t.below(63) as u8;
    let lay = &LAYOUTS[kind as usize];
    let fields = small_fields(t, lay.fields);
    let value = if lay.has_value { Some(vec![3, t.u8()]) } else { None };
    build(&RMsg { kind, value, fields })
}

fn small_fields(t: &mut Tape, fs: &[F]) -> Vec<RF> {
    fs.iter()
        .map(|f| match f {
            F::V => RF::V(crate::refcodec::VarInt::canonical((t.u32() >> t.below(32)) as u64, 4)),
            F::U => RF::U([t.u8(); 16]),
            F::Alt(alts) => {
                let d = t.below(alts.len());
                RF::Alt(d as u8, small_fields(t, alts[d]))
            }
        })
        .collect()
}

fn item(n: usize) -> Message {
    let mut r = SplitMix(n as u64);
    let data: Vec<u8> = (0..n).map(|_| r.next() as u8).collect();
    let form = crate::refcodec::VarInt::canonical(n as u64, 4).form;
    let v = encode(&RTree::Bytes(Epoch::V2, vec![(form, data)], 0));
    Message::SendItem(SendItem { cookie: ChannelCookie(uuid::Uuid::from_bytes([9; 16])), value: sv_from_bytes(&v) })
}

fn frames_of(msgs: &[Message]) -> Vec<Vec<u8>> {
    msgs.iter().map(|m| m.clone().serialize_message().expect("serialize").to_vec()).collect()
}

fn sizes_key(frames: &[Vec<u8>]) -> Vec<u8> {
    let mut k = vec![];
    for f in frames {
        k.extend_from_slice(&(f.len() as u32).to_le_bytes());
    }
    k
}

fn render(class: &str, tape: &[u8]) -> String {
    let mut t = Tape::new(tape);
    let msgs = gen_messages(&mut t);
    let frames = frames_of(&msgs);
    format!(
        "{}: {} frames, sizes {:?}; remaining tape drives the piece/IO script ({} bytes)",
        class,
        frames.len(),
        frames.iter().map(|f| f.len()).collect::<Vec<_>>(),
        t.remaining()
    )
}

fn case(class: &str, tape: &[u8], _strict: bool) -> Outcome {
    let r = catch(|| match class {
        "packetizer" => packetizer_case(tape),
        "transport-read" => read_case(tape),
        "transport-write" => write_case(tape, false),
        _ => write_case(tape, true),
    });
    match r {
        Ok(o) => o,
        Err(p) => {
            if p.location().ends_with("message/packetizer.rs:44") || p.message().contains("!slice.is_empty()") {
                Outcome::fail("packetizer:spare-capacity-empty", format!("spare_capacity_mut() tripped its own non-empty assertion: {}", p.0))
            } else {
                Outcome::fail(format!("panic:{}:{}", class, p.location()), format!("panic: {}", p.0))
            }
        }
    }
}

// ---------------------------------------------------------------------------------------------
// packetizer

fn packetizer_case(tape: &[u8]) -> Outcome {
    let mut t = Tape::new(tape);
    let msgs = gen_messages(&mut t);
    let frames = frames_of(&msgs);
    let stream: Vec<u8> = frames.concat();
    let mut ends = vec![];
    let mut acc = 0;
    for f in &frames {
        acc += f.len();
        ends.push(acc);
    }
    let mut classes: Vec<&'static str> = vec![];
    if frames.iter().any(|f| f.len() > 65_536) {
        classes.push("big-frame>64KiB");
    }
    let mut p = Packetizer::new();
    let mut fed = 0usize;
    let mut emitted = 0usize;
    let mut pieces_in_frame = vec![0u32; frames.len()];
    let mut pattern = vec![];
    let mode = t.below(4); // 0 = slices only, 1 = spare only, 2/3 = interleaved
    let mut fills_since_drain = 0;
    while fed < stream.len() {
        let remaining = stream.len() - fed;
        let use_spare = match mode {
            0 => false,
            1 => true,
            _ => t.bool(),
        };
        let next_end = *ends.iter().find(|e| **e > fed).unwrap();
        let fed_before = fed;
        if use_spare {
            let spare = p.spare_capacity_mut();
            let cap = spare.len();
            if cap == 0 {
                vfail!("packetizer:spare-capacity-empty", "spare_capacity_mut() returned an empty slice after {} bytes ({} fills since the last drain)", fed, fills_since_drain);
            }
            let k = match t.weighted(&[20, 30, 25, 25]) {
                0 => 1,
                1 => t.range(1, 9),
                2 => cap,
                _ => 1 + t.below(cap.min(remaining)),
            }
            .min(cap)
            .min(remaining);
            if k == cap {
                classes.push("fill-all-spare");
            }
            for (i, b) in stream[fed..fed + k].iter().enumerate() {
                spare[i].write(*b);
            }
            unsafe { p.bytes_written(k) };
            fed += k;
            pattern.push(k as u32 | 0x8000_0000);
        } else {
            let k = match t.weighted(&[25, 20, 15, 15, 10, 15]) {
                0 => 1,
                1 => t.range(2, 5),
                2 => next_end - fed,                     // exactly to the frame boundary
                3 => (next_end - fed + t.range(1, 3)).min(remaining), // into the next header
                4 => remaining,                          // giant
                _ => t.range(1, 4096),
            }
            .min(remaining);
            p.extend_from_slice(&stream[fed..fed + k]);
            fed += k;
            pattern.push(k as u32);
        }
        for (i, e) in ends.iter().enumerate() {
            let start = e - frames[i].len();
            if fed_before < *e && fed > start {
                pieces_in_frame[i] += 1;
            }
        }
        fills_since_drain += 1;
        // drain?
        if t.weighted(&[3, 1]) == 0 || fed == stream.len() {
            fills_since_drain = 0;
            loop {
                let Some(f) = p.next_message() else { break };
                if emitted >= frames.len() {
                    vfail!("packetizer:extra-frame", "frame #{} emitted but only {} were fed", emitted, frames.len());
                }
                if f[..] != frames[emitted][..] {
                    vfail!("packetizer:frame-differs", "frame #{} differs: got {} bytes, want {} bytes; first bytes got {:?} want {:?}", emitted, f.len(), frames[emitted].len(), &f[..f.len().min(12)], &frames[emitted][..12.min(frames[emitted].len())]);
                }
                if ends[emitted] > fed {
                    vfail!("packetizer:frame-early", "frame #{} emitted after {} bytes but it ends at {}", emitted, fed, ends[emitted]);
                }
                emitted += 1;
            }
            let complete = ends.iter().filter(|e| **e <= fed).count();
            if emitted != complete {
                vfail!("packetizer:frame-late", "after {} bytes and a full drain {} frames were emitted but {} are complete", fed, emitted, complete);
            }
        }
    }
    if emitted != frames.len() {
        vfail!("packetizer:frames-missing", "{} of {} frames emitted", emitted, frames.len());
    }
    if p.next_message().is_some() {
        vfail!("packetizer:extra-frame", "a frame appeared after everything was drained");
    }
    let split = pieces_in_frame.iter().any(|c| *c >= 2);
    if split {
        classes.push("split-frame");
    }
    let mut key = sizes_key(&frames);
    for x in &pattern {
        key.extend_from_slice(&x.to_le_bytes());
    }
    Outcome::Pass(PassInfo { nontrivial: split, fp: fingerprint(&key), classes })
}

// ---------------------------------------------------------------------------------------------
// scripted I/O

#[derive(Default)]
struct St {
    script: Vec<u8>,
    spos: usize,
    // read side
    stream: Vec<u8>,
    rpos: usize,
    read_fault: Option<usize>, // error injected at this read-call index
    read_calls: usize,
    handed_out: usize,
    read_pieces: Vec<u32>,
    // write side
    written: Vec<u8>,
    write_fault: Option<usize>, // at this write-call index: (even) error / (odd) zero
    write_calls: usize,
    injected: Option<&'static str>,
    flushed_len: Option<usize>,
    short_or_pending: bool,
    pending_budget: u32,
}

#[derive(Clone)]
struct ScriptIo(std::rc::Rc<std::cell::RefCell<St>>);

impl std::fmt::Debug for ScriptIo {
    fn fmt(&self, f: &mut std::fmt::Formatter<'_>) -> std::fmt::Result {
        write!(f, "ScriptIo")
    }
}

impl ScriptIo {
    fn new(st: St) -> Self {
        ScriptIo(std::rc::Rc::new(std::cell::RefCell::new(st)))
    }
}

impl St {
    fn b(&mut self) -> u8 {
        let v = self.script.get(self.spos).copied().unwrap_or(0);
        self.spos += 1;
        v
    }
}

impl AsyncRead for ScriptIo {
    fn poll_read(self: Pin<&mut Self>, cx: &mut Context<'_>, buf: &mut ReadBuf<'_>) -> Poll<std::io::Result<()>> {
        let mut g = self.0.borrow_mut();
        let this = &mut *g;
        let call = this.read_calls;
        this.read_calls += 1;
        if this.read_fault == Some(call) {
            this.injected = Some("read-error");
            return Poll::Ready(Err(IoError::new(ErrorKind::ConnectionReset, "injected")));
        }
        let op = this.b();
        if op % 5 == 4 && this.pending_budget > 0 {
            this.pending_budget -= 1;
            cx.waker().wake_by_ref();
            return Poll::Pending;
        }
        let remaining = this.stream.len() - this.rpos;
        if remaining == 0 {
            return Poll::Ready(Ok(())); // EOF
        }
        let room = buf.remaining();
        let k = match op % 5 {
            0 => remaining,
            1 => 1,
            2 => 1 + (this.b() as usize % 8),
            _ => 1 + (((this.b() as usize) << 8 | this.b() as usize) % 5000),
        }
        .min(remaining)
        .min(room);
        buf.put_slice(&this.stream[this.rpos..this.rpos + k]);
        this.rpos += k;
        this.handed_out += k;
        this.read_pieces.push(k as u32);
        Poll::Ready(Ok(()))
    }
}

impl AsyncWrite for ScriptIo {
    fn poll_write(self: Pin<&mut Self>, cx: &mut Context<'_>, buf: &[u8]) -> Poll<std::io::Result<usize>> {
        let mut g = self.0.borrow_mut();
        let this = &mut *g;
        let call = this.write_calls;
        this.write_calls += 1;
        if let Some(f) = this.write_fault {
            if f / 2 == call {
                if f % 2 == 0 {
                    this.injected = Some("write-error");
                    return Poll::Ready(Err(IoError::new(ErrorKind::BrokenPipe, "injected")));
                } else {
                    this.injected = Some("write-zero");
                    return Poll::Ready(Ok(0));
                }
            }
        }
        let op = this.b();
        if op % 5 == 4 && this.pending_budget > 0 {
            this.pending_budget -= 1;
            this.short_or_pending = true;
            cx.waker().wake_by_ref();
            return Poll::Pending;
        }
        let k = match op % 5 {
            0 => buf.len(),
            1 => 1,
            2 => 1 + (this.b() as usize % 16),
            _ => 1 + (((this.b() as usize) << 8 | this.b() as usize) % 9000),
        }
        .min(buf.len());
        if k < buf.len() {
            this.short_or_pending = true;
        }
        this.written.extend_from_slice(&buf[..k]);
        this.flushed_len = None;
        Poll::Ready(Ok(k))
    }

    fn poll_flush(self: Pin<&mut Self>, cx: &mut Context<'_>) -> Poll<std::io::Result<()>> {
        let mut g = self.0.borrow_mut();
        let this = &mut *g;
        let op = this.b();
        if op % 4 == 3 && this.pending_budget > 0 {
            this.pending_budget -= 1;
            this.short_or_pending = true;
            cx.waker().wake_by_ref();
            return Poll::Pending;
        }
        this.flushed_len = Some(this.written.len());
        Poll::Ready(Ok(()))
    }

    fn poll_shutdown(self: Pin<&mut Self>, _cx: &mut Context<'_>) -> Poll<std::io::Result<()>> {
        Poll::Ready(Ok(()))
    }
}

// ---------------------------------------------------------------------------------------------
// transport: receiving

fn read_case(tape: &[u8]) -> Outcome {
    let mut t = Tape::new(tape);
    let msgs = gen_messages(&mut t);
    let frames = frames_of(&msgs);
    let mut stream: Vec<u8> = frames.concat();
    let mut classes: Vec<&'static str> = vec![];
    if frames.iter().any(|f| f.len() > 65_536) {
        classes.push("big-frame>64KiB");
    }
    // 0 = clean EOF after the last frame, 1 = EOF inside/between frames, 2 = injected error
    let ending = t.weighted(&[5, 3, 2]);
    let full_len = stream.len();
    if ending == 1 {
        let cut = t.below(full_len);
        stream.truncate(cut);
        classes.push("eof-mid-stream");
    }
    let read_fault = if ending == 2 {
        classes.push("read-error");
        Some(t.below(12))
    } else {
        None
    };
    let io = ScriptIo::new(St { script: t.rest().to_vec(), stream: stream.clone(), read_fault, pending_budget: 200, ..Default::default() });
    let mut tr = Box::pin(TokioTransport::new(io.clone()));
    let waker = Waker::noop();
    let mut cx = Context::from_waker(waker);
    let mut got = 0usize;
    let mut polls = 0u32;
    let end: TokioTransportError = loop {
        polls += 1;
        if polls > 200_000 {
            vfail!("transport-read:no-progress", "receive_poll did not finish within 200000 polls ({} messages so far)", got);
        }
        match tr.as_mut().receive_poll(&mut cx) {
            Poll::Pending => continue,
            Poll::Ready(Ok(m)) => {
                if got >= msgs.len() {
                    vfail!("transport-read:extra-message", "message #{} received but only {} were sent: {:?}", got, msgs.len(), m.kind());
                }
                if m != msgs[got] {
                    vfail!("transport-read:message-differs", "message #{} differs: got {:?}, sent {:?}", got, m.kind(), msgs[got].kind());
                }
                got += 1;
            }
            Poll::Ready(Err(e)) => break e,
        }
    };
    // which messages were completely handed to the transport before the end
    let mut acc = 0;
    let mut complete_in_stream = 0;
    for f in &frames {
        acc += f.len();
        if acc <= stream.len() {
            complete_in_stream += 1;
        }
    }
    match ending {
        0 | 1 => {
            match &end {
                TokioTransportError::Io(e) if e.kind() == ErrorKind::UnexpectedEof => {}
                other => vfail!("transport-read:eof-not-reported", "end of stream surfaced as {:?}", other),
            }
            if got != complete_in_stream {
                vfail!("transport-read:messages-lost", "{} messages received before end-of-stream, {} were completely sent", got, complete_in_stream);
            }
        }
        _ => {
            match &end {
                TokioTransportError::Io(e) if e.kind() == ErrorKind::ConnectionReset => {}
                TokioTransportError::Io(e) if e.kind() == ErrorKind::UnexpectedEof && complete_in_stream == msgs.len() => {
                    // the script reached EOF before the fault index
                }
                other => vfail!("transport-read:error-not-reported", "injected read error surfaced as {:?}", other),
            }
            if got > complete_in_stream {
                vfail!("transport-read:extra-message", "more messages than were sent");
            }
        }
    }
    let pieces = io.0.borrow().read_pieces.clone();
    let split = pieces.len() > frames.len() || pieces.iter().any(|p| *p < 5);
    if split {
        classes.push("split-frame");
    }
    let mut key = sizes_key(&frames);
    for x in &pieces {
        key.extend_from_slice(&x.to_le_bytes());
    }
    key.push(ending as u8);
    Outcome::Pass(PassInfo { nontrivial: split, fp: fingerprint(&key), classes })
}

// ---------------------------------------------------------------------------------------------
// transport: sending

struct IoView {
    written_len: usize,
    flushed_len: Option<usize>,
    injected: Option<String>,
    short_or_pending: bool,
    written_fp: u64,
}

fn view(io: &ScriptIo) -> IoView {
    let st = io.0.borrow();
    IoView {
        written_len: st.written.len(),
        flushed_len: st.flushed_len,
        injected: st.injected.map(|s| s.to_string()),
        short_or_pending: st.short_or_pending,
        written_fp: fingerprint(&st.written),
    }
}

fn write_case(tape: &[u8], buffered: bool) -> Outcome {
    let mut t = Tape::new(tape);
    let msgs = gen_messages(&mut t);
    let frames = frames_of(&msgs);
    let mut classes: Vec<&'static str> = vec![];
    if frames.iter().any(|f| f.len() > 65_536) {
        classes.push("big-frame>64KiB");
    }
    let fault = match t.weighted(&[8, 1, 1]) {
        0 => None,
        1 => Some(2 * t.below(10)),
        _ => Some(2 * t.below(10) + 1),
    };
    let flush_plan: Vec<bool> = (0..msgs.len()).map(|_| t.chance(90)).collect();
    let io = ScriptIo::new(St { script: t.rest().to_vec(), write_fault: fault, pending_budget: 300, ..Default::default() });
    let waker = Waker::noop();
    let mut cx = Context::from_waker(waker);

    // expected bytes of all messages started so far
    let mut expected: Vec<u8> = vec![];
    macro_rules! drive {
        ($tr:expr) => {{
            let mut tr = $tr;
            let mut failed: Option<String> = None;
            'outer: for (i, m) in msgs.iter().enumerate() {
                // ready
                let mut polls = 0;
                loop {
                    polls += 1;
                    if polls > 100_000 {
                        vfail!("transport-write:no-progress", "send_poll_ready never became ready");
                    }
                    match tr.as_mut().send_poll_ready(&mut cx) {
                        Poll::Pending => continue,
                        Poll::Ready(Ok(())) => break,
                        Poll::Ready(Err(e)) => {
                            failed = Some(format!("{:?}", e));
                            break 'outer;
                        }
                    }
                }
                if let Err(e) = tr.as_mut().send_start(m.clone()) {
                    failed = Some(format!("{:?}", e));
                    break;
                }
                expected.extend_from_slice(&frames[i]);
                let v = view(&io);
                if v.written_len > expected.len() || v.written_fp != fingerprint(&expected[..v.written_len]) {
                    vfail!("transport-write:bytes-differ", "after starting message #{}: the {} bytes accepted by the io are not a prefix of the concatenated frames", i, v.written_len);
                }
                if flush_plan[i] || i + 1 == msgs.len() {
                    let mut polls = 0;
                    loop {
                        polls += 1;
                        if polls > 100_000 {
                            vfail!("transport-write:no-progress", "send_poll_flush never completed");
                        }
                        let r = tr.as_mut().send_poll_flush(&mut cx);
                        let v = view(&io);
                        if v.written_len > expected.len() || v.written_fp != fingerprint(&expected[..v.written_len]) {
                            vfail!("transport-write:bytes-differ", "during flush after message #{}: the {} bytes accepted by the io are not a prefix of the concatenated frames", i, v.written_len);
                        }
                        match r {
                            Poll::Pending => continue,
                            Poll::Ready(Ok(())) => {
                                if v.written_len != expected.len() {
                                    vfail!("transport-write:flush-early", "send_poll_flush returned Ok with {} of {} bytes written (messages 0..={})", v.written_len, expected.len(), i);
                                }
                                if v.flushed_len != Some(expected.len()) {
                                    vfail!("transport-write:flush-not-flushed", "send_poll_flush returned Ok but the io's flush did not complete after the last write (flushed_len {:?}, written {})", v.flushed_len, v.written_len);
                                }
                                if let Some(inj) = &v.injected {
                                    vfail!("transport-write:fault-swallowed", "io reported {} but flush returned Ok", inj);
                                }
                                break;
                            }
                            Poll::Ready(Err(e)) => {
                                failed = Some(format!("{:?}", e));
                                break 'outer;
                            }
                        }
                    }
                }
            }
            (failed, view(&io))
        }};
    }
    let (failed, v) = if buffered {
        drive!(Box::pin(Buffered::new(TokioTransport::new(io.clone()))))
    } else {
        drive!(Box::pin(TokioTransport::new(io.clone())))
    };
    match (&failed, &v.injected) {
        (None, None) => {
            if v.written_len != expected.len() {
                vfail!("transport-write:bytes-missing", "{} of {} bytes written at the end", v.written_len, expected.len());
            }
        }
        (Some(e), Some(inj)) => {
            let ok = match inj.as_str() {
                "write-zero" => e.contains("WriteZero"),
                _ => e.contains("BrokenPipe"),
            };
            if !ok {
                vfail!("transport-write:wrong-error", "io fault {} surfaced as {}", inj, e);
            }
            classes.push(if inj == "write-zero" { "write-zero" } else { "write-error" });
        }
        (Some(e), None) => vfail!("transport-write:spurious-error", "transport failed with {} although the io never failed", e),
        (None, Some(inj)) => vfail!("transport-write:fault-swallowed", "io reported {} but the transport never failed", inj),
    }
    if v.short_or_pending {
        classes.push("short-or-pending-write");
    }
    let mut key = sizes_key(&frames);
    key.extend_from_slice(&tape[tape.len().saturating_sub(40)..]);
    key.push(buffered as u8);
    Outcome::Pass(PassInfo { nontrivial: v.short_or_pending, fp: fingerprint(&key), classes })
}
